// PROTOTYPE: reference semantics for C01-C03 vs real okane (hooks off, order-insensitive compare)
use std::{collections::{BTreeMap, HashMap}, path::PathBuf};
use bumpalo::Bump;
use okane_core::{load, report};
use rust_decimal::Decimal;
use std::str::FromStr;

type Amt = BTreeMap<String, Decimal>;
fn d(s: &str) -> Decimal { Decimal::from_str(s).unwrap() }

#[derive(Clone, Debug)]
enum Ann { None, Rate(String, String), Total(String, String), LotRate(String, String), LotTotal(String, String) }
#[derive(Clone, Debug)]
enum Bal { None, Zero, Val(String, String) }
#[derive(Clone, Debug)]
struct P { acct: &'static str, amt: Option<(String, String)>, /* (value, commodity; commodity "" = bare) */ ann: Ann, bal: Bal }

fn render(ps: &[P]) -> String {
    let mut s = String::from("2024/01/05 t\n");
    for p in ps {
        s.push_str("  "); s.push_str(p.acct);
        if let Some((v, c)) = &p.amt { s.push_str(&format!("  {} {}", v, c)); }
        match &p.ann { Ann::None => {}, Ann::Rate(v,c) => s.push_str(&format!(" @ {} {}", v, c)), Ann::Total(v,c) => s.push_str(&format!(" @@ {} {}", v, c)),
            Ann::LotRate(v,c) => s.push_str(&format!(" {{{} {}}}", v, c)), Ann::LotTotal(v,c) => s.push_str(&format!(" {{{{{} {}}}}}", v, c)) }
        match &p.bal { Bal::None => {}, Bal::Zero => s.push_str("  = 0"), Bal::Val(v,c) => s.push_str(&format!("  = {} {}", v, c)) }
        s.push('\n');
    }
    s
}

#[derive(Debug, PartialEq, Clone)]
enum Exp { Accept(BTreeMap<String, Amt>), Reject(&'static str), DontCare(&'static str) }

fn add(a: &mut Amt, c: &str, v: Decimal) { *a.entry(c.to_string()).or_insert(Decimal::ZERO) += v; }
fn clean(a: &mut Amt) { a.retain(|_, v| !v.is_zero()); }

/// reference step. `prec`: declared precisions. Returns expected verdict with resulting balances.
fn ref_step(bal0: &BTreeMap<String, Amt>, prec: &BTreeMap<String, u32>, ps: &[P]) -> Exp {
    let mut bal = bal0.clone();
    let mut residual: Amt = Amt::new();
    let mut omitted: Vec<usize> = vec![];
    // first pass in file order, but omitted posting amount unknown: handle assertion-after-omitted by two passes
    // pass 1: compute deltas of non-omitted postings (assignments need running balance -> circularity check)
    for (i, p) in ps.iter().enumerate() {
        if p.amt.is_none() && matches!(p.bal, Bal::None) { omitted.push(i); }
    }
    if omitted.len() >= 2 { return Exp::Reject("two-omitted"); }
    // circular: omitted posting followed by assignment on same account
    if let Some(&o) = omitted.first() {
        for p in &ps[o+1..] { if p.amt.is_none() && !matches!(p.bal, Bal::None) && p.acct == ps[o].acct { return Exp::DontCare("omitted-then-assign-same-account"); } }
    }
    // We process in file order with a symbolic omitted amount u: since assertions after omitted on same account need u,
    // compute u first by a pre-pass ignoring assertions (assignments on other accounts don't depend on u).
    let mut pre = bal.clone();
    let mut res_pre: Amt = Amt::new();
    let mut deltas: Vec<Option<Amt>> = vec![None; ps.len()];
    for (i, p) in ps.iter().enumerate() {
        match (&p.amt, &p.bal) {
            (None, Bal::None) => {}
            (None, b) => { // assignment
                let acc = pre.entry(p.acct.to_string()).or_default();
                let mut delta = Amt::new();
                match b {
                    Bal::Zero => { if acc.len() > 1 { return Exp::Reject("assign-zero-multi"); } for (c, v) in acc.clone() { add(&mut delta, &c, -v); } acc.clear(); }
                    Bal::Val(v, c) => { let cur = acc.get(c).copied().unwrap_or_default(); add(&mut delta, c, d(v) - cur); acc.insert(c.clone(), d(v)); clean(acc); }
                    Bal::None => unreachable!(),
                }
                for (c, v) in &delta { add(&mut res_pre, c, *v); }
                deltas[i] = Some(delta);
            }
            (Some((v, c)), _) => {
                let v = d(v);
                if c.is_empty() { if !v.is_zero() { return Exp::DontCare("bare-nonzero"); } if !matches!(p.ann, Ann::None) { return Exp::DontCare("bare-zero-with-exchange"); } deltas[i] = Some(Amt::new()); continue; }
                let acc = pre.entry(p.acct.to_string()).or_default();
                add(acc, c, v); clean(acc);
                let mut own = Amt::new(); add(&mut own, c, v);
                deltas[i] = Some(own);
                // balancing value
                let (bv, bc) = match &p.ann {
                    Ann::None => (v, c.clone()),
                    Ann::Rate(r, rc) | Ann::LotRate(r, rc) => { let r = d(r); if r.is_zero() || rc == c { return Exp::DontCare("bad-exchange"); } (r * v, rc.clone()) }
                    Ann::Total(t, tc) | Ann::LotTotal(t, tc) => { let t = d(t); if t.is_zero() || tc == c { return Exp::DontCare("bad-exchange"); } (if v.is_sign_negative() { -t.abs() } else { t.abs() }, tc.clone()) }
                };
                add(&mut res_pre, &bc, bv);
            }
        }
    }
    let u: Option<Amt> = omitted.first().map(|_| res_pre.iter().map(|(c, v)| (c.clone(), -*v)).collect());
    if let Some(&o) = omitted.first() { deltas[o] = u.clone(); }
    // pass 2: file order with assertions
    for (i, p) in ps.iter().enumerate() {
        let acc = bal.entry(p.acct.to_string()).or_default();
        if p.amt.is_none() && !matches!(p.bal, Bal::None) {
            // assignment: set
            match &p.bal { Bal::Zero => acc.clear(), Bal::Val(v, c) => { acc.insert(c.clone(), d(v)); clean(acc); } Bal::None => {} }
            continue;
        }
        for (c, v) in deltas[i].clone().unwrap() { add(acc, &c, v); }
        clean(acc);
        if p.amt.is_some() {
            match &p.bal {
                Bal::None => {}
                Bal::Zero => { if !acc.is_empty() { return Exp::Reject("assert"); } }
                Bal::Val(v, c) => { if acc.get(c).copied().unwrap_or_default() != d(v) { return Exp::Reject("assert"); } }
            }
        }
    }
    residual = res_pre;
    if omitted.is_empty() {
        // rounding
        let mut midpoint = false;
        let mut r = Amt::new();
        for (c, v) in &residual {
            let rv = match prec.get(c) { Some(dp) => { let a = v.round_dp_with_strategy(*dp, rust_decimal::RoundingStrategy::MidpointAwayFromZero); let b = v.round_dp_with_strategy(*dp, rust_decimal::RoundingStrategy::MidpointTowardZero); if a != b { midpoint = true; } a } None => *v };
            r.insert(c.clone(), rv);
        }
        if midpoint { return Exp::DontCare("midpoint"); }
        let nz: Vec<&Decimal> = r.values().filter(|v| !v.is_zero()).collect();
        if nz.is_empty() { /* accept */ }
        else if nz.len() == 2 && (nz[0].is_sign_negative() != nz[1].is_sign_negative()) { return Exp::DontCare("implied-exchange"); }
        else { return Exp::Reject("unbalanced"); }
    }
    for a in bal.values_mut() { clean(a); }
    bal.retain(|_, a| !a.is_empty());
    Exp::Accept(bal)
}

fn real(prefix: &str, txn: &str) -> Result<BTreeMap<String, Amt>, String> {
    let path = PathBuf::from("/v/main.ledger");
    let mut m = HashMap::new();
    m.insert(path.clone(), format!("{}{}", prefix, txn).into_bytes());
    let fs: load::FakeFileSystem = m.into();
    let loader = load::Loader::new(path, fs).with_error_renderer(annotate_snippets::Renderer::plain());
    let arena = Bump::new();
    let mut ctx = report::ReportContext::new(&arena);
    let r = report::process(&mut ctx, loader, &report::ProcessOptions::default());
    let out = match r {
        Ok(mut l) => {
            let b = l.balance(&ctx, &report::query::BalanceQuery::default()).unwrap().into_owned().into_vec();
            let mut res = BTreeMap::new();
            for (a, amt) in b { let mut x = Amt::new(); for s in amt.iter() { let t = format!("{}", s); let (v, c) = t.split_once(' ').unwrap(); x.insert(c.to_string(), d(v)); } clean(&mut x); if !x.is_empty() { res.insert(a.as_str().to_string(), x); } }
            Ok(res)
        }
        Err(e) => Err(format!("{}", e).lines().next().unwrap_or("").to_string()),
    };
    out
}

fn main() {
    std::panic::set_hook(Box::new(|_| {}));
    // start states
    let starts: Vec<(&str, BTreeMap<String, Amt>)> = vec![
        ("", BTreeMap::new()),
        ("2024/01/01 s\n  A  1 X\n  E  -1 X\n\n", [("A", vec![("X","1")]), ("E", vec![("X","-1")])].iter().map(|(a, v)| (a.to_string(), v.iter().map(|(c, x)| (c.to_string(), d(x))).collect())).collect()),
        ("2024/01/01 s\n  A  1 X\n  A  2 Y\n  E  -1 X\n  E  -2 Y\n\n", [("A", vec![("X","1"),("Y","2")]), ("E", vec![("X","-1"),("Y","-2")])].iter().map(|(a, v)| (a.to_string(), v.iter().map(|(c, x)| (c.to_string(), d(x))).collect())).collect()),
    ];
    let precs: Vec<(&str, BTreeMap<String, u32>)> = vec![("", BTreeMap::new()), ("commodity X\n  format 1.00 X\n\n", [("X".to_string(), 2u32)].into_iter().collect())];
    // posting alphabet
    let mut alpha: Vec<P> = vec![];
    let vals = ["-1", "0", "1", "2", "0.005", "-0.015"];
    let anns = |c: &str| -> Vec<Ann> { let o = if c == "X" { "Y" } else { "X" }; vec![Ann::None, Ann::Rate("2".into(), o.into()), Ann::Total("2".into(), o.into()), Ann::LotRate("2".into(), o.into()), Ann::LotTotal("2".into(), o.into())] };
    for acct in ["A", "B"] {
        alpha.push(P { acct, amt: None, ann: Ann::None, bal: Bal::None });
        alpha.push(P { acct, amt: Some(("0".into(), "".into())), ann: Ann::None, bal: Bal::None });
        for c in ["X", "Y"] { for v in vals { for ann in anns(c) {
            alpha.push(P { acct, amt: Some((v.into(), c.into())), ann, bal: Bal::None });
        }}}
        for c in ["X", "Y"] { for v in ["-1", "1"] { for b in [Bal::Zero, Bal::Val("1".into(), "X".into()), Bal::Val("2".into(), "X".into()), Bal::Val("0".into(), "X".into()), Bal::Val("2".into(), "Y".into())] {
            alpha.push(P { acct, amt: Some((v.into(), c.into())), ann: Ann::None, bal: b });
        }}}
        for b in [Bal::Zero, Bal::Val("3".into(), "X".into()), Bal::Val("0".into(), "X".into()), Bal::Val("1".into(), "Y".into())] {
            alpha.push(P { acct, amt: None, ann: Ann::None, bal: b });
        }
    }
    println!("posting alphabet: {}", alpha.len());
    let mut n = 0usize; let mut must = 0usize; let mut dc: BTreeMap<&str, usize> = BTreeMap::new();
    let mut classes: BTreeMap<String, (usize, String)> = BTreeMap::new();
    let mut check = |ps: &[P], n: &mut usize, must: &mut usize| {
        for (pt, prec) in &precs { for (st, bal0) in &starts {
            let txn = render(ps);
            let prefix = format!("{}{}", pt, st);
            let exp = ref_step(bal0, prec, ps);
            let got = std::panic::catch_unwind(|| real(&prefix, &txn));
            *n += 1;
            let cls = match (&exp, &got) {
                (_, Err(_)) => Some("CRASH".to_string()),
                (Exp::DontCare(w), _) => { *dc.entry(w).or_default() += 1; None }
                (Exp::Accept(b), Ok(Ok(rb))) => { *must += 1; if b == rb { None } else { Some("accepted-but-balances-differ".into()) } }
                (Exp::Accept(_), Ok(Err(e))) => { *must += 1; Some(format!("must-accept-but-rejected: {}", e.split(|c: char| c.is_ascii_digit() || c=='(' || c=='-').next().unwrap_or(""))) }
                (Exp::Reject(w), Ok(Ok(_))) => { *must += 1; Some(format!("must-reject({})-but-accepted", w)) }
                (Exp::Reject(_), Ok(Err(_))) => { *must += 1; None }
            };
            if let Some(c) = cls { let om = ps.iter().position(|p| p.amt.is_none() && matches!(p.bal, Bal::None)); let d14 = om.map(|o| ps[o+1..].iter().any(|q| q.acct == ps[o].acct && q.amt.is_some() && !matches!(q.bal, Bal::None))).unwrap_or(false); let c = if d14 { format!("{} [assert-after-omitted-same-account]", c) } else { c }; let e = classes.entry(c).or_insert((0, format!("{}{}", prefix, txn))); e.0 += 1; }
        }}
    };
    for a in &alpha { check(&[a.clone()], &mut n, &mut must); }
    for a in &alpha { for b in &alpha { check(&[a.clone(), b.clone()], &mut n, &mut must); } }
    // 3 postings over reduced alphabet
    let red: Vec<P> = alpha.iter().filter(|p| match &p.amt { Some((v, _)) => v == "1" || v == "-1" || v == "0", None => true }).filter(|p| matches!(p.ann, Ann::None | Ann::Rate(..))).cloned().collect();
    println!("reduced alphabet: {}", red.len());
    for a in &red { for b in &red { for c in &red { check(&[a.clone(), b.clone(), c.clone()], &mut n, &mut must); } } }
    println!("cases={} must={} dontcare={:?}", n, must, dc);
    for (c, (k, ex)) in &classes { println!("== {} x{}\n{}", c, k, ex); }
}
