// PROTOTYPE: RefPrices vs real conversion (C09)
use std::{collections::{BTreeMap, HashMap}, path::PathBuf};
use bumpalo::Bump;
use chrono::NaiveDate;
use okane_core::{load, report};
use rust_decimal::Decimal;
use std::str::FromStr;

#[derive(Clone, Copy, Debug, PartialEq, Eq, PartialOrd, Ord)]
struct Fact { date: u32, x: usize, y: usize, rate: u32, db: bool } // 1 x = rate y
const C: [&str; 3] = ["AAA", "BBB", "CCC"];
const FD: [u32; 3] = [10, 20, 30];
const QD: [u32; 5] = [9, 10, 15, 20, 31];

fn refprice(facts: &[Fact], from: usize, to: usize, qd: u32) -> Option<Vec<f64>> {
    if from == to { return Some(vec![1.0]); }
    // edge info per unordered pair
    let mut edge: BTreeMap<(usize, usize), (bool, Vec<(u32, f64)>)> = BTreeMap::new(); // key (min,max): rate expressed as 1 min = r max
    for f in facts {
        let k = (f.x.min(f.y), f.x.max(f.y));
        let r = if f.x < f.y { f.rate as f64 } else { 1.0 / f.rate as f64 };
        let e = edge.entry(k).or_insert((false, vec![]));
        if f.db && !e.0 { e.0 = true; e.1.clear(); }
        if f.db == e.0 { e.1.push((f.date, r)); }
    }
    // usable edge at qd: latest date <= qd ; set of rates at that date
    let mut usable: BTreeMap<(usize, usize), (bool, u32, Vec<f64>)> = BTreeMap::new();
    for (k, (db, v)) in &edge {
        let latest = v.iter().filter(|(d, _)| *d <= qd).map(|(d, _)| *d).max();
        if let Some(l) = latest { usable.insert(*k, (*db, l, v.iter().filter(|(d, _)| *d == l).map(|(_, r)| *r).collect())); }
    }
    // enumerate simple paths
    let n = C.len();
    let mut best: Vec<((usize, usize, u32), Vec<f64>)> = vec![]; // by max-staleness
    let mut best2: Vec<((usize, usize, u32), Vec<f64>)> = vec![]; // by sum-staleness
    fn dfs(cur: usize, to: usize, visited: &mut Vec<usize>, usable: &BTreeMap<(usize, usize), (bool, u32, Vec<f64>)>, qd: u32, n: usize,
           acc: (usize, usize, u32, u32, Vec<f64>), out: &mut Vec<((usize, usize, u32, u32), Vec<f64>)>) {
        if cur == to { out.push(((acc.0, acc.1, acc.2, acc.3), acc.4)); return; }
        for nx in 0..n {
            if visited.contains(&nx) { continue; }
            let k = (cur.min(nx), cur.max(nx));
            if let Some((db, l, rates)) = usable.get(&k) {
                let st = qd - l;
                let mut newrates = vec![];
                for a in &acc.4 { for r in rates { let rr = if cur < nx { *r } else { 1.0 / *r }; newrates.push(a * rr); } }
                visited.push(nx);
                dfs(nx, to, visited, usable, qd, n, (acc.0 + if *db { 0 } else { 1 }, acc.1 + 1, acc.2.max(st), acc.3 + st, newrates), out);
                visited.pop();
            }
        }
    }
    let mut out = vec![];
    dfs(from, to, &mut vec![from], &usable, qd, n, (0, 0, 0, 0, vec![1.0]), &mut out);
    if out.is_empty() { return None; }
    let m1 = out.iter().map(|(k, _)| (k.0, k.1, k.2)).min().unwrap();
    let m2 = out.iter().map(|(k, _)| (k.0, k.1, k.3)).min().unwrap();
    let mut acc = vec![];
    for (k, r) in &out { if (k.0, k.1, k.2) == m1 || (k.0, k.1, k.3) == m2 { acc.extend(r.iter().cloned()); } }
    let _ = (&mut best, &mut best2);
    Some(acc)
}

fn main() {
    std::panic::set_hook(Box::new(|_| {}));
    let dir = PathBuf::from("/tmp/exp/h4/scratch"); std::fs::create_dir_all(&dir).unwrap();
    let mut all: Vec<Fact> = vec![];
    for &date in &FD { for x in 0..3 { for y in 0..3 { if x == y { continue; } for rate in [2u32, 3] { for db in [false, true] { all.push(Fact { date, x, y, rate, db }); } } } } }
    println!("facts alphabet {}", all.len());
    let mut sets: Vec<Vec<Fact>> = vec![vec![]];
    for i in 0..all.len() { sets.push(vec![all[i]]); for j in i+1..all.len() { sets.push(vec![all[i], all[j]]); } }
    // triples: restrict to first date varied fully but sample structure: all triples would be 59640; do them all
    for i in 0..all.len() { for j in i+1..all.len() { for k in j+1..all.len() { sets.push(vec![all[i], all[j], all[k]]); } } }
    println!("fact sets {}", sets.len());
    let mut n = 0usize; let mut ties = 0usize; let mut bad: BTreeMap<String, (usize, String)> = BTreeMap::new();
    for (si, facts) in sets.iter().enumerate() {
        let mut text = String::from("2020/01/01 init\n  Z  0 AAA\n  Z  0 BBB\n  Z  0 CCC\n\n");
        let mut db = String::new();
        for f in facts {
            if f.db { db.push_str(&format!("P 2024/01/{} {} {} {}\n", f.date, C[f.x], f.rate, C[f.y])); }
            else { text.push_str(&format!("2024/01/{} f\n  P  1 {} @ {} {}\n  Q  -{} {}\n\n", f.date, C[f.x], f.rate, C[f.y], f.rate, C[f.y])); }
        }
        let dbpath = dir.join(format!("db{}.txt", si % 64));
        let opts = if db.is_empty() { report::ProcessOptions::default() } else { std::fs::write(&dbpath, &db).unwrap(); report::ProcessOptions { price_db_path: Some(dbpath.clone()) } };
        let path = PathBuf::from("/v/main.ledger");
        let mut m = HashMap::new(); m.insert(path.clone(), text.clone().into_bytes());
        let fs: load::FakeFileSystem = m.into();
        let loader = load::Loader::new(path, fs).with_error_renderer(annotate_snippets::Renderer::plain());
        let arena = Bump::new();
        let mut ctx = report::ReportContext::new(&arena);
        let mut ledger = match report::process(&mut ctx, loader, &opts) { Ok(l) => l, Err(e) => { println!("process failed: {}\n{}", e, text); continue; } };
        for from in 0..3 { for to in 0..3 { for &qd in &QD {
            n += 1;
            let exp = refprice(facts, from, to, qd);
            let got = ledger.eval(&ctx, &format!("1 {}", C[from]), &report::query::EvalContext { date: NaiveDate::from_ymd_opt(2024, 1, qd).unwrap(), exchange: Some(C[to].to_string()) });
            let cls = match (&exp, &got) {
                (None, Err(_)) => None,
                (None, Ok(a)) => Some(format!("expected-fail-got {}", a.as_inline_display())),
                (Some(_), Err(e)) => Some(format!("expected-value-got-error {}", e)),
                (Some(acc), Ok(a)) => {
                    let v: Vec<_> = a.iter().collect();
                    let s = format!("{}", v[0]); let (val, com) = s.split_once(' ').unwrap();
                    let val: f64 = Decimal::from_str(val).unwrap().to_string().parse().unwrap();
                    let distinct = { let mut d: Vec<f64> = acc.clone(); d.sort_by(|a, b| a.partial_cmp(b).unwrap()); d.dedup_by(|a, b| (*a - *b).abs() < 1e-12); d.len() };
                    if distinct > 1 { ties += 1; }
                    if com != C[to] { Some("wrong-commodity".into()) }
                    else if acc.iter().any(|r| ((r - val) / r).abs() < 1e-12) { None } else { Some(format!("value-not-in-accept-set(ties={})", distinct)) }
                }
            };
            if let Some(c) = cls { let e = bad.entry(c.chars().take(60).collect()).or_insert((0, format!("{}--db--\n{}query 1 {} -> {} at {} expected {:?}", text, db, C[from], C[to], qd, exp))); e.0 += 1; }
        }}}
    }
    println!("queries={} ties={}", n, ties);
    for (c, (k, ex)) in &bad { println!("== {} x{}\n{}", c, k, ex); }
}
