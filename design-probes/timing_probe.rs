use std::{collections::HashMap, path::PathBuf, time::Instant};
use bumpalo::Bump;
use okane_core::{load, report};

fn run(text: &str) -> Result<String, String> {
    let path = PathBuf::from("/v/main.ledger");
    let mut m = HashMap::new();
    m.insert(path.clone(), text.as_bytes().to_vec());
    let fs: load::FakeFileSystem = m.into();
    let loader = load::Loader::new(path, fs).with_error_renderer(annotate_snippets::Renderer::plain());
    let arena = Bump::new();
    let mut ctx = report::ReportContext::new(&arena);
    let r = report::process(&mut ctx, loader, &report::ProcessOptions::default());
    let out = match r {
        Ok(mut l) => {
            let b = l.balance(&ctx, &report::query::BalanceQuery::default()).map_err(|e| e.to_string())?;
            let mut s = String::new();
            for (a, amt) in b.into_owned().into_vec() { s.push_str(&format!("{}: {}\n", a.as_str(), amt.as_inline_display())); }
            Ok(s)
        }
        Err(e) => Err(format!("{}", e)),
    };
    out
}
fn main() {
    let t = Instant::now();
    let mut n = 0usize; let mut ok = 0usize;
    for a in -3..=3i32 { for b in -3..=3i32 { for c in -3..=3 { for k in 0..50 {
        let text = format!("2024/01/0{} x\n  A  {} USD\n  B  {} USD\n  C  {} EUR @ 2 USD\n  D\n", 1 + k % 9, a, b, c);
        n += 1; if run(&text).is_ok() { ok += 1; }
    }}}}
    println!("{} cases, {} ok in {:?}", n, ok, t.elapsed());
    println!("{:?}", run("2024/01/01 x\n  A  1 USD\n  B  -1 USD\n\n2024/01/02 y\n  A  = 5 USD\n  B\n"));
}
