// PROTOTYPE: RefLiteral vs PrettyDecimal::from_str (C07), all strings len<=8 over {0,1,7,',','.','-'}
use std::collections::BTreeMap;
use okane_core::syntax::pretty_decimal::{PrettyDecimal, Format};
#[derive(Debug, PartialEq)]
enum Exp { Accept { digits: String, scale: u32, neg: bool, grouped: bool }, Reject(&'static str), DontCare(&'static str) }
fn reference(s: &str) -> Exp {
    let (neg, body) = match s.strip_prefix('-') { Some(b) => (true, b), None => (false, s) };
    if body.contains('-') { return Exp::Reject("inner-minus"); }
    let parts: Vec<&str> = body.split('.').collect();
    if parts.len() > 2 { return Exp::Reject("two-points"); }
    let (ip, fp) = (parts[0], if parts.len() == 2 { Some(parts[1]) } else { None });
    if let Some(f) = fp { if f.contains(',') { return Exp::Reject("comma-in-fraction"); } }
    let ndig = body.chars().filter(|c| c.is_ascii_digit()).count();
    if ndig == 0 { return Exp::Reject("no-digit"); }
    let grouped = ip.contains(',');
    if grouped {
        let gs: Vec<&str> = ip.split(',').collect();
        if gs[0].is_empty() || gs[0].len() > 3 { return Exp::Reject("bad-leading-group"); }
        if gs[1..].iter().any(|g| g.len() != 3) { return Exp::Reject("incomplete-group"); }
    }
    if ip.is_empty() { return Exp::DontCare("no-integer-part"); }
    let digits: String = body.chars().filter(|c| c.is_ascii_digit()).collect();
    let scale = fp.map(|f| f.len() as u32).unwrap_or(0);
    if scale > 28 { return Exp::Reject("too-precise"); }
    Exp::Accept { digits, scale, neg, grouped }
}
fn main() {
    std::panic::set_hook(Box::new(|_| {}));
    let sym = ['0', '1', '7', ',', '.', '-'];
    let mut bad: BTreeMap<String, (usize, String)> = BTreeMap::new();
    let (mut n, mut must, mut dc) = (0usize, 0usize, 0usize);
    for len in 1..=8usize {
        let total = 6usize.pow(len as u32);
        for k in 0..total {
            let mut x = k; let mut s = String::new();
            for _ in 0..len { s.push(sym[x % 6]); x /= 6; }
            n += 1;
            let exp = reference(&s);
            let got = std::panic::catch_unwind(|| s.parse::<PrettyDecimal>());
            let cls = match (&exp, &got) {
                (_, Err(_)) => Some("CRASH".into()),
                (Exp::DontCare(_), _) => { dc += 1; None }
                (Exp::Reject(w), Ok(Ok(v))) => { must += 1; Some(format!("accepted-malformed/{} (as {})", w, "value")).map(|c| { let _ = v; c }) }
                (Exp::Reject(_), Ok(Err(_))) => { must += 1; None }
                (Exp::Accept { .. }, Ok(Err(e))) => { must += 1; Some(format!("rejected-wellformed {:?}", e).chars().take(40).collect()) }
                (Exp::Accept { digits, scale, neg, grouped }, Ok(Ok(v))) => {
                    must += 1;
                    let m = v.value.mantissa();
                    let want: i128 = digits.parse::<i128>().unwrap() * if *neg { -1 } else { 1 };
                    let intdigits = digits.len() as u32 - scale;
                    let int_ge_1000 = digits[..intdigits as usize].trim_start_matches('0').len() >= 4;
                    let printed = v.to_string();
                    let back = printed.parse::<PrettyDecimal>();
                    if m != want || v.value.scale() != *scale { Some("value-or-scale-differs".into()) }
                    else if int_ge_1000 && (*grouped != (v.format == Some(Format::Comma3Dot))) { Some("grouping-lost".into()) }
                    else if back.as_ref().map(|b| (b.value.mantissa(), b.value.scale())).ok() != Some((m, *scale)) { Some(format!("print-reread-differs {}", printed)) }
                    else if int_ge_1000 && printed.contains(',') != *grouped { Some("printed-grouping-differs".into()) }
                    else { None }
                }
            };
            if let Some(c) = cls { let e = bad.entry(c).or_insert((0, s.clone())); e.0 += 1; }
        }
    }
    println!("strings={} must={} dontcare={}", n, must, dc);
    for (c, (k, ex)) in &bad { println!("== {:55} x{:8}  e.g. {:?}", c, k, ex); }
}
