import subprocess, itertools, os, sys
O='/repo/target/debug/okane'
def run(text, name='t.ledger'):
    open(name,'w',newline='').write(text)
    try:
        p=subprocess.run([O,'format',name],capture_output=True,text=True,timeout=5)
        return p.returncode,p.stdout,p.stderr
    except subprocess.TimeoutExpired:
        return 'HANG','',''
# single-deviation variants of one transaction; each yields full text (always newline-terminated to dodge D1)
hdr_variants = {
 'base':'2024/01/05 * (c1) Shop',
 'date-hyphen':'2024-01-05 * (c1) Shop',
 'date-short':'2024/1/5 * (c1) Shop',
 'edate':'2024/01/05=2024/01/07 * (c1) Shop',
 'edate-hyphen':'2024-01-05=2024-01-07 * (c1) Shop',
 'tab-after-date':'2024/01/05\t* (c1) Shop',
 'no-clear':'2024/01/05 (c1) Shop',
 'pending':'2024/01/05 ! (c1) Shop',
 'clear-nospace':'2024/01/05 *(c1) Shop',
 'no-code':'2024/01/05 * Shop',
 'empty-code':'2024/01/05 * () Shop',
 'code-spaces':'2024/01/05 * ( c 1 ) Shop',
 'code-nospace-payee':'2024/01/05 * (c1)Shop',
 'empty-payee-after-code':'2024/01/05 * (c1)',
 'empty-payee-after-clear':'2024/01/05 *',
 'date-only':'2024/01/05',
 'date-space-only':'2024/01/05 ',
 'payee-cjk':'2024/01/05 * (c1) 食料品店 A',
 'payee-dblspace':'2024/01/05 * (c1) Shop  and  more',
 'payee-colon':'2024/01/05 * (c1) Pay: ee',
 'payee-trailing-sp':'2024/01/05 * (c1) Shop   ',
 'hdr-meta-comment':'2024/01/05 * (c1) Shop ; note here',
 'hdr-meta-dblsemi':'2024/01/05 * (c1) Shop ;; note here',
 'hdr-meta-tags':'2024/01/05 * (c1) Shop  ; :t1:t2:',
 'hdr-meta-kv':'2024/01/05 * (c1) Shop ; Key: value',
 'hdr-meta-kvexpr':'2024/01/05 * (c1) Shop ; Key:: 1 USD',
 'hdr-meta-direct':'2024/01/05;note',
 'hdr-meta-nospace':'2024/01/05 Shop;note',
}
post_variants = {
 'base':'    Assets:Bank  10 USD',
 'indent1':' Assets:Bank  10 USD',
 'indent-tab':'\tAssets:Bank  10 USD',
 'clear':'    * Assets:Bank  10 USD',
 'pending-nospace':'    !Assets:Bank  10 USD',
 'acct-space':'    Assets:My Bank  10 USD',
 'acct-cjk':'    資産:銀行  10 USD',
 'sep-tab':'    Assets:Bank\t10 USD',
 'sep-space-tab':'    Assets:Bank \t 10 USD',
 'sep-many':'    Assets:Bank          10 USD',
 'amt-neg':'    Assets:Bank  -10 USD',
 'amt-dec':'    Assets:Bank  10.50 USD',
 'amt-comma':'    Assets:Bank  1,234.50 USD',
 'amt-nospace':'    Assets:Bank  10USD',
 'amt-bare0':'    Assets:Bank  0',
 'amt-nocommodity':'    Assets:Bank  10',
 'amt-dollar':'    Assets:Bank  10 $',
 'amt-cjk':'    Assets:Bank  10 円',
 'amt-trailing-dot':'    Assets:Bank  10. USD',
 'amt-paren':'    Assets:Bank  (1 USD + 2 USD)',
 'amt-paren-sp':'    Assets:Bank  ( 1 USD + 2 USD )',
 'amt-paren-nosp':'    Assets:Bank  (1 USD+2 USD)',
 'amt-paren-mul':'    Assets:Bank  (2 * 3 USD)',
 'amt-paren-neg':'    Assets:Bank  (-(1 USD))',
 'amt-paren-negamt':'    Assets:Bank  (-1 USD)',
 'amt-paren-nested':'    Assets:Bank  ((1 USD + 2 USD) * 2)',
 'amt-paren-div':'    Assets:Bank  (6 USD / 2)',
 'amt-paren-sub':'    Assets:Bank  (6 USD - 2 USD)',
 'lot-rate':'    Assets:Bank  10 USD {2 EUR}',
 'lot-rate-sp':'    Assets:Bank  10 USD { 2 EUR }',
 'lot-total':'    Assets:Bank  10 USD {{20 EUR}}',
 'lot-total-sp':'    Assets:Bank  10 USD {{ 20 EUR }}',
 'lot-date':'    Assets:Bank  10 USD [2024/01/01]',
 'lot-date-sp':'    Assets:Bank  10 USD [ 2024-01-01 ]',
 'lot-note':'    Assets:Bank  10 USD (my note)',
 'lot-all':'    Assets:Bank  10 USD {2 EUR} [2024/01/01] (note)',
 'lot-all-perm':'    Assets:Bank  10 USD (note) [2024/01/01] {2 EUR}',
 'lot-nospace':'    Assets:Bank  10 USD{2 EUR}[2024/01/01](note)',
 'cost-rate':'    Assets:Bank  10 USD @ 2 EUR',
 'cost-rate-nosp':'    Assets:Bank  10 USD @2 EUR',
 'cost-total':'    Assets:Bank  10 USD @@ 20 EUR',
 'cost-total-nosp':'    Assets:Bank  10 USD@@20 EUR',
 'cost-expr':'    Assets:Bank  10 USD @ (1 EUR + 1 EUR)',
 'lot-cost':'    Assets:Bank  10 USD {2 EUR} @ 3 EUR',
 'bal':'    Assets:Bank  10 USD = 10 USD',
 'bal-nosp':'    Assets:Bank  10 USD =10 USD',
 'bal-zero':'    Assets:Bank  10 USD = 0',
 'bal-expr':'    Assets:Bank  10 USD = (2 * 5 USD)',
 'bal-only':'    Assets:Bank  = 10 USD',
 'bal-only-tab':'    Assets:Bank\t= 10 USD',
 'cost-bal':'    Assets:Bank  10 USD @ 2 EUR = 10 USD',
 'trailing-sp':'    Assets:Bank  10 USD   ',
 'acct-only':'    Assets:Bank',
 'acct-only-trailing':'    Assets:Bank   ',
 'meta-inline':'    Assets:Bank  10 USD ; note',
 'meta-inline-nosp':'    Assets:Bank  10 USD;note',
 'meta-acct-only':'    Assets:Bank ; note',
 'meta-acct-only2':'    Assets:Bank  ; note',
 'meta-next':'    Assets:Bank  10 USD\n    ; note line\n    ; :tag:\n    ; K: v',
 'meta-next-indent1':'    Assets:Bank  10 USD\n ; note line',
 'meta-inline-and-next':'    Assets:Bank  10 USD ; a\n    ; b',
}
res=[]
def doc(h,p,eol='\n',final=True):
    lines=[h]+p.split('\n')+['    Equity']
    t=eol.join(lines)+(eol if final else '')
    return t
for k,h in hdr_variants.items():
    res.append(('hdr:'+k, doc(h,post_variants['base'])))
for k,p in post_variants.items():
    res.append(('post:'+k, doc(hdr_variants['base'],p)))
res.append(('crlf', doc(hdr_variants['base'],post_variants['base'],eol='\r\n')))
res.append(('txn-meta-lines', '2024/01/05 Shop\n    ; note\n  ; :a:b:\n ; K: v\n    A  1 USD\n    B\n'))
dirs = {
 'comment-semi':'; hello\n', 'comment-hash':'# hello\n','comment-pct':'% hello\n','comment-bar':'| hello\n','comment-star':'* hello\n',
 'comment-multi':'; a\n# b\n%c\n','comment-empty':';\n',
 'account':'account Assets:Bank\n','account-trailing':'account Assets:Bank   \n',
 'account-details':'account Assets:Bank\n    note A note\n    alias Bank\n    ; comment\n',
 'account-details-prefixes':'account Assets:Bank\n  # c1\n  % c2\n  | c3\n  * c4\n',
 'account-indent-tab':'account Assets:Bank\n\talias Bank\n',
 'commodity':'commodity USD\n','commodity-details':'commodity USD\n    note US dollar\n    alias $\n    format 1,000.00 USD\n    ; c\n',
 'commodity-format-nocomma':'commodity JPY\n  format 1000 JPY\n',
 'apply-tag':'apply tag foo\n','apply-tag-kv':'apply tag key: value\n','apply-tag-kvexpr':'apply tag key:: 10 USD\n','apply-tag-spaces':'apply   tag   foo  \n',
 'end-apply':'end apply tag\n','end-apply-spaces':'end   apply   tag   \n',
 'include':'include a/b.ledger\n','include-spaces':'include   a dir/b file.ledger  \n','include-glob':'include sub/*.ledger\n',
}
for k,t in dirs.items(): res.append(('dir:'+k,t))
base = doc(hdr_variants['base'],post_variants['base'])
res.append(('two-txn-1blank', base+'\n'+base))
res.append(('two-txn-0blank', base+base))
res.append(('two-txn-3blank', base+'\n\n\n'+base))
res.append(('leading-blank', '\n\n'+base))
res.append(('ws-line-between', base+'  \n'+base))
res.append(('ws-line-leading', '  \n'+base))
res.append(('ws-line-after-comment', '; c\n \t\n'+base))
res.append(('crlf-blank', base.replace('\n','\r\n')+'\r\n'+base.replace('\n','\r\n')))
for k,t in list(res):
    if not k.startswith('dir:') : continue
    res.append((k+'+noeol', t.rstrip('\n')))
res.append(('txn+noeol', base.rstrip('\n')))
bad=0
for k,t in res:
    rc,out,err=run(t)
    st='ok'
    if rc!=0: st='REJECT' if rc!='HANG' else 'HANG'
    else:
        rc2,out2,err2=run(out,'t2.ledger')
        if rc2!=0: st='REFORMAT-'+str(rc2)
        elif out2!=out: st='NOT-IDEMPOTENT'
    if st!='ok':
        bad+=1
        print(f'{st:16} {k:30} {t!r}'[:170])
        if st=='REJECT': print('      ', err.strip().split('\n')[2:4])
print(len(res),'cases',bad,'not ok')
