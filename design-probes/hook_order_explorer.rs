use std::{cell::RefCell, collections::BTreeSet, path::PathBuf, rc::Rc};
use bumpalo::Bump;
use okane_core::{load, report, verif};

fn run(text: &str) -> String {
    let path = PathBuf::from("/v/main.ledger");
    let mut m = std::collections::HashMap::new();
    m.insert(path.clone(), text.as_bytes().to_vec());
    let fs: load::FakeFileSystem = m.into();
    let loader = load::Loader::new(path, fs).with_error_renderer(annotate_snippets::Renderer::plain());
    let arena = Bump::new();
    let mut ctx = report::ReportContext::new(&arena);
    let r = report::process(&mut ctx, loader, &report::ProcessOptions::default());
    let out = match r {
        Ok(mut l) => {
            let b = l.balance(&ctx, &report::query::BalanceQuery::default()).unwrap();
            let mut s = String::new();
            for (a, amt) in b.into_owned().into_vec() { s.push_str(&format!("{}: {}|", a.as_str(), amt.as_inline_display())); }
            s
        }
        Err(e) => format!("ERR {}", e).lines().next().unwrap().to_string(),
    };
    out
}

/// one execution under a choice prefix; returns (output, trace of (n, chosen))
fn exec(text: &str, prefix: &[usize]) -> (String, Vec<(usize, usize)>) {
    let trace = Rc::new(RefCell::new(Vec::new()));
    let t2 = trace.clone();
    let pre = prefix.to_vec();
    verif::set_oracle(Some(Box::new(move |n| {
        let i = t2.borrow().len();
        let c = if i < pre.len() { pre[i] } else { 0 };
        assert!(c < n, "divergence");
        t2.borrow_mut().push((n, c));
        c
    })));
    let out = run(text);
    verif::set_oracle(None);
    let t = trace.borrow().clone();
    (out, t)
}

fn explore(text: &str, bound: usize) {
    let mut outs = BTreeSet::new();
    let mut runs = 0usize;
    let mut maxpts = 0usize;
    fn rec(text: &str, prefix: Vec<usize>, dev: usize, bound: usize, outs: &mut BTreeSet<String>, runs: &mut usize, maxpts: &mut usize) {
        let (out, trace) = exec(text, &prefix);
        *runs += 1; *maxpts = (*maxpts).max(trace.len());
        outs.insert(out);
        if dev >= bound { return; }
        for i in prefix.len()..trace.len() {
            for alt in 1..trace[i].0 {
                let mut p: Vec<usize> = trace[..i].iter().map(|x| x.1).collect();
                p.push(alt);
                rec(text, p, dev + 1, bound, outs, runs, maxpts);
            }
        }
    }
    rec(text, vec![], 0, bound, &mut outs, &mut runs, &mut maxpts);
    println!("bound={} runs={} max_choice_points={} distinct_outputs={}", bound, runs, maxpts, outs.len());
    for o in outs.iter().take(8) { println!("   {}", o); }
}

fn main() {
    let mc = "2024/01/01 x\n  A  1 USD\n  A  2 EUR\n  A  3 CHF\n  B\n";
    for b in 0..=2 { explore(mc, b); }
    let mc2 = "2024/01/01 x\n  A  5 JPY @ (1 USD + 2 EUR)\n  B\n";
    for b in 0..=1 { explore(mc2, b); }
    let zp = "2024/01/01 x\n  A  1 USD\n  B  -1 USD\n\n2024/01/02 y\n  A  2 USD\n  B\n";
    for b in 0..=2 { explore(zp, b); }
}
