// PROTOTYPE: RefExpr vs real eval (C08)
use std::{collections::{BTreeMap, HashMap}, path::PathBuf};
use bumpalo::Bump;
use chrono::NaiveDate;
use okane_core::{load, report};
use rust_decimal::Decimal;
use std::str::FromStr;

#[derive(Clone, Debug)]
enum T { Leaf(&'static str, &'static str), Neg(Box<T>), Bin(char, Box<T>, Box<T>) }
#[derive(Clone, Debug, PartialEq)]
enum V { Num(Decimal), Amt(BTreeMap<String, Decimal>) }
#[derive(Debug, PartialEq)]
enum R { Val(V), Reject(&'static str), DontCare(&'static str) }

fn prec(t: &T) -> u8 { match t { T::Leaf(..) => 4, T::Neg(_) => 3, T::Bin('*', ..) | T::Bin('/', ..) => 2, T::Bin(..) => 1 } }
fn show(t: &T, parent: u8, right: bool) -> String {
    let p = prec(t);
    let s = match t {
        T::Leaf(v, c) => if c.is_empty() { v.to_string() } else { format!("{} {}", v, c) },
        // okane's unary minus applies to a value-expr (literal or parenthesised) only
        T::Neg(x) => match **x { T::Leaf(..) => format!("-{}", show(x, 4, false)), _ => format!("-({})", show(x, 0, false)) },
        T::Bin(op, l, r) => format!("{} {} {}", show(l, p, false), op, show(r, p, true)),
    };
    let need = match t { T::Bin(..) => p < parent || (p == parent && right), T::Neg(_) => false, _ => false };
    if need { format!("({})", s) } else { s }
}
fn ev(t: &T) -> R {
    match t {
        T::Leaf(v, c) => { let d = Decimal::from_str(v).unwrap(); if c.is_empty() { R::Val(V::Num(d)) } else { R::Val(V::Amt([(c.to_string(), d)].into_iter().collect())) } }
        T::Neg(x) => match ev(x) { R::Val(V::Num(d)) => R::Val(V::Num(-d)), R::Val(V::Amt(m)) => R::Val(V::Amt(m.into_iter().map(|(c, v)| (c, -v)).collect())), o => o },
        T::Bin(op, l, r) => {
            let (l, r) = (ev(l), ev(r));
            let (l, r) = match (l, r) { (R::Val(l), R::Val(r)) => (l, r), (R::Reject(w), _) | (_, R::Reject(w)) => return R::Reject(w), (R::DontCare(w), _) | (_, R::DontCare(w)) => return R::DontCare(w) };
            match (op, l, r) {
                ('+', V::Num(a), V::Num(b)) => R::Val(V::Num(a + b)),
                ('-', V::Num(a), V::Num(b)) => R::Val(V::Num(a - b)),
                ('+', V::Amt(a), V::Amt(b)) => { let mut m = a; for (c, v) in b { *m.entry(c).or_insert(Decimal::ZERO) += v; } R::Val(V::Amt(m)) }
                ('-', V::Amt(a), V::Amt(b)) => { let mut m = a; for (c, v) in b { *m.entry(c).or_insert(Decimal::ZERO) -= v; } R::Val(V::Amt(m)) }
                ('+', ..) | ('-', ..) => R::Reject("num+amt"),
                ('*', V::Num(a), V::Num(b)) => R::Val(V::Num(a * b)),
                ('*', V::Amt(a), V::Num(b)) | ('*', V::Num(b), V::Amt(a)) => R::Val(V::Amt(a.into_iter().map(|(c, v)| (c, v * b)).collect())),
                ('*', ..) => R::Reject("amt*amt"),
                ('/', _, V::Num(b)) if b.is_zero() => R::Reject("div0"),
                ('/', _, V::Amt(b)) if b.values().all(|v| v.is_zero()) => R::DontCare("div-by-zero-amount"),
                ('/', V::Num(a), V::Num(b)) => R::Val(V::Num(a / b)),
                ('/', V::Amt(a), V::Num(b)) => R::Val(V::Amt(a.into_iter().map(|(c, v)| (c, v / b)).collect())),
                ('/', ..) => R::DontCare("x/amt"),
                _ => unreachable!(),
            }
        }
    }
}

fn main() {
    std::panic::set_hook(Box::new(|_| {}));
    let leaves: Vec<T> = vec![T::Leaf("0", ""), T::Leaf("1", ""), T::Leaf("2", ""), T::Leaf("3", "X"), T::Leaf("0", "X"), T::Leaf("6", "X"), T::Leaf("2", "Y")];
    let mut l0: Vec<T> = leaves.clone();
    for l in &leaves { l0.push(T::Neg(Box::new(l.clone()))); }
    let ops = ['+', '-', '*', '/'];
    let mut l1: Vec<T> = vec![];
    for a in &l0 { for b in &l0 { for op in ops { l1.push(T::Bin(op, Box::new(a.clone()), Box::new(b.clone()))); } } }
    let mut l1n = l1.clone(); for t in &l1 { l1n.push(T::Neg(Box::new(t.clone()))); }
    let mut l2: Vec<T> = vec![];
    for a in &l1n { for b in &leaves { for op in ops { l2.push(T::Bin(op, Box::new(a.clone()), Box::new(b.clone()))); l2.push(T::Bin(op, Box::new(b.clone()), Box::new(a.clone()))); } } }
    let mut all: Vec<T> = vec![]; all.extend(l0); all.extend(l1n); all.extend(l2);
    println!("trees {}", all.len());
    // context: eval
    let path = PathBuf::from("/v/main.ledger");
    let mut m = HashMap::new(); m.insert(path.clone(), b"2020/01/01 init\n  Z  0 X\n  Z  0 Y\n".to_vec());
    let fs: load::FakeFileSystem = m.into();
    let loader = load::Loader::new(path, fs);
    let arena = Bump::new();
    let mut ctx = report::ReportContext::new(&arena);
    let mut ledger = report::process(&mut ctx, loader, &report::ProcessOptions::default()).unwrap();
    let mut bad: BTreeMap<String, (usize, String)> = BTreeMap::new();
    let (mut must, mut dc) = (0usize, 0usize);
    for t in &all {
        let text = format!("({})", show(t, 0, false));
        let exp = ev(t);
        let got = std::panic::catch_unwind(std::panic::AssertUnwindSafe(|| ledger.eval(&ctx, &text, &report::query::EvalContext { date: NaiveDate::from_ymd_opt(2024, 1, 1).unwrap(), exchange: None }).map(|a| a.iter().map(|s| { let t = format!("{}", s); let (v, c) = t.split_once(' ').unwrap(); (c.to_string(), Decimal::from_str(v).unwrap()) }).collect::<BTreeMap<_, _>>()).map_err(|e| format!("{:?}", e).chars().take(40).collect::<String>())));
        let cls = match (&exp, &got) {
            (_, Err(_)) => Some("CRASH".to_string()),
            (R::DontCare(_), _) => { dc += 1; None }
            (R::Reject(w), Ok(Ok(v))) => { must += 1; Some(format!("must-reject({})-accepted {:?}", w, v).chars().take(50).collect()) }
            (R::Reject(_), Ok(Err(_))) => { must += 1; None }
            // eval() context: result must be amount or zero number
            (R::Val(V::Num(n)), Ok(Ok(v))) => { must += 1; if n.is_zero() && v.is_empty() { None } else { Some("number-result-accepted".into()) } }
            (R::Val(V::Num(n)), Ok(Err(e))) => { must += 1; if n.is_zero() { Some(format!("zero-number-rejected {}", e)) } else { None } }
            (R::Val(V::Amt(m)), Ok(Ok(v))) => { must += 1; if m == v { None } else { Some(format!("value-differs")) } }
            (R::Val(V::Amt(_)), Ok(Err(e))) => { must += 1; Some(format!("well-typed-rejected {}", e)) }
        };
        if let Some(c) = cls { let e = bad.entry(c).or_insert((0, format!("{}  expected {:?}", text, exp))); e.0 += 1; }
    }
    println!("must={} dontcare={}", must, dc);
    for (c, (k, ex)) in &bad { println!("== {} x{}   e.g. {}", c, k, ex); }
}
