import subprocess, unicodedata
O='/repo/target/debug/okane'
def w(s): return sum(2 if unicodedata.east_asian_width(c) in 'WF' else 1 for c in s)
def fmt(text):
    open('l.ledger','w').write(text)
    p=subprocess.run([O,'format','l.ledger'],capture_output=True,text=True,timeout=5); return p.stdout
viol=0; n=0
for acct in ['A','A'*10,'A'*30,'A'*38,'A'*40,'A'*41,'A'*42,'A'*43,'A'*44,'A'*45,'A'*46,'A'*50,'資産'*5,'資産'*10+'b','資'*20,'資'*21,'資'*22]:
  for mark in ['','* ','! ']:
    for num in ['1','-12','1,234.50','123456789.1234']:
      for rest in [' USD',' USD @ 2 EUR',' USD {2 EUR} = 5 USD',' 円','']:
        line=f'    {mark}{acct}  {num}{rest}'
        out=fmt('2024/01/01 x\n'+line+'\n    B\n')
        l=out.split('\n')[1]; n+=1
        assert l.startswith('    '),l
        body=l[4+len(mark):]
        assert body.startswith(acct)
        after=body[len(acct):]
        sp=len(after)-len(after.lstrip(' '))
        idx=l.index(num, 4+len(mark)+len(acct))
        endcol=w(l[:idx])+len(num)
        short = 4+len(mark)+w(acct)+2+len(num) <= 52
        ok = sp>=2 and (endcol==52 if short else True)
        if not ok: viol+=1; print('VIOL',repr(l),'sp',sp,'endcol',endcol,'short',short)
# balance-only
for acct in ['A','A'*30,'A'*44,'A'*45,'A'*46,'A'*47,'A'*48,'A'*49,'A'*50,'資'*23,'資'*24,'資'*25]:
  for bal in ['10 USD','1,234.50 USD','0','5 円','(2 * 5 USD)']:
    out=fmt(f'2024/01/01 x\n    {acct}  = {bal}\n    B\n'); l=out.split('\n')[1]; n+=1
    out2=fmt(f'2024/01/01 x\n    {acct}  {bal} = {bal}\n    B\n'); l2=out2.split('\n')[1]
    after=l[4+len(acct):]; sp=len(after)-len(after.lstrip(' '))
    eq1=w(l[:l.index('=')]); eq2=w(l2[:l2.index('=')])
    short = 4+w(acct)+2 <= eq2-1   # room for two spaces before '=' at the aligned column
    ok = sp>=2 and (eq1==eq2 if short else True)
    if not ok: viol+=1; print('VIOL-bal',repr(l),'sp',sp,'eq',eq1,'eq_with_amount',eq2)
print(n,'cases',viol,'violations')
