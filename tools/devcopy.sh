#!/bin/sh
# devcopy.sh <tag> [--with-repo]
# Make a private development copy of the harness under /tmp/okv-dev/<tag>/ so that several check authors can
# build and run concurrently without touching /verif/harness, /verif/target, /verif/evidence or /repo.
#   /tmp/okv-dev/<tag>/harness   copy of /verif/harness (edit src/checks/cNN.rs here)
#   /tmp/okv-dev/<tag>/target    its cargo target dir
#   /tmp/okv-dev/<tag>/out       evidence/, replays/, scratch (OKV_OUT_DIR)
#   /tmp/okv-dev/<tag>/repo      (--with-repo) a git worktree of /repo HEAD the copy builds against, for
#                                trying out deliberate breakages of okane; without it the copy builds against /repo
#   /tmp/okv-dev/<tag>/run       wrapper: build + run  (./run check C15 quick | ./run only C15 quick 123)
# Remove everything with: devcopy.sh <tag> --remove
set -eu
tag=$1
d=/tmp/okv-dev/$tag
if [ "${2:-}" = "--remove" ]; then
  [ -d "$d/repo" ] && git -C /repo worktree remove --force "$d/repo" || true
  rm -rf "$d"
  git -C /repo worktree prune
  exit 0
fi
mkdir -p "$d/out"
rsync -a --delete --exclude target /verif/harness/ "$d/harness/"
repo=/repo
if [ "${2:-}" = "--with-repo" ]; then
  [ -d "$d/repo" ] || git -C /repo worktree add --detach "$d/repo" HEAD >/dev/null
  repo=$d/repo
fi
sed -i "s#path = \"/repo/#path = \"$repo/#" "$d/harness/Cargo.toml"
printf '[net]\noffline = true\n\n[build]\ntarget-dir = "%s/target"\nrustflags = ["--cfg", "okane_verif"]\n' "$d" >"$d/harness/.cargo/config.toml"
{
  echo '#!/bin/sh'
  echo "cd $d/harness || exit 2"
  echo "if ! CARGO_NET_OFFLINE=true cargo build --release --offline >$d/build.log 2>&1; then"
  echo "  grep -E '^error' -A12 $d/build.log | head -120"
  echo "  echo 'BUILD FAILED (full log: $d/build.log)'"
  echo "  exit 2"
  echo "fi"
  echo "cd $d && OKV_OUT_DIR=$d/out exec $d/target/release/okv \"\$@\""
} >"$d/run"
chmod +x "$d/run"
echo "dev copy ready: $d (builds against $repo)"
