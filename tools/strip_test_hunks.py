#!/usr/bin/env python3
"""strip_test_hunks.py <patch>  -> stdout: same patch without the hunks that add #[test] functions (fix commits touch only what the defect requires)"""
import sys, re
src = open(sys.argv[1]).read()
files = re.split(r'(?m)^(?=diff --git )', src)
out = []
for f in files:
    if not f.strip():
        continue
    parts = re.split(r'(?m)^(?=@@ )', f)
    head, hunks = parts[0], parts[1:]
    keep = [h for h in hunks if '#[test]' not in h]
    if keep:
        out.append(head + ''.join(keep))
sys.stdout.write(''.join(out))
