#!/usr/bin/env python3
"""Generate /verif/MANIFEST.json from the table below and the list of checks the harness implements.
Run after adding a check:  python3 tools/gen_manifest.py"""
import json, subprocess, os, sys

CHECKS = {
 # id: (category, level text, level note, design ref, technique)
 "C01": ("model_checking",
         "All transactions of 1-2 postings over a 198-shape posting alphabet (values {-1,0,1,2,0.005,-0.015} x {X,Y,Z} x {none,@,@@,{},{{}},{}+@,zero rate,same-commodity rate,negative totals}, totals the quantity does not divide, omitted, bare 0, parenthesised spellings) x 4 precision contexts, all 3-posting ones over 40 shapes (quick) / the full alphabet (thorough), 4-posting ones over 12/30 shapes, and 1-2 posting ones after 3 non-empty histories, are run through report::process and compared with RefLedger: accepted iff balanced-by-the-statement, rejected with a BookKeep error located inside that transaction otherwise, never a crash; recorded amounts and balances equal the reference. Exhaustive within those bounds.",
         "Trusted: RefLedger (harness/src/refledger.rs) as the reading of C01-C03; Q exact rational arithmetic; rust_decimal only to read results. Implied exchanges, rounding midpoints and ill-formed exchanges are DON'T-CARE for acceptance (still executed; if accepted, amounts must be right).",
         "DESIGN.md §5 C01",
         "bounded-exhaustive enumeration of transactions x contexts x histories vs reference ledger model (stateless explicit-state exploration)"),
 "C02": ("model_checking",
         "Explicit-state BFS (depth 3 quick / 5 thorough) over reference ledger states with a 27-transaction alphabet built around assertions (after assignment, after inferred posting on same/other account, twice on one account, multi-commodity, = 0, inferred postings next to zero-valued commodities), plus ALL assertion-bearing transactions of <=3 postings (<=4 thorough) over a 110-posting alphabet (incl. pure-check postings `0 = X` and balances finer than the asserted figure) from 8 start states, written plainly, via two aliases (one declared after a note line) and with the history in an included file, plus 504 (sub-precision history, assertion) pairs under declared commodity precisions. Every edge re-runs the real code on the whole history: accept iff every assertion is true at its position in file order; on a false assertion the error is BalanceAssertionFailure on that posting's line with the reference's computed balance.",
         "Trusted: RefLedger. One genuine defect (assertion after an omitted posting on the same account) is recorded in known_findings.json and reported as KNOWN-FINDING; every other signature fails the check.",
         "DESIGN.md §5 C02",
         "explicit-state BFS over reference states with real-code re-execution per transition + exhaustive depth-1 enumeration"),
 "C03": ("model_checking",
         "Same exploration as C02 restricted to transactions with an omitted and/or assigned posting: per-posting inferred amounts (as commodity maps) and ALL account balances after the transaction equal the reference; >=2 unconstrained postings and `= 0` on a multi-commodity account are rejected.",
         "Trusted: RefLedger. Omitted posting followed by an assignment on the same account is circular under file-order semantics and DON'T-CARE.",
         "DESIGN.md §5 C03",
         "explicit-state BFS over reference states with real-code re-execution per transition + exhaustive depth-1 enumeration"),
 "C07": ("model_checking",
         "Every string over {0,1,7,',','.','-'} up to length 8 (quick) / 9 (thorough), a structured magnitude sweep up to 45 digits (incl. values aliasing under 64/96/128-bit wrap), and every such string of length <=4/5 embedded in 10 syntactic positions, is run through the real literal reader and printer and compared with a reference recogniser. Exhaustive within those bounds: no malformed literal is accepted, no well-formed one rejected or altered.",
         "Trusted: the reference recogniser (harness/src/checks/c07.rs::reference) as the reading of the statement; rust_decimal for reading mantissa/scale. Literals outside the alphabet {0,1,7} digits are represented by those three digits.",
         "DESIGN.md §5 C07",
         "bounded-exhaustive input enumeration vs reference recogniser (stateless explicit-state exploration)"),
}

CHECKS.update({
 "C08": ("model_checking",
         "All expression trees with <=2 binary operators over 8 leaves (numbers and amounts in two commodities, a negative literal, zeros) with unary minus on any leaf/subtree, printed with MINIMAL parentheses (so the real parser's precedence and left-associativity decide the value), in 6 contexts (Ledger::eval, posting amount, cost, lot price, balance assignment, balance assertion), plus three alternative spellings; thorough adds all 3-operator trees over 6 leaves with <=1 unary minus. Each is evaluated by the real code and compared with a reference tree evaluator over exact rationals; ill-typed operations named by the statement must be rejected.",
         "Trusted: RefExpr (harness/src/checks/c08.rs::ev) and the minimal-parenthesis printer. number/amount, amount/amount, bare-number results of eval, zero bare numbers, multi-commodity sums with only zero extras, zero/negative rates are DON'T-CARE. Trees containing '/' compared with relative tolerance 1e-20.",
         "DESIGN.md §5 C08",
         "bounded-exhaustive enumeration of expression trees x contexts x spellings vs reference evaluator"),
 "C09": ("model_checking",
         "All sets of <=3 dated price facts (thorough: also all 4-fact sets over cost/db sources and all 3-fact sets spanning 4 commodities) from an alphabet of unordered pair x date x rate x source {cost, price-db} plus @@, {}, implied-exchange and reverse-direction facts, realised as real ledger transactions / a real price-DB file in ascending and reversed file order; for every set ALL (from,to) pairs x 5 query dates are converted by the real code (4.0 M conversions quick) and compared with a brute-force all-simple-paths reference returning the accept-set of rates.",
         "Trusted: RefPrices (harness/src/checks/c09.rs::refprice). Staleness of a chain is accepted both as max and as sum of ages; results within 1e-20 relative (reciprocals are 28-digit decimals).",
         "DESIGN.md §5 C09",
         "explicit enumeration of price-fact histories (canonical key = fact multiset, checked by a reversed-file-order pass) x exhaustive queries vs brute-force reference"),
})

CHECKS.update({
 "C04": ("model_checking",
         "All ledgers of <=4 (thorough <=5) transactions from a 17-transaction alphabet (three dates, a transaction with an effective date, repeated dates, file order independent of date order, multi-commodity/cancelling/inferred/assigned/priced/sub-precision postings) x {no precision, X 2dp}; for each, all 36 (start,end) pairs incl. empty and inverted ranges are queried on the real Ledger, the register (all accounts and per account) is listed, and: balance = sum of register; range balance = sum of reference postings dated in [start,end) up to rounding; adjacent ranges add up for every split point; no commodity with exact zero total is shown; a slice also goes through the CLI (balance, register: final running total = balance).",
         "Trusted: RefLedger per-posting amounts, exact rational sums. A range report may equal the exact sum or its rounding to declared precision (any midpoint rule).",
         "DESIGN.md §5 C04",
         "explicit enumeration of transaction histories x exhaustive date-range queries, real reports compared with each other and with the reference ledger"),
 "C10": ("model_checking",
         "All ledgers of <=4 (thorough <=5) transactions from a 9-transaction alphabet carrying holdings and cost-derived prices (direct, reverse-only, two-hop, a sale priced by its total) x target precision {none,2,0}, plus all ledgers of <=2 (thorough <=3) transactions x 5 price databases (a direct price competing with ledger prices, a three-hop chain through commodities that occur only in the database in three file orders, two dates newest first); for each, every target {A,B,T} x {up-to-date at 3 dates, historical} x 9 date ranges is reported by the real Ledger::balance with conversion, for the ledger as written and with all amounts x3 (linearity): 3.0 M converted reports (quick) compared with reference holdings converted by the brute-force price reference; must fail iff a non-zero needed amount has no rate; no unconverted commodity may remain; rounding only to the target's precision.",
         "Trusted: RefPrices (c09), exact rational holdings. Relative tolerance 1e-13 for reciprocal rates; ties DON'T-CARE (none in this alphabet).",
         "DESIGN.md §5 C10",
         "explicit enumeration of histories x exhaustive report configurations vs reference conversion model"),
})

CHECKS.update({
 "C13": ("model_checking",
         "For every (ledger, command) of a corpus (all sequences of <=2, thorough <=3, transactions from a 12-transaction alphabet with multi-commodity accounts, account names differing only by case, inferred multi-commodity postings, tied price chains, failing multi-commodity diagnostics and a three-commodity holding whose converted values make decimal addition order-sensitive; 10 commands: format, accounts, balance, balance -X up-to-date/historical/with range, register, register <account>, primitive eval with/without -X) and for `okane import` of the repository's Camt053 sample under each of 35 rewrite rules whose matcher element combines 2-3 of 6 capturing fields, and for CSV imports under 26 field maps with >= 2 broken templates, the real CLI code path is run in-process once with insertion-order maps and then once for EVERY combination of up to d non-default iteration orders of okane's internal hash maps (d=1 quick, d=2 thorough); all stdout bytes, exit status and error-chain text must be identical. A labelled free-running SAMPLE (hooks-off release binary, 6-24 fresh processes per case, incl. import of the repository's statement samples) covers what the hooks do not intercept.",
         "Exhaustive over the iteration orders of the maps behind --cfg okane_verif (report/balance.rs, report/eval/amount.rs, report/price_db.rs, report/intern.rs; the fields of a rewrite matcher element in cli/src/import/extract.rs, the CSV field map in cli/src/import/csv.rs): all n! orders for maps of <=4 keys, identity/reversal/rotations above. Other maps left on std are only sampled. --now is always passed.",
         "DESIGN.md §3, §5 C13",
         "stateless choice-tree (schedule) exploration of hash-map iteration orders with a deviation bound, on the real code via order-controllable map hooks"),
})

CHECKS.update({
 "C06": ("model_checking",
         "Under process isolation with a per-case hang watchdog (a panic, a dead worker, a stack overflow, a case running > 20 s are verdicts): ALL sequences of <=4 (thorough <=5) tokens over a 30-token ledger alphabet (bare and behind a valid transaction header), every prefix cut at every character and at every byte of every .ledger file in the repository and of a kitchen-sink document, all include graphs on <=3 files with <=2 include lines each (self-loops, cycles, diamonds, missing targets, globs matching the includer) in memory and the small ones on the real file system through the real binary, 22 nestable/repeatable constructs pumped to n in {1..10^4} (expression-shaped ones to 10^5, thorough 10^6) through the real binary, all include graphs on 3 files in 2 directories with every edge written through `..` on the real file system, all 2-posting transactions under declared precisions (balance, register, format, accounts), and all 1-2 posting transactions containing a zero x 4 zero-rate price databases through balance and both conversion strategies. Every run must terminate with a result or a non-empty diagnostic.",
         "Assumes numbers within the representable decimal range (out-of-range literals must be rejected; arithmetic overflow beyond 28 digits is outside the property). The watchdog threshold is 20 s per case. Truncation corpus = the repository's own ledgers + one document using every documented construct.",
         "DESIGN.md §2.3, §5 C06",
         "bounded-exhaustive input enumeration under process isolation with hang/abort detection (stateless exploration; crash, abort and non-termination are verdicts)"),
})

CHECKS.update({
 "C19": ("model_checking",
         "Full product of 178 (thorough 208) account names of every display width 1..60/70 (ASCII, inner spaces, East-Asian wide, mixed) x clear marks x 214 (438) number shapes x 8 amount kinds, with and without 5 lots x 3 costs x assertion, plus assertion-only and bare postings and every sequence of <=3 entries over 10 entry kinds x separators x LF/CRLF (2.39 M cases quick, 66.7 M thorough) through the real formatter; the output is judged by RefLayout with its own width function: 4-space indent, >=2 spaces after the account, number ends at display column 52 whenever it fits, `=` of assertion-only postings in the column it would have after an amount in that commodity, exactly one blank line between entries, metadata indented 4; every output is re-parsed.",
         "Trusted: RefLayout and its width function (ASCII=1, the listed CJK/full-width characters=2; only those characters are generated). For an assertion-only posting whose assertion is a parenthesised expression the column is the one `=` would have after an amount written as that very expression (number ending in column 52).",
         "DESIGN.md §5 C19; notes/C19-C20.md",
         "bounded-exhaustive enumeration of posting shapes (pure function, full product) vs reference layout model"),
 "C20": ("model_checking",
         "Explicit-state BFS to the fixpoint over (golden file absent | one of the content alphabet, UPDATE_GOLDEN in {unset, empty, 1, 0, non-UTF-8}, Golden handle none | snapshot) driving the REAL okane_golden::Golden in a private scratch directory inside a single worker (the env var is process-global), plus every raw action sequence to depth 4 (thorough 5), plus goldens that cannot be read as text (invalid UTF-8, Latin-1, a directory at the path) x 5 environment values x every `got`; each transition re-creates the object by replaying the action history and checks new()/assert() results, file bytes, file mtime, directory listing and directory mtime against RefGolden (file and directory are aged first, so a rewrite with identical bytes is caught).",
         "Trusted: RefGolden (assert succeeds iff got == content with CRLF->LF; writes iff UPDATE_GOLDEN non-empty; missing file is an error unless updating). A non-UTF-8 UPDATE_GOLDEN value and stale handles after an external file change are DON'T-CARE.",
         "DESIGN.md §5 C20; notes/C19-C20.md",
         "explicit-state BFS over (file x environment x handle) states with the real object re-executed per transition"),
})


# sentences appended to the level text of a check when later rounds widened its space (kept separate so that the
# original description stays readable)
ADDENDA = {
 "C01": " Rounds 8-9 added: negative per-unit rates, postings that carry a cost or lot price AND a (true) balance assertion, and a rendering in which every account is declared with an alias after its first use and the judged transaction is written through the aliases.",
 "C02": " Round 9 added start states in which one account holds three and four commodities.",
 "C03": " Round 9 added start states in which one account holds three and four commodities (a bare `= 0` there must be rejected).",
 "C04": " Rounds 8-9 added: a command-line pass over every one-bound spelling (--start, --begin, --end), and for ledgers written in one commodity the identity conversion (-X that commodity, up-to-date and historical) over every range.",
 "C06": " Rounds 8-9 added: whole-file pumps (10^5 entries) through the real binary, and invisible marks (BOM, ZWSP) in front of 8 kinds of refused entry x 1- to 4-byte characters before every line break x LF/CRLF x final newline.",
 "C07": " Round 9 added family 4b: every well-formed literal of length <= 5 (and six longer grouped ones) in each of the 10 syntactic positions is echoed by `format` with the same value, decimal places and grouping style.",
 "C08": " Round 9 added sums and differences of three commodities (alone, negated, scaled, as divisor of a bare number) in every context.",
 "C09": " Rounds 8-9 added: the same oracle through `okane primitive eval --date` under three settings of --now, facts stated next to a dated lot, and zero quantities (no chain, no conversion).",
 "C10": " Round 9 added a sale out of a dated lot (lot price, lot date, note and cost on one posting).",
 "C13": " Rounds 8-9 added to the corpus: a zero-valued commodity next to a non-zero one in a converted amount, a two-commodity same-side residual, commodities differing only in letter case with a third spelling asked for by -X.",
 "C19": " Round 9 added operator chains whose first operands carry no commodity (`(1200 + 300 + N C)`, `(3 * 2 * N C)`, ...): the first number that carries the commodity ends in column 52.",
 "C20": " Round 9 added family S: every string of length <= 4 over {a, CR, LF} as golden content x UPDATE_GOLDEN {unset, empty, 1} x every such string as `got` (44 k asserts), and the directory listing is watched in the large-golden family.",
}

PENDING_REASON = "check not yet implemented in this revision of /verif (planned, see DESIGN.md §5); not claimed until it exists"

def load_note_entries():
    """checks delivered with notes/CNN/manifest.json (category, text, note, design_ref, technique)"""
    import glob
    for f in sorted(glob.glob('/verif/notes/C*/manifest.json')):
        cid = f.split('/')[-2]
        d = json.load(open(f))
        CHECKS[cid] = (d["category"], d["text"], d["note"], d["design_ref"], d["technique"])


def main():
    load_note_entries()
    props = [json.loads(l) for l in open('/verif/properties.jsonl')]
    checks = []
    na = []
    for p in props:
        pid = p['id']
        if pid in CHECKS:
            cat, text, note, ref, tech = CHECKS[pid]
            text = text + ADDENDA.get(pid, "")
            checks.append({
                "property_id": pid,
                "quick_cmd": f"./okv check {pid} quick",
                "thorough_cmd": f"./okv check {pid} thorough",
                "evidence_file": f"/verif/evidence/{pid}.json",
                "replay_cmd_template": "./okv replay {path}",
                "engine": "okv",
                "level_claimed": {"category": cat, "text": text, "design_ref": ref},
                "level_note": note,
                "technique": tech,
            })
        else:
            na.append({"property_id": pid, "reason": PENDING_REASON})
    hooks_commits = subprocess.run(["git", "-C", "/repo", "log", "--format=%H", "--grep", "^verif hook"], capture_output=True, text=True).stdout.split()
    m = {
        "version": 1,
        "setup_cmd": "./okv build",
        "hooks": {
            "guard": "--cfg okane_verif",
            "enable": "RUSTFLAGS='--cfg okane_verif' via /verif/harness/.cargo/config.toml ([build] rustflags); the harness crate path-depends on /repo/core, /repo/cli, /repo/golden and is rebuilt from /repo's working tree by ./okv before every check",
            "baseline_off_cmd": "cd /repo && cargo nextest run --workspace --no-fail-fast --test-threads 8 --offline || cargo test --workspace --no-fail-fast --offline",
            "source_commits": hooks_commits,
            "add_only": False,
        },
        "engines": [
            {"name": "okv", "path": "/verif/harness", "serves_properties": sorted(CHECKS.keys()),
             "kind_free_text": "Rust harness linking the real okane crates: deterministic bounded-exhaustive enumeration of inputs / histories / map-iteration orders, each executed on the real code in isolated worker processes and compared with a reference model; explicit-state BFS over reference states with real-code re-execution per transition"},
        ],
        "checks": checks,
        "not_applicable": na,
        "notes": "Exit codes: 0 = property held on everything explored (known findings printed as KNOWN-FINDING lines), 1 = VIOLATION line(s), 2 = machinery error (never a verdict). Known findings: /verif/known_findings.json. VERIF_SEED only rotates shard start order; the explored space is identical for every seed.",
    }
    json.dump(m, open('/verif/MANIFEST.json', 'w'), indent=1)
    print("MANIFEST.json written:", len(checks), "checks,", len(na), "not_applicable")

if __name__ == '__main__':
    main()
