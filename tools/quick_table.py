#!/usr/bin/env python3
"""Print the quick-tier coverage table of DESIGN.md §11 from /verif/evidence/*.json."""
import json, glob
print("| check | cases | MUST | DON'T-CARE | states | transitions | outcome classes | wall s |")
print("|---|---|---|---|---|---|---|---|")
for f in sorted(glob.glob('/verif/evidence/C*.json')):
    e = json.load(open(f)); c = e['coverage']
    fmt = lambda n: f"{n:,}".replace(",", " ")
    print(f"| {e['property_id']} | {fmt(c['cases_in_space'])} | {fmt(c['must_cases'])} | {fmt(c['dont_care_cases'])} | {fmt(c['states'])} | {fmt(c['transitions'])} | {c['distinct_outcome_classes']} | {round(e['wall_s'], 1)} |")
