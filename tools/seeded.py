#!/usr/bin/env python3
"""Seeded property-breaking changes: confirm them, keep them, and run the checks against them.

  seeded.py confirm <src-dir> <name> <property>   confirm a candidate (patch.diff + demo/ [+ README.md]) in a scratch worktree
                                                  under /tmp/seedverify/<name>: demo passes on the unchanged tree, the repository's
                                                  test-suite still passes with the patch, the demo fails with the patch. On success
                                                  the candidate is stored as /verif/seeded/<name>/ with meta.json.
  seeded.py detect <name> [<check-id> ...]        apply /verif/seeded/<name>/patch.diff to /repo, run the quick check of its
                                                  property (or the listed checks), record exit status and VIOLATION lines in
                                                  /verif/seeded/<name>/detect.json, and ALWAYS undo the patch (git checkout -- .).
  seeded.py table                                 print a table of all seeded changes and what caught them.

The demo directory mirrors the repository tree for files that must be placed in the tree (e.g. demo/core/tests/x.rs) and has a run.sh
that is run from the worktree root; exit status 0 = demo passes.
"""
import json, os, shutil, subprocess, sys, time

SEEDED = "/verif/seeded"
SUITE = "CARGO_NET_OFFLINE=true cargo nextest run --workspace --no-fail-fast --test-threads 8 --offline"


def sh(cmd, cwd=None, timeout=3600):
    try:
        p = subprocess.run(cmd, shell=True, cwd=cwd, stdout=subprocess.PIPE, stderr=subprocess.STDOUT, text=True, timeout=timeout)
    except subprocess.TimeoutExpired as e:
        subprocess.run("pkill -f 'target/release/okv (worker|only|describe)'", shell=True)
        out = e.stdout.decode() if isinstance(e.stdout, bytes) else (e.stdout or "")
        return 124, out + "\nTIMEOUT after %s s" % timeout
    return p.returncode, p.stdout


def place_demo(src, wt):
    """copy demo files into the worktree, preserving relative paths; return list of placed paths"""
    placed = []
    demo = os.path.join(src, "demo")
    for root, _, files in os.walk(demo):
        for f in files:
            rel = os.path.relpath(os.path.join(root, f), demo)
            dst = os.path.join(wt, "seed_demo", rel) if not os.path.dirname(rel) or rel.split(os.sep)[0] not in ("core", "cli", "golden", "testdata") else os.path.join(wt, rel)
            os.makedirs(os.path.dirname(dst), exist_ok=True)
            shutil.copy2(os.path.join(root, f), dst)
            placed.append(os.path.relpath(dst, wt))
    return placed


def confirm(src, name, prop):
    wt = f"/tmp/seedverify/{name}"
    os.makedirs("/tmp/seedverify", exist_ok=True)
    if os.path.exists(wt):
        sh(f"git -C /repo worktree remove --force {wt}")
    rc, out = sh(f"git -C /repo worktree add --detach {wt} HEAD")
    assert rc == 0, out
    result = {"property": prop, "name": name, "confirmed_at_repo_commit": sh("git -C /repo rev-parse HEAD")[1].strip()}
    try:
        placed = place_demo(src, wt)
        run = "seed_demo/run.sh" if os.path.exists(os.path.join(wt, "seed_demo/run.sh")) else None
        assert run, "demo/run.sh missing"
        os.chmod(os.path.join(wt, run), 0o755)
        t0 = time.time()
        rc0, out0 = sh(f"sh {run}", cwd=wt)
        result["demo_on_unchanged_tree"] = {"exit": rc0, "tail": out0[-1500:]}
        # demos may leave files behind (test sources copied into the tree): the suite must run on patch-only sources
        sh("git clean -fdq -e target -e seed_demo && git checkout -- .", cwd=wt)
        rc, out = sh(f"git apply {os.path.abspath(src)}/patch.diff", cwd=wt)
        assert rc == 0, "patch does not apply: " + out
        rcs, outs = sh(SUITE + " 2>&1 | tail -15", cwd=wt)
        result["suite_with_patch"] = {"cmd": SUITE, "tail": outs[-1500:]}
        import re
        m = re.search(r"Summary \[[^\]]*\]\s+(\d+) tests run: (\d+) passed(?:, (\d+) failed)?", outs)
        suite_ok = bool(m) and int(m.group(1)) == 220 and int(m.group(2)) == 220 and not m.group(3)
        result["suite_with_patch"]["ok"] = suite_ok
        rc1, out1 = sh(f"sh {run}", cwd=wt)
        result["demo_with_patch"] = {"exit": rc1, "tail": out1[-1500:]}
        result["confirmed"] = (rc0 == 0) and suite_ok and (rc1 != 0)
        result["wall_s"] = round(time.time() - t0, 1)
    finally:
        sh(f"git -C /repo worktree remove --force {wt}")
        sh("git -C /repo worktree prune")
        shutil.rmtree(wt, ignore_errors=True)
    print(json.dumps({k: v for k, v in result.items() if k in ("confirmed", "wall_s")}))
    print("demo unchanged exit:", result["demo_on_unchanged_tree"]["exit"], "| suite ok:", result["suite_with_patch"]["ok"], "| demo patched exit:", result["demo_with_patch"]["exit"])
    if not result.get("confirmed"):
        print(json.dumps(result, indent=1)[-4000:])
        return 1
    dst = os.path.join(SEEDED, name)
    if os.path.exists(dst):
        old = os.path.join(dst, "detect.json")
        keep = open(old).read() if os.path.exists(old) else None
        shutil.rmtree(dst)
    else:
        keep = None
    os.makedirs(dst)
    shutil.copy2(os.path.join(src, "patch.diff"), dst)
    shutil.copytree(os.path.join(src, "demo"), os.path.join(dst, "demo"))
    if os.path.exists(os.path.join(src, "README.md")):
        shutil.copy2(os.path.join(src, "README.md"), os.path.join(dst, "README.md"))
    meta = {
        "breaks_property": prop,
        "name": name,
        "needs_to_manifest": "see README.md",
        "what_was_run": result,
    }
    json.dump(meta, open(os.path.join(dst, "meta.json"), "w"), indent=1)
    if keep:
        open(os.path.join(dst, "detect.json"), "w").write(keep)
    return 0


def detect(name, checks):
    d = os.path.join(SEEDED, name)
    meta = json.load(open(os.path.join(d, "meta.json")))
    if not checks:
        checks = [meta["breaks_property"]]
    rc, out = sh("git -C /repo status --porcelain")
    assert out.strip() == "", "/repo working tree is not clean:\n" + out
    res = {"repo_commit": sh("git -C /repo rev-parse HEAD")[1].strip(), "verif_commit": sh("git -C /verif rev-parse HEAD")[1].strip(), "runs": {}}
    try:
        rc, out = sh(f"git -C /repo apply {d}/patch.diff")
        if rc != 0:
            # /repo has moved on (fix: commits) since the change was written: fall back to a 3-way merge
            rc, out = sh(f"git -C /repo apply --3way {d}/patch.diff")
            res["applied_with_3way"] = True
        assert rc == 0 and "with conflicts" not in out, "patch does not apply to /repo: " + out
        for c in checks:
            t0 = time.time()
            env = "OKV_OUT_DIR=/verif/target/seeded-out "
            os.makedirs("/verif/target/seeded-out", exist_ok=True)
            rc, out = sh(env + f"./okv check {c} quick", cwd="/verif", timeout=1800)
            viol = [l for l in out.splitlines() if l.startswith("VIOLATION")]
            sigs = [l.strip() for l in out.splitlines() if l.strip().startswith("sig:")]
            res["runs"][c] = {"exit": rc, "violation_lines": viol[:10], "sigs": sigs[:10], "summary": out.strip().splitlines()[-1] if out.strip() else "", "wall_s": round(time.time() - t0, 1)}
            print(c, "exit", rc, "|", len(viol), "VIOLATION lines |", "; ".join(sigs[:4]))
    finally:
        sh("git -C /repo reset -q --hard HEAD")
        sh("git -C /repo clean -fdq -e target")
    rc, out = sh("git -C /repo status --porcelain")
    assert out.strip() == "", "/repo not restored:\n" + out
    p = os.path.join(d, "detect.json")
    old = json.load(open(p)) if os.path.exists(p) else {"runs": {}}
    old["runs"].update(res["runs"])
    old["repo_commit"] = res["repo_commit"]
    old["verif_commit"] = res["verif_commit"]
    json.dump(old, open(p, "w"), indent=1)
    return 0


def table():
    rows = []
    for name in sorted(os.listdir(SEEDED)):
        d = os.path.join(SEEDED, name)
        if not os.path.exists(os.path.join(d, "meta.json")):
            continue
        meta = json.load(open(os.path.join(d, "meta.json")))
        det = json.load(open(os.path.join(d, "detect.json"))) if os.path.exists(os.path.join(d, "detect.json")) else {"runs": {}}
        caught = [c for c, r in det["runs"].items() if r["exit"] == 1 and r["violation_lines"]]
        missed = [c for c, r in det["runs"].items() if r["exit"] == 0]
        broken = [c for c, r in det["runs"].items() if r["exit"] not in (0, 1)]
        sig = "; ".join(s.replace("sig: ", "") for c in caught for s in det["runs"][c]["sigs"][:2])
        rows.append((name, meta["breaks_property"], ",".join(caught) or "-", ",".join(missed) or "-", ",".join(broken) or "-", sig[:140]))
    print("| seeded change | breaks | caught by | not caught by | machinery error | first signatures |")
    print("|---|---|---|---|---|---|")
    for r in rows:
        print("| " + " | ".join(r) + " |")


if __name__ == "__main__":
    a = sys.argv
    if len(a) >= 5 and a[1] == "confirm":
        sys.exit(confirm(a[2], a[3], a[4]))
    elif len(a) >= 3 and a[1] == "detect":
        sys.exit(detect(a[2], a[3:]))
    elif len(a) >= 2 and a[1] == "table":
        table()
    else:
        print(__doc__)
        sys.exit(2)
