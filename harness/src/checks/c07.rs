//! C07 — numeric literals mean exactly what is written.
//!
//! Families (all exhaustive):
//!  1. every string of length <= L over {0,1,7,',','.','-'} straight into `PrettyDecimal::from_str`
//!  2. magnitude sweep: digit counts 1..=45 x point position x digit pattern x sign x grouping
//!  3. every string of length <= 5 of (1) embedded in each syntactic position a number can occupy

use std::str::FromStr;

use okane_core::parse::{parse_ledger, ParseOptions};
use okane_core::syntax::{self, expr, plain, pretty_decimal::{Format, PrettyDecimal}};

use crate::fw::{CheckDef, Ctx, Outcome};

pub const DEF: CheckDef = CheckDef {
    id: "C07",
    run,
    technique: "exhaustive enumeration of all literal strings up to a length bound (plus structured magnitude sweep and all syntactic embeddings) against a reference recogniser",
    rule: "case = one literal string (family 1: all strings over {0,1,7,',','.','-'} up to the length bound; family 2: digit-count x point-position x pattern x sign x grouping sweep up to 45 digits; family 3: every family-1 string of length<=5 in each of 11 syntactic positions). states = distinct strings/inputs executed, transitions = real-code executions compared with the reference; a case is non-trivial (MUST) when the reference recogniser has a definite accept(value,scale,grouping)/reject verdict",
    assumptions: &["reference recogniser RefLiteral encodes the statement of C07; '.5'-style literals without integer part and literals whose integer part is empty are DON'T-CARE", "representable = |mantissa| < 2^96 and scale <= 28 (rust_decimal)"],
    shards: 64,
    hang_s: 20,
    single_worker: false,
};

#[derive(Debug, Clone, PartialEq)]
pub enum Exp {
    Accept { digits: String, scale: u32, neg: bool, grouped: bool },
    Reject(&'static str),
    DontCare(&'static str),
}

/// Reference recogniser for C07's grammar.
pub fn reference(s: &str) -> Exp {
    let (neg, body) = match s.strip_prefix('-') {
        Some(b) => (true, b),
        None => (false, s),
    };
    if body.contains('-') {
        return Exp::Reject("inner-minus");
    }
    if !body.chars().all(|c| c.is_ascii_digit() || c == ',' || c == '.') {
        return Exp::Reject("foreign-char");
    }
    let parts: Vec<&str> = body.split('.').collect();
    if parts.len() > 2 {
        return Exp::Reject("two-points");
    }
    let (ip, fp) = (parts[0], if parts.len() == 2 { Some(parts[1]) } else { None });
    if let Some(f) = fp {
        if f.contains(',') {
            return Exp::Reject("comma-in-fraction");
        }
    }
    let ndig = body.chars().filter(|c| c.is_ascii_digit()).count();
    if ndig == 0 {
        return Exp::Reject("no-digit");
    }
    let grouped = ip.contains(',');
    if grouped {
        let gs: Vec<&str> = ip.split(',').collect();
        if gs[0].is_empty() || gs[0].len() > 3 {
            return Exp::Reject("bad-leading-group");
        }
        if gs[1..].iter().any(|g| g.len() != 3) {
            return Exp::Reject("incomplete-group");
        }
    }
    if ip.is_empty() {
        return Exp::DontCare("no-integer-part");
    }
    let digits: String = body.chars().filter(|c| c.is_ascii_digit()).collect();
    let scale = fp.map(|f| f.len() as u32).unwrap_or(0);
    if scale > 28 {
        return Exp::Reject("too-precise");
    }
    // representable: |mantissa| < 2^96
    let sig = digits.trim_start_matches('0');
    if sig.len() > 29 {
        return Exp::Reject("too-large");
    }
    if sig.len() == 29 && sig > "79228162514264337593543950335" {
        return Exp::Reject("too-large");
    }
    Exp::Accept { digits, scale, neg, grouped }
}

fn want_mantissa(digits: &str, neg: bool) -> i128 {
    let sig = digits.trim_start_matches('0');
    let m: i128 = if sig.is_empty() { 0 } else { sig.parse().unwrap() };
    if neg {
        -m
    } else {
        m
    }
}

/// Judge `PrettyDecimal::from_str(s)` (already computed) against the reference.
fn judge(s: &str, exp: &Exp, got: &Result<PrettyDecimal, String>) -> Outcome {
    match (exp, got) {
        (Exp::DontCare(w), Ok(_)) => Outcome::dont_care(format!("dontcare/{}/accepted", w)),
        (Exp::DontCare(w), Err(_)) => Outcome::dont_care(format!("dontcare/{}/rejected", w)),
        (Exp::Reject(w), Ok(v)) => Outcome::violation(format!("accepted-malformed/{}", w), format!("literal {:?} is malformed ({}) but was accepted as {} (scale {})", s, w, v.value, v.value.scale())),
        (Exp::Reject(w), Err(_)) => Outcome::pass(format!("rejected/{}", w)),
        (Exp::Accept { .. }, Err(e)) => Outcome::violation("rejected-wellformed", format!("literal {:?} is well-formed but was rejected: {}", s, e)),
        (Exp::Accept { digits, scale, neg, grouped }, Ok(v)) => {
            let m = v.value.mantissa();
            let want = want_mantissa(digits, *neg);
            let intdigits = digits.len() - *scale as usize;
            let int_ge_1000 = digits[..intdigits].trim_start_matches('0').len() >= 4;
            if m != want || v.value.scale() != *scale {
                return Outcome::violation("value-or-scale-differs", format!("literal {:?} read as mantissa {} scale {} instead of mantissa {} scale {}", s, m, v.value.scale(), want, scale));
            }
            if int_ge_1000 && (*grouped != (v.format == Some(Format::Comma3Dot))) {
                return Outcome::violation("grouping-style-lost-on-read", format!("literal {:?}: grouped={} but format={:?}", s, grouped, v.format));
            }
            let printed = match crate::fw::guarded(|| v.to_string()) {
                Ok(p) => p,
                Err(sig) => return Outcome::violation(format!("crash-on-print/{}", sig), format!("printing the value read from {:?} panicked", s)),
            };
            let back = PrettyDecimal::from_str(&printed);
            match back {
                Ok(b) if b.value.mantissa() == m && b.value.scale() == *scale => {}
                _ => return Outcome::violation("print-reread-differs", format!("literal {:?} prints as {:?}, which does not read back to the same value and scale", s, printed)),
            }
            if int_ge_1000 && printed.contains(',') != *grouped {
                return Outcome::violation("printed-grouping-differs", format!("literal {:?} prints as {:?}", s, printed));
            }
            if printed.contains(',') {
                // printed grouping must itself be well-formed
                if !matches!(reference(&printed), Exp::Accept { .. }) {
                    return Outcome::violation("printed-malformed", format!("literal {:?} prints as malformed {:?}", s, printed));
                }
            }
            Outcome::pass(format!("accepted/scale{}{}{}", scale.min(&3), if *grouped { "/grouped" } else { "" }, if *neg { "/neg" } else { "" }))
        }
    }
}

/// decimal string * m + a (school arithmetic; the harness must not depend on machine-width wrap-around here)
fn dec_mul_add(d: &str, m: u64, a: u64) -> String {
    let mut out: Vec<u8> = vec![];
    let mut carry: u128 = a as u128;
    for c in d.bytes().rev() {
        let v = (c - b'0') as u128 * m as u128 + carry;
        out.push(b'0' + (v % 10) as u8);
        carry = v / 10;
    }
    while carry > 0 {
        out.push(b'0' + (carry % 10) as u8);
        carry /= 10;
    }
    out.reverse();
    String::from_utf8(out).unwrap()
}

/// decimal string minus a small number (d >= a)
fn dec_sub_small(d: &str, a: u64) -> String {
    let mut digits: Vec<i64> = d.bytes().map(|c| (c - b'0') as i64).collect();
    let mut borrow = a as i64;
    for x in digits.iter_mut().rev() {
        let v = *x - borrow % 10;
        borrow /= 10;
        if v < 0 {
            *x = v + 10;
            borrow += 1;
        } else {
            *x = v;
        }
        if borrow == 0 {
            break;
        }
    }
    let s: String = digits.iter().map(|x| (b'0' + *x as u8) as char).collect();
    let t = s.trim_start_matches('0');
    if t.is_empty() { "0".to_string() } else { t.to_string() }
}

const SYM: [char; 6] = ['0', '1', '7', ',', '.', '-'];

fn nth_string(len: usize, mut k: u64) -> String {
    let mut s = String::with_capacity(len);
    for _ in 0..len {
        s.push(SYM[(k % 6) as usize]);
        k /= 6;
    }
    s
}

/// Syntactic positions a number can occupy. `{}` is replaced by the literal.
const POSITIONS: &[(&str, &str)] = &[
    ("posting-amount", "2024/01/01 p\n  A  {} X\n  B\n"),
    ("cost-rate", "2024/01/01 p\n  A  1 X @ {} Y\n  B\n"),
    ("cost-total", "2024/01/01 p\n  A  1 X @@ {} Y\n  B\n"),
    ("lot-rate", "2024/01/01 p\n  A  1 X {{} Y}\n  B\n"),
    ("lot-total", "2024/01/01 p\n  A  1 X {{{} Y}}\n  B\n"),
    ("assertion", "2024/01/01 p\n  A  1 X = {} X\n  B\n"),
    ("assignment", "2024/01/01 p\n  A  = {} X\n  B\n"),
    ("commodity-format", "commodity X\n  format {} X\n"),
    ("paren-operand", "2024/01/01 p\n  A  ({} X + 1 X)\n  B\n"),
    ("paren-factor", "2024/01/01 p\n  A  (1 X * {})\n  B\n"),
];

fn first_number<'a>(e: &'a expr::ValueExpr<'a>) -> Option<(bool, &'a PrettyDecimal)> {
    // returns (negated by unary minus, literal) of the left-most literal
    fn in_expr<'a>(e: &'a expr::Expr<'a>, neg: bool) -> Option<(bool, &'a PrettyDecimal)> {
        match e {
            expr::Expr::Unary(u) => in_expr(&u.expr, !neg),
            expr::Expr::Binary(b) => in_expr(&b.lhs, neg),
            expr::Expr::Value(v) => in_val(v, neg),
        }
    }
    fn in_val<'a>(e: &'a expr::ValueExpr<'a>, neg: bool) -> Option<(bool, &'a PrettyDecimal)> {
        match e {
            expr::ValueExpr::Paren(x) => in_expr(x, neg),
            expr::ValueExpr::Amount(a) => Some((neg, &a.value)),
        }
    }
    in_val(e, false)
}
fn last_number<'a>(e: &'a expr::ValueExpr<'a>) -> Option<(bool, &'a PrettyDecimal)> {
    fn in_expr<'a>(e: &'a expr::Expr<'a>, neg: bool) -> Option<(bool, &'a PrettyDecimal)> {
        match e {
            expr::Expr::Unary(u) => in_expr(&u.expr, !neg),
            expr::Expr::Binary(b) => in_expr(&b.rhs, false),
            expr::Expr::Value(v) => in_val(v, neg),
        }
    }
    fn in_val<'a>(e: &'a expr::ValueExpr<'a>, neg: bool) -> Option<(bool, &'a PrettyDecimal)> {
        match e {
            expr::ValueExpr::Paren(x) => in_expr(x, neg),
            expr::ValueExpr::Amount(a) => Some((neg, &a.value)),
        }
    }
    in_val(e, false)
}

/// Extract the literal at the embedding position from the parsed tree.
fn extract(pos: &str, entries: &[plain::LedgerEntry<'_>]) -> Option<(bool, PrettyDecimal)> {
    let e = entries.first()?;
    let exch = |x: &syntax::Exchange<'_>| -> Option<(bool, PrettyDecimal)> {
        match x {
            syntax::Exchange::Rate(v) | syntax::Exchange::Total(v) => first_number(v).map(|(n, p)| (n, p.clone())),
        }
    };
    match (pos, e) {
        ("commodity-format", syntax::LedgerEntry::Commodity(c)) => c.details.iter().find_map(|d| match d {
            syntax::CommodityDetail::Format(a) => Some((false, a.value.clone())),
            _ => None,
        }),
        (_, syntax::LedgerEntry::Txn(t)) => {
            let p = t.posts.first()?;
            match pos {
                "posting-amount" | "paren-operand" => first_number(&p.amount.as_ref()?.amount).map(|(n, p)| (n, p.clone())),
                "paren-factor" => last_number(&p.amount.as_ref()?.amount).map(|(n, p)| (n, p.clone())),
                "cost-rate" | "cost-total" => exch(p.amount.as_ref()?.cost.as_ref()?),
                "lot-rate" | "lot-total" => exch(p.amount.as_ref()?.lot.price.as_ref()?),
                "assertion" | "assignment" => first_number(p.balance.as_ref()?).map(|(n, p)| (n, p.clone())),
                _ => None,
            }
        }
        _ => None,
    }
}

fn judge_embedded(pos: &str, lit: &str, text: &str) -> Outcome {
    // inside parentheses a leading '-' is the unary operator, the rest is the literal
    let in_paren = pos.starts_with("paren");
    let (unary, lit_eff) = if in_paren && lit.starts_with('-') { (true, &lit[1..]) } else { (false, lit) };
    let mut exp = if lit_eff.is_empty() { Exp::Reject("no-digit") } else { reference(lit_eff) };
    // Inside parentheses doc/syntax.md makes `a-b` (no blanks) the expression a - b:
    //   add-expr ::= mul-expr (sp* [+-] sp* mul-expr)*,  comma-decimal has no sign of its own.
    // Such a string is therefore not ONE literal; its value is C08's business. What C07 still demands is that
    // every `-`-separated piece is itself a well-formed literal: a malformed piece must make the text rejected.
    if in_paren && lit_eff.contains('-') {
        let pieces: Vec<&str> = lit_eff.split('-').collect();
        let bad = pieces.iter().filter(|p| !p.is_empty()).find_map(|p| match reference(p) {
            Exp::Reject(w) => Some(w),
            _ => None,
        });
        exp = match bad {
            Some(w) => Exp::Reject(w),
            None => Exp::DontCare("expression-with-minus-operator"),
        };
    }
    let parsed: Result<Vec<plain::LedgerEntry<'_>>, String> = parse_ledger::<plain::Ident>(&ParseOptions::default(), text).map(|r| r.map(|(_, e)| e).map_err(|e| e.to_string())).collect();
    match (&exp, &parsed) {
        (Exp::DontCare(w), _) => Outcome::dont_care(format!("{}/dontcare/{}", pos, w)),
        (Exp::Reject(w), Ok(es)) => {
            let seen = extract(pos, es).map(|(n, p)| format!("{}{}", if n { "-" } else { "" }, p.value)).unwrap_or_else(|| "?".into());
            Outcome::violation(format!("embedded/{}/accepted-malformed/{}", pos, w), format!("malformed literal {:?} ({}) in position {} was accepted and read as {}", lit, w, pos, seen))
        }
        (Exp::Reject(w), Err(_)) => Outcome::pass(format!("{}/rejected/{}", pos, w)),
        (Exp::Accept { .. }, Err(e)) => Outcome::violation(format!("embedded/{}/rejected-wellformed", pos), format!("well-formed literal {:?} rejected in position {}: {}", lit, pos, e.lines().next().unwrap_or(""))),
        (Exp::Accept { digits, scale, neg, .. }, Ok(es)) => match extract(pos, es) {
            None => Outcome::violation(format!("embedded/{}/not-found-in-tree", pos), format!("literal {:?} accepted but no number found at position {}", lit, pos)),
            Some((n, p)) => {
                // effective signed mantissa seen by the evaluator vs. the one written (-0 == 0)
                let eff = if n { -p.value.mantissa() } else { p.value.mantissa() };
                let want = want_mantissa(digits, *neg ^ unary);
                if eff == want && p.value.scale() == *scale {
                    Outcome::pass(format!("{}/accepted", pos))
                } else {
                    Outcome::violation(format!("embedded/{}/value-differs", pos), format!("literal {:?} in position {} read as {}{} (scale {})", lit, pos, if n { "-" } else { "" }, p.value, p.value.scale()))
                }
            }
        },
    }
}

fn run(ctx: &mut Ctx) {
    let maxlen = ctx.tier.pick(8usize, 9usize);
    // family 1
    for len in 1..=maxlen {
        let total = 6u64.pow(len as u32);
        for k in 0..total {
            if !ctx.next_is_mine() {
                ctx.skip_cases(1);
                continue;
            }
            let s = nth_string(len, k);
            ctx.case(
                || format!("PrettyDecimal::from_str({:?})", s),
                || {
                    let exp = reference(&s);
                    let got = PrettyDecimal::from_str(&s).map_err(|e| e.to_string());
                    judge(&s, &exp, &got)
                },
            );
        }
    }
    // family 2: magnitude sweep
    let patterns: [fn(usize) -> String; 3] = [|n| "9".repeat(n), |n| format!("1{}", "0".repeat(n - 1)), |n| "1234567890".chars().cycle().take(n).collect()];
    for ndig in 1..=45usize {
        for point in 0..=ndig.min(30) {
            // `point` digits after the decimal point (0 = no point)
            if point >= ndig {
                continue;
            }
            for (pi, pat) in patterns.iter().enumerate() {
                for neg in [false, true] {
                    for grouped in [false, true] {
                        let digits = pat(ndig);
                        let (ip, fp) = digits.split_at(ndig - point);
                        let ip_s = if grouped {
                            let mut out = String::new();
                            for (i, c) in ip.chars().enumerate() {
                                if i > 0 && (ip.len() - i) % 3 == 0 {
                                    out.push(',');
                                }
                                out.push(c);
                            }
                            out
                        } else {
                            ip.to_string()
                        };
                        if grouped && !ip_s.contains(',') {
                            continue;
                        }
                        let s = format!("{}{}{}{}", if neg { "-" } else { "" }, ip_s, if point > 0 { "." } else { "" }, fp);
                        let _ = pi;
                        ctx.case(
                            || format!("PrettyDecimal::from_str({:?})", s),
                            || {
                                let exp = reference(&s);
                                let got = PrettyDecimal::from_str(&s).map_err(|e| e.to_string());
                                judge(&s, &exp, &got)
                            },
                        );
                    }
                }
            }
        }
    }
    // family 2d: zero padding. k leading zeros (k = 0..=70, 100, 1000) in front of every string of length <= 3 over the
    // family-1 alphabet and a few longer tails: leading zeros carry no value, and a long run of them must not stop the reader
    // from reading - and validating - what follows
    {
        let mut tails: Vec<String> = vec![];
        for len in 1..=3usize {
            for k in 0..6u64.pow(len as u32) {
                tails.push(nth_string(len, k));
            }
        }
        for t in ["123", "1.2.3", "1x", "x", "1,000", "1,00", "12345678901234567890", "0.0000000000000000000000000001", "79228162514264337593543950335", "79228162514264337593543950336"] {
            tails.push(t.to_string());
        }
        let mut ks: Vec<usize> = (0..=70).collect();
        ks.extend([100usize, 1000]);
        for k in ks {
            for t in &tails {
                for neg in [false, true] {
                    if !ctx.next_is_mine() {
                        ctx.skip_cases(1);
                        continue;
                    }
                    let s = format!("{}{}{}", if neg { "-" } else { "" }, "0".repeat(k), t);
                    ctx.case(
                        || format!("PrettyDecimal::from_str({:?}) [{} leading zeros]", s, k),
                        || {
                            let exp = reference(&s);
                            let got = PrettyDecimal::from_str(&s).map_err(|e| e.to_string());
                            judge(&s, &exp, &got)
                        },
                    );
                }
            }
        }
    }
    // family 2b: literals whose true mantissa is congruent to a small number modulo 2^128 / 2^96 / 2^64
    // (a reader that accumulates in a fixed-width integer and wraps would silently accept them)
    for (mi, modulus) in ["340282366920938463463374607431768211456", "79228162514264337593543950336", "18446744073709551616"].iter().enumerate() {
        for mult in [1u64, 2, 3, 30, 294, 2939, 29388, 293874, 1000000007] {
            for add in [0u64, 5, 700] {
                for point in [0usize, 2, 28] {
                    for neg in [false, true] {
                        let digits = dec_mul_add(modulus, mult, add);
                        if digits.len() > 45 || point >= digits.len() {
                            continue;
                        }
                        let (ip, fp) = digits.split_at(digits.len() - point);
                        let s = format!("{}{}{}{}", if neg { "-" } else { "" }, ip, if point > 0 { "." } else { "" }, fp);
                        let _ = mi;
                        ctx.case(
                            || format!("PrettyDecimal::from_str({:?})", s),
                            || {
                                let exp = reference(&s);
                                let got = PrettyDecimal::from_str(&s).map_err(|e| e.to_string());
                                judge(&s, &exp, &got)
                            },
                        );
                    }
                }
            }
        }
    }
    // family 2c: the windows just BELOW and above every power of two at which a fixed-width accumulator, a sign bit or
    // the 96-bit mantissa changes behaviour: 2^k - d and 2^k + d for k in {63, 64, 95, 96, 127, 128}, small d, and the
    // same scaled by the point position (a reader that casts, truncates or wraps maps them onto small or negative values)
    for pow in ["9223372036854775808", "18446744073709551616", "39614081257132168796771975168", "79228162514264337593543950336", "170141183460469231731687303715884105728", "340282366920938463463374607431768211456"] {
        for mult in [1u64, 2, 3] {
            for delta in [-700i64, -5, -1, 0, 1, 5, 700] {
                for point in [0usize, 2, 28] {
                    for neg in [false, true] {
                        let base = dec_mul_add(pow, mult, 0);
                        let digits = if delta < 0 { dec_sub_small(&base, (-delta) as u64) } else { dec_mul_add(&base, 1, delta as u64) };
                        if digits.len() > 45 || point >= digits.len() {
                            continue;
                        }
                        let (ip, fp) = digits.split_at(digits.len() - point);
                        let s = format!("{}{}{}{}", if neg { "-" } else { "" }, ip, if point > 0 { "." } else { "" }, fp);
                        ctx.case(
                            || format!("PrettyDecimal::from_str({:?})", s),
                            || {
                                let exp = reference(&s);
                                let got = PrettyDecimal::from_str(&s).map_err(|e| e.to_string());
                                judge(&s, &exp, &got)
                            },
                        );
                    }
                }
            }
        }
    }
    // family 4: the `format` command must echo a literal with its value and its decimal places, whatever the file
    // declared before it: every well-formed literal of length <= 5 as a posting amount after each of 4 preludes
    // (none; `commodity X` with format 1,000.00 X / 1 X / 1.0000 X), formatted by the real formatter and read back
    {
        let preludes = ["", "commodity X\n  format 1,000.00 X\n\n", "commodity X\n  format 1 X\n\n", "commodity X\n  alias x\n  format 1.0000 X\n\n"];
        for (pi, pre) in preludes.iter().enumerate() {
            for len in 1..=5usize {
                let total = 6u64.pow(len as u32);
                for k in 0..total {
                    if !ctx.next_is_mine() {
                        ctx.skip_cases(1);
                        continue;
                    }
                    let lit = nth_string(len, k);
                    let text = format!("{}2024/01/01 p\n  A  {} X\n  B\n", pre, lit);
                    ctx.case(
                        || format!("format echo:\n{}", text),
                        || {
                            let exp = reference(&lit);
                            let (digits, scale, neg) = match &exp {
                                Exp::Accept { digits, scale, neg, .. } => (digits.clone(), *scale, *neg),
                                _ => return Outcome::dont_care(format!("format-echo/prelude{}/not-a-well-formed-literal", pi)),
                            };
                            let mut out: Vec<u8> = vec![];
                            let mut r = text.as_bytes();
                            if let Err(e) = okane_core::format::FormatOptions::new().format(&mut r, &mut out) {
                                return Outcome::violation("format-echo/rejected-wellformed", format!("{:?}: {}", lit, e));
                            }
                            let printed = String::from_utf8_lossy(&out).to_string();
                            let parsed: Result<Vec<plain::LedgerEntry<'_>>, String> = parse_ledger::<plain::Ident>(&ParseOptions::default(), &printed).map(|r| r.map(|(_, e)| e).map_err(|e| e.to_string())).collect();
                            let es = match parsed {
                                Ok(es) => es,
                                Err(e) => return Outcome::violation("format-echo/output-unreadable", format!("{}\n{}", printed, e)),
                            };
                            let txn: Vec<plain::LedgerEntry<'_>> = es.into_iter().filter(|e| matches!(e, syntax::LedgerEntry::Txn(_))).collect();
                            match extract("posting-amount", &txn) {
                                None => Outcome::violation("format-echo/number-lost", printed),
                                Some((n, p)) => {
                                    let eff = if n { -p.value.mantissa() } else { p.value.mantissa() };
                                    if eff == want_mantissa(&digits, neg) && p.value.scale() == scale {
                                        // the same literal through the evaluator of the loaded ledger (`okane primitive eval`): its value
                                        // is the written one, whatever display format the commodity was declared with
                                        let expr_text = format!("{} X", lit);
                                        let ev: Result<Vec<(String, rust_decimal::Decimal)>, String> = crate::oka::with_ledger(&[(crate::oka::ROOT, text.as_str())], crate::oka::ROOT, None, |r| match r {
                                            Err(e) => Err(format!("load: {}", e.variant)),
                                            Ok((l, c)) => l
                                                .eval(c, &expr_text, &okane_core::report::query::EvalContext { date: crate::oka::date(2024, 1, 1), exchange: None })
                                                .map(|a| crate::oka::amount_to_decmap(&a).into_iter().collect())
                                                .map_err(|e| format!("{:?}", e)),
                                        });
                                        let want = rust_decimal::Decimal::from_i128_with_scale(want_mantissa(&digits, neg), scale);
                                        match ev {
                                            Err(e) => return Outcome::violation(format!("eval-echo/rejected-wellformed/prelude{}", pi), format!("eval {:?}: {}", expr_text, e)),
                                            Ok(m) => {
                                                let got = m.iter().find(|(c, _)| c == "X").map(|(_, v)| *v).unwrap_or_default();
                                                if got != want || m.iter().any(|(c, v)| c != "X" && !v.is_zero()) {
                                                    return Outcome::violation(format!("eval-echo/value-changed/prelude{}", pi), format!("eval {:?} gave {:?}, written value {}", expr_text, m, want));
                                                }
                                            }
                                        }
                                        Outcome::pass(format!("format-echo/prelude{}/value-and-scale-kept", pi))
                                    } else {
                                        Outcome::violation(format!("format-echo/value-or-decimal-places-changed/prelude{}", pi), format!("{:?} was echoed as {} (scale {}) in:\n{}", lit, p.value, p.value.scale(), printed))
                                    }
                                }
                            }
                        },
                    );
                }
            }
        }
    }
    // family 5: the single-value entry points used by the importers for statement cells: `Amount::try_from("<lit> X")` and
    // `ValueExpr::try_from("<lit> X")` must read the WHOLE text: a well-formed literal with its value, anything else is an error
    // (in particular a literal followed by left-over characters such as a trailing `-`)
    for len in 1..=5usize {
        let total = 6u64.pow(len as u32);
        for k in 0..total {
            for which in ["amount", "value-expr"] {
                let lit = nth_string(len, k);
                for form in ["suffix", "prefix-blank", "prefix-tight"] {
                if !ctx.next_is_mine() {
                    ctx.skip_cases(1);
                    continue;
                }
                let text = match form {
                    "suffix" => format!("{} X", lit),
                    "prefix-blank" => format!("X {}", lit),
                    _ => format!("${}", lit),
                };
                let which_form = format!("{}/{}", which, form);
                let which = which_form.as_str();
                let is_prefix = form != "suffix";
                if is_prefix {
                    ctx.case(
                        || format!("{}::try_from({:?})", which, text),
                        || {
                            // commodity written first (statement cells such as `$-20.00`, `USD 5`): where okane reads the text at
                            // all, the number is the written one - sign included; a malformed literal is never accepted
                            if lit.starts_with("--") {
                                return Outcome::dont_care(format!("try-from/{}/dontcare/two-leading-minus-signs", which));
                            }
                            let exp = reference(&lit);
                            let got: Result<(bool, PrettyDecimal), String> = if which.starts_with("amount") {
                                expr::Amount::try_from(text.as_str()).map(|a| (false, a.value)).map_err(|e| e.to_string())
                            } else {
                                expr::ValueExpr::try_from(text.as_str()).map_err(|e| e.to_string()).and_then(|v| first_number(&v).map(|(n, p)| (n, p.clone())).ok_or_else(|| "no number".to_string()))
                            };
                            match (&exp, &got) {
                                (Exp::DontCare(w), _) => Outcome::dont_care(format!("try-from/{}/dontcare/{}", which, w)),
                                (Exp::Reject(w), Ok((n, p))) => Outcome::violation(format!("try-from/{}/accepted-malformed/{}", which, w), format!("{:?} was accepted and read as {}{}", text, if *n { "-" } else { "" }, p.value)),
                                (Exp::Reject(w), Err(_)) => Outcome::pass(format!("try-from/{}/rejected/{}", which, w)),
                                (Exp::Accept { .. }, Err(_)) => Outcome::dont_care(format!("try-from/{}/dontcare/prefix-spelling-not-read", which)),
                                (Exp::Accept { digits, scale, neg, .. }, Ok((n, p))) => {
                                    let eff = if *n { -p.value.mantissa() } else { p.value.mantissa() };
                                    if eff == want_mantissa(digits, *neg) && p.value.scale() == *scale {
                                        Outcome::pass(format!("try-from/{}/accepted", which))
                                    } else {
                                        Outcome::violation(format!("try-from/{}/value-differs", which), format!("{:?} read as {}{} (scale {})", text, if *n { "-" } else { "" }, p.value, p.value.scale()))
                                    }
                                }
                            }
                        },
                    );
                    continue;
                }
                ctx.case(
                    || format!("{}::try_from({:?})", which, text),
                    || {
                        if lit.starts_with("--") {
                            return Outcome::dont_care(format!("try-from/{}/dontcare/two-leading-minus-signs", which));
                        }
                        let exp = reference(&lit);
                        let got: Result<(bool, PrettyDecimal), String> = match which {
                            "amount" => expr::Amount::try_from(text.as_str()).map(|a| (false, a.value)).map_err(|e| e.to_string()),
                            _ => expr::ValueExpr::try_from(text.as_str()).map_err(|e| e.to_string()).and_then(|v| first_number(&v).map(|(n, p)| (n, p.clone())).ok_or_else(|| "no number".to_string())),
                        };
                        match (&exp, &got) {
                            (Exp::DontCare(w), _) => Outcome::dont_care(format!("try-from/{}/dontcare/{}", which, w)),
                            (Exp::Reject(w), Ok((n, p))) => Outcome::violation(format!("try-from/{}/accepted-malformed/{}", which, w), format!("{:?} was accepted and read as {}{}", text, if *n { "-" } else { "" }, p.value)),
                            (Exp::Reject(w), Err(_)) => Outcome::pass(format!("try-from/{}/rejected/{}", which, w)),
                            (Exp::Accept { .. }, Err(e)) => Outcome::violation(format!("try-from/{}/rejected-wellformed", which), format!("{:?}: {}", text, e.lines().next().unwrap_or(""))),
                            (Exp::Accept { digits, scale, neg, .. }, Ok((n, p))) => {
                                let eff = if *n { -p.value.mantissa() } else { p.value.mantissa() };
                                if eff == want_mantissa(digits, *neg) && p.value.scale() == *scale {
                                    Outcome::pass(format!("try-from/{}/accepted", which))
                                } else {
                                    Outcome::violation(format!("try-from/{}/value-differs", which), format!("{:?} read as {}{} (scale {})", text, if *n { "-" } else { "" }, p.value, p.value.scale()))
                                }
                            }
                        }
                    },
                );
                }
            }
        }
    }
    // family 6: statement cells of the CSV importer. Every string of length <= 4 over the family-1 alphabet in each numeric
    // column (amount, charge, balance, secondary amount, rate): a malformed literal makes the import FAIL, whichever column
    // holds it (never a silently dropped or re-read figure)
    {
        let cfg = "path: \"stmt\"\nencoding: UTF-8\naccount: \"Assets:Bank\"\naccount_type: asset\noperator: \"Bank Ltd\"\ncommodity: CHF\nformat:\n  date: \"%Y-%m-%d\"\n  fields:\n    date: Date\n    payee: Payee\n    amount: Amount\n    charge: Fee\n    balance: Balance\n    secondary_amount: SecAmount\n    secondary_commodity: SecCommodity\n    rate: Rate\nrewrite: []\n";
        let set = okane::import::config::load_from_yaml(cfg.as_bytes()).unwrap_or_else(|e| panic!("harness bug: configuration does not load: {}", e));
        let entry = match set.select(std::path::Path::new("/x/stmt.csv")) {
            Ok(Some(e)) => e,
            other => panic!("harness bug: configuration not selected: {:?}", other.map(|o| o.is_some()).map_err(|e| e.to_string())),
        };
        let columns = ["Amount", "Fee", "Balance", "SecAmount", "Rate"];
        for len in 1..=4usize {
            for k in 0..6u64.pow(len as u32) {
                for (ci, col) in columns.iter().enumerate() {
                    if !ctx.next_is_mine() {
                        ctx.skip_cases(1);
                        continue;
                    }
                    let lit = nth_string(len, k);
                    let mut cells = ["-20.50".to_string(), "0.50".to_string(), "100.00".to_string(), "".to_string(), "".to_string()];
                    if ci >= 3 {
                        cells[3] = "18.50".to_string();
                        cells[4] = "1.10".to_string();
                    }
                    cells[ci] = lit.clone();
                    let sec_com = if ci >= 3 { "EUR" } else { "" };
                    let csv = format!("Date,Payee,Amount,Fee,Balance,SecAmount,SecCommodity,Rate\n2024-01-05,Shop,\"{}\",\"{}\",\"{}\",\"{}\",{},\"{}\"\n", cells[0], cells[1], cells[2], cells[3], sec_com, cells[4]);
                    let entry = &entry;
                    ctx.case(
                        || format!("CSV import, column {} holds {:?}:\n{}", col, lit, csv),
                        || {
                            if lit.starts_with("--") {
                                return Outcome::dont_care(format!("csv-cell/{}/dontcare/two-leading-minus-signs", col));
                            }
                            let exp = reference(&lit);
                            let got = okane::import::import(csv.as_bytes(), okane::import::Format::Csv, entry).map_err(|e| e.to_string()).and_then(|txns| {
                                let mut n = 0;
                                for t in &txns {
                                    t.to_double_entry(&entry.account).map_err(|e| e.to_string())?;
                                    n += 1;
                                }
                                Ok(n)
                            });
                            match (&exp, &got) {
                                (Exp::DontCare(w), _) => Outcome::dont_care(format!("csv-cell/{}/dontcare/{}", col, w)),
                                (Exp::Reject(w), Ok(_)) => Outcome::violation(format!("csv-cell/{}/accepted-malformed/{}", col, w), format!("column {} holds the malformed literal {:?} ({}) and the import succeeded", col, lit, w)),
                                (Exp::Reject(w), Err(_)) => Outcome::pass(format!("csv-cell/{}/rejected/{}", col, w)),
                                (Exp::Accept { .. }, Ok(_)) => Outcome::pass(format!("csv-cell/{}/imported", col)),
                                // a well-formed figure may still be refused for reasons outside C07 (zero rate, inconsistent figures)
                                (Exp::Accept { .. }, Err(_)) => Outcome::dont_care(format!("csv-cell/{}/dontcare/well-formed-but-import-refused", col)),
                            }
                        },
                    );
                }
            }
        }
    }
    // family 4b: `format` echoes a literal as written IN EVERY SYNTACTIC POSITION (also where it has no commodity of its
    // own: a factor inside parentheses): every well-formed literal of length <= 5 and six longer grouped ones in each
    // position, formatted by the real formatter and read back: same value, same decimal places, and - when the integer
    // part has thousands to group - the same grouping style
    {
        let extra = ["1,000.5", "-7,777.10", "1,000,000", "10,000.00", "1,234,567.890", "-1,000"];
        let mut lits: Vec<String> = vec![];
        for len in 1..=5usize {
            for k in 0..6u64.pow(len as u32) {
                let l = nth_string(len, k);
                if matches!(reference(&l), Exp::Accept { .. }) {
                    lits.push(l);
                }
            }
        }
        lits.extend(extra.iter().map(|x| x.to_string()));
        ctx.fact("format_echo_positions_literals", lits.len() as u64);
        for (pos, tmpl) in POSITIONS {
            for lit in &lits {
                if !ctx.next_is_mine() {
                    ctx.skip_cases(1);
                    continue;
                }
                let text = tmpl.replacen("{}", lit, 1);
                ctx.case(
                    || format!("format echo, position {}:\n{}", pos, text),
                    || {
                        let in_paren = pos.starts_with("paren");
                        let (unary, lit_eff) = if in_paren && lit.starts_with('-') { (true, &lit[1..]) } else { (false, lit.as_str()) };
                        let (digits, scale, neg) = match reference(lit_eff) {
                            Exp::Accept { digits, scale, neg, .. } => (digits, scale, neg),
                            _ => return Outcome::dont_care(format!("format-echo-position/{}/not-one-literal", pos)),
                        };
                        let orig = match PrettyDecimal::from_str(lit_eff) {
                            Ok(o) => o,
                            Err(_) => return Outcome::dont_care(format!("format-echo-position/{}/scanner-refuses", pos)),
                        };
                        let mut out: Vec<u8> = vec![];
                        let mut r = text.as_bytes();
                        if okane_core::format::FormatOptions::new().format(&mut r, &mut out).is_err() {
                            // acceptance in this position is family 3's business
                            return Outcome::dont_care(format!("format-echo-position/{}/not-accepted-here", pos));
                        }
                        let printed = String::from_utf8_lossy(&out).to_string();
                        let parsed: Result<Vec<plain::LedgerEntry<'_>>, String> = parse_ledger::<plain::Ident>(&ParseOptions::default(), &printed).map(|r| r.map(|(_, e)| e).map_err(|e| e.to_string())).collect();
                        let es = match parsed {
                            Ok(es) => es,
                            Err(e) => return Outcome::violation(format!("format-echo-position/{}/output-unreadable", pos), format!("{}\n{}", printed, e)),
                        };
                        match extract(pos, &es) {
                            None => Outcome::violation(format!("format-echo-position/{}/number-lost", pos), printed),
                            Some((n, p)) => {
                                let eff = if n { -p.value.mantissa() } else { p.value.mantissa() };
                                if eff != want_mantissa(&digits, neg ^ unary) || p.value.scale() != scale {
                                    return Outcome::violation(format!("format-echo-position/{}/value-or-decimal-places-changed", pos), format!("{:?} was echoed as {} (scale {}) in:\n{}", lit, p.value, p.value.scale(), printed));
                                }
                                // thousands to group: at least four integer digits once leading zeros are set aside;
                                // "no format recorded" and Plain are the same style
                                let int_digits = lit_eff.trim_start_matches('-').split('.').next().unwrap_or("").chars().filter(|c| c.is_ascii_digit()).collect::<String>().trim_start_matches('0').len();
                                let style = |f: &Option<okane_core::syntax::pretty_decimal::Format>| matches!(f, Some(okane_core::syntax::pretty_decimal::Format::Comma3Dot));
                                if int_digits >= 4 && style(&p.format) != style(&orig.format) {
                                    return Outcome::violation(format!("format-echo-position/{}/grouping-style-changed", pos), format!("{:?} (read as {:?}) was echoed as {} ({:?}) in:\n{}", lit, orig.format, p, p.format, printed));
                                }
                                Outcome::pass(format!("format-echo-position/{}/kept{}", pos, if int_digits >= 4 { "-with-thousands" } else { "" }))
                            }
                        }
                    },
                );
            }
        }
    }
    // family 3: embeddings
    let emb_len = ctx.tier.pick(4usize, 5usize);
    for (pos, tmpl) in POSITIONS {
        for len in 1..=emb_len {
            let total = 6u64.pow(len as u32);
            for k in 0..total {
                if !ctx.next_is_mine() {
                    ctx.skip_cases(1);
                    continue;
                }
                let lit = nth_string(len, k);
                let text = tmpl.replacen("{}", &lit, 1);
                ctx.case(|| format!("position {}:\n{}", pos, text), || judge_embedded(pos, &lit, &text));
            }
        }
    }
}
