//! C11 — includes expand in place, in order; splitting a ledger changes nothing.
//!
//! One order-sensitive 6-entry ledger (alias declaration, use of the alias, balance assignment, balance
//! assertion that only balances BEFORE the commodity format is declared, commodity format, transaction that only
//! balances AFTER the format is declared; every adjacent swap changes the reports) is cut into include trees in
//! every way within the bounds:
//!
//!   shape  := file ;  file := item+ ;  item := E (next entry of the ledger) | '[' file ('|' file)* ']'
//!
//! where `[...]` is ONE include line whose pattern matches the listed child files (one child: literal or glob
//! path, several children: a glob visited in sorted order). Every include line gets a path style. The in-place
//! expansion of every such tree is, by construction, the unsplit ledger, so the oracle is simply "same callback
//! sequence, same reports as the unsplit file". Every subset of the 5 entry boundaries occurs as a cut set.
//!
//! Families (all exhaustive within their bounds, enumerated simplest first):
//!   F   fake FS: every shape with depth <= D and <= L include lines x EVERY style assignment
//!   U   fake FS: every shape with depth <= D and MORE than L lines x uniform style families (quick 4, thorough 10)
//!   S   fake FS: every 1-line tree x style with the root file itself named through `dir/../dir/./main.ledger`
//!   G   fake+real FS: the other glob metacharacters `[0-9]` `[ab]` `[!x]` `?` (8 styles: same dir / sub-dir), with
//!       decoy siblings the class must not match; GN: such a pattern matching only its decoys must fail
//!   T   fake+real FS: the SAME relative include text (literal, ./x, ./x/../y, sub/x, *-, class-, ?-glob, sub/*) in 2 or 3
//!       sibling directories d1/ d2/ d3/ holding files of the same relative names; same text along a chain
//!   W   fake+real FS: textual form of the include line and of the file end: blanks/tabs before (and, DON'T-CARE, after)
//!       the path, LF / CRLF, blank lines between items or none, last line of every file terminated or not
//!   K   fake+real FS: scale — one wildcard matching 1, 2, 5, 31, 32, 33, 64, 200 files under 5 naming schemes (padded,
//!       class, `?`, unpadded digits `2` < `10`?, mixed case), include chains of depth 1..40 under 4 link styles; own ledger
//!       of n+1 entries in which entry i only balances after exactly entries 0..i-1
//!   E   fake+real FS: refused ledgers (syntax fault, false assertion, unbalanced transaction; one fault or two of
//!       different kinds in both orders at every position): delivered prefix and winning fault must equal the unsplit ledger's
//!   RS  real FS: symbolic links (file alias, directory link, glob over a link, root through a link: MUST where both
//!       readings of "relative to the including file" agree; a linked file elsewhere with includes of its own: DON'T-CARE)
//!   N   fake FS: an include that matches nothing (every 1-line tree x style; nested 2-line shapes x uniform style)
//!   C   fake FS: recursive include (chain depth k, back edge to ancestor j, chain style, back-edge spelling)
//!   X   fake FS: the same file included twice through two different spellings (sequence is DON'T-CARE)
//!   D   fake FS: the identical include line twice; diamond (two files include a shared file)
//!   R1-R4 real FS: 1-line trees x styles x 2 creation orders x 2 root spellings; chains x all style tuples; glob
//!       fans with nested includes; (thorough) all 2-line shapes x uniform styles — loader + in-process CLI
//!       (`balance`, `register`, `primitive flatten`, `accounts`); RN/RC/RD: no-match, recursion, repeated include.
//!
//! Layout rules that keep the families independent of each other: every file has a unique name, only the members
//! of a `sub/*.ledger` glob (and the root) end in `.ledger`, every other file ends in `.dat`; glob members are named
//! with single-digit keys so that every notion of sorted order agrees; next to every glob sits a dot-file (or
//! dot-directory) with an unbalanced transaction that the pattern would match but for its leading dot.

use std::collections::{BTreeMap, BTreeSet, HashMap};
use std::path::{Path, PathBuf};
use std::rc::Rc;

use okane_core::{load, parse, report, syntax};

use crate::fw::{CheckDef, Ctx, Outcome};
use crate::oka;

pub const DEF: CheckDef = CheckDef {
    id: "C11",
    run,
    technique: "bounded-exhaustive enumeration of include trees: one order-sensitive 6-entry ledger cut at every subset of its 5 entry boundaries and hung into every include tree (own entries may surround include lines; one include line may glob several sibling files) within depth/line bounds x every assignment of 10 path styles to the include lines, plus 12 further styles for the remaining glob metacharacters ([0-9], [ab], [!x], ? in the same and in a sub-directory) and for file-name value classes (letter case, upper-case names, dotted names); the real Loader (FakeFileSystem and real file system) and the real report/CLI code run on every tree and are compared with the unsplit ledger",
    rule: "case = (tree shape, path style per include line[, file system, creation order, root spelling]). quick: depth <= 2 and <= 2 include lines x all style assignments, plus all 48 097 shapes of depth <= 2 x 4 uniform style families; thorough: depth <= 3 and <= 3 lines x all style assignments, plus all 383 084 shapes of depth <= 3 x 10 uniform style families. Styles: same dir, sub-dir, ../, ./x/../y, absolute, glob prefix*, glob *suffix, glob sub/*.ledger, glob ../*suffix, glob over several directories */m.dat; family G adds rN_[0-9].dat, sN_[ab..].dat, [!x]_nN.dat, ?_qN.dat (same dir and mN/ sub-dir, the first three without any * or ?) with siblings the class must not match: quick every 1-line tree x 8 and every 2-line shape x 8 uniform, thorough every <=2-line shape x every assignment over all 18 styles using one of them; a dot-file (dot-directory) holding an unbalanced transaction sits next to every glob; FakeFileSystem returns glob matches reverse-sorted; on the real FS files are created in two scrambled orders. family T: every twin shape (root -> 2 or 3 year files d1/year.dat.. by literal lines or one glob d*/year.dat, each with own entries around ONE include line over leaf files) x 9 include texts that are IDENTICAL in every directory (part.dat, ./part.dat, ./x/../part.dat, sub/part.dat, *_p.dat, p_[0-9].dat, ?_q.dat, sub/*.ledger, sub/p_[0-9].dat), 3 538 shapes / 23 954 trees on the fake FS, 1 720 (thorough 23 954) on the real FS, plus chains whose every line says the same sub-directory text. family W: every 1-line tree x 3 styles x 125 textual forms and every 2-line shape x 17 forms ({blank, blanks, tab before the path} x {LF, CRLF on include lines, CRLF everywhere} x {blank line after every item, none} x {file end as generated, one line end, last line unterminated}; blanks after the path are DON'T-CARE), 76 059 trees on the fake FS and 1 080 on the real FS. family K (scale): one wildcard matching 1/2/5/31/32/33/64/200 files x 5 naming schemes (zero-padded by *, by [0-9][0-9][0-9], by ???; unpadded digits; alternating upper/lower-case names — byte-wise order expected, numeric-aware or case-insensitive collation DON'T-CARE) and include chains of every depth 1..40 x 4 link styles, on both file systems, over a ledger whose i-th entry only balances after exactly its predecessors; styles for letter case (v-*.dat next to V-0.dat, U_*.DAT next to u_a.dat, literal y.dat next to Y.dat) and names full of dots join the glob-metacharacter family. family E (refused ledgers): 3 entries + one fault (garbage line / false assertion / unbalanced transaction at 4 positions) or two faults of different kinds in both orders at all positions (72 ledgers) x every shape with <= 2 include lines: entries delivered before the failure, the way Loader::load ends and the error family+variant of report::process must equal those of the unsplit ledger run through the same code (42 072 trees fake, 1 020 real incl. CLI stdout + top-level message). Further families: include matching nothing (must fail), recursive include (must fail, not crash), identical include twice and diamond (must not be reported as recursive), two spellings of one file (DON'T-CARE). states = trees executed, transitions = loader/report/CLI runs compared with the unsplit ledger",
    assumptions: &[
        "entry identity = PartialEq of syntax::plain::LedgerEntry against the parsed unsplit ledger; report identity = bytes of the balance/register lines (same formatting code as cli BalanceCmd/RegisterCmd on FakeFileSystem, the real CLI in-process on the real file system)",
        "file names inside one glob are single-digit keys, so every reasonable notion of 'sorted path order' agrees; component-wise vs byte-wise order of multi-directory matches, case folding, symlinks and non-UTF-8 names are not exercised",
        "path attribution is compared after normalisation (lexical on the fake FS, fs::canonicalize on the real FS); outside family W include lines are `include <path>` + LF + blank line; a line counts as terminated by LF, CRLF or the end of the file (okane's uniform line_ending_or_eof convention); blanks after the include path are DON'T-CARE (doc/syntax.md makes them part of the path, okane trims them)",
    ],
    shards: 64,
    hang_s: 60,
    single_worker: false,
};

// ------------------------------------------------------------------------------------------
// The ledger

const ENTRIES: [&str; 6] = [
    "account Assets:Bank\n    alias Bank\n\n",
    "2024/01/01 open\n    Bank                 100.00 CHF\n    Equity:Opening\n\n",
    "2024/01/02 assign\n    Assets:Bank          = 250.00 CHF\n    Income:Found\n\n",
    // balanced only while CHF has no declared precision (0.004 CHF against 2 X is an implied exchange)
    "2024/01/03 assert\n    Assets:Bank          -50.00 CHF = 200.00 CHF\n    Expenses:Misc         50.004 CHF\n    Shares               -2 X\n\n",
    "commodity CHF\n    format 1,000.00 CHF\n\n",
    // balanced only once CHF is rounded to 2 digits
    "2024/01/04 rounded\n    Assets:Bank          1,234.504 CHF\n    Equity:Opening       -1,234.50 CHF\n\n",
];
const N: usize = 6;
/// content of the file that two files include in the diamond family (a top-level comment: delivered, no effect on reports)
const SHARED: &str = "; shared header, included from two files\n\n";
const HIDDEN: &str = "2024/01/09 hidden dot-file must never be loaded\n    Hidden:A             1 CHF\n    Hidden:B             1 CHF\n\n";

fn unsplit_text() -> String {
    ENTRIES.concat()
}

// ------------------------------------------------------------------------------------------
// Styles

#[derive(Clone, Copy, PartialEq, Eq, Debug, PartialOrd, Ord)]
enum Style {
    Same,
    Sub,
    Up,
    DotMix,
    Abs,
    GlobPrefix,
    GlobStar,
    GlobSub,
    GlobUp,
    GlobDirs,
    // the other glob metacharacters (family G): character range, character set, negated class, single character;
    // the first three contain neither `*` nor `?`
    ClsRange,
    ClsSet,
    ClsNeg,
    Qmark,
    SubClsRange,
    SubClsSet,
    SubClsNeg,
    SubQmark,
    // names: letter case, upper-case names, a literal next to a name differing only in case, names full of dots
    CaseGlob,
    UpperGlob,
    CaseLit,
    DotName,
    // labels for the lines of family T (identical include text in sibling directories); never tallied per style
    TwinLit,
    TwinGlob,
}
use Style::*;
/// the styles of the main families
const NCORE: usize = 10;
const ALL: [Style; NCORE] = [Same, Sub, Up, DotMix, Abs, GlobPrefix, GlobStar, GlobSub, GlobUp, GlobDirs];
const GLOBS: [Style; 5] = [GlobPrefix, GlobStar, GlobSub, GlobUp, GlobDirs];
/// `[0-9]`, `[ab]`, `[!x]`, `?` in the same directory and in a sub-directory
const META: [Style; 12] = [ClsRange, ClsSet, ClsNeg, Qmark, SubClsRange, SubClsSet, SubClsNeg, SubQmark, CaseGlob, UpperGlob, CaseLit, DotName];
const META_GLOB: [Style; 11] = [ClsRange, ClsSet, ClsNeg, Qmark, SubClsRange, SubClsSet, SubClsNeg, SubQmark, CaseGlob, UpperGlob, DotName];
const NSTYLES: usize = 22;
const EVERY: [Style; NSTYLES] = [Same, Sub, Up, DotMix, Abs, GlobPrefix, GlobStar, GlobSub, GlobUp, GlobDirs, ClsRange, ClsSet, ClsNeg, Qmark, SubClsRange, SubClsSet, SubClsNeg, SubQmark, CaseGlob, UpperGlob, CaseLit, DotName];
const EVERY_GLOB: [Style; 16] = [GlobPrefix, GlobStar, GlobSub, GlobUp, GlobDirs, ClsRange, ClsSet, ClsNeg, Qmark, SubClsRange, SubClsSet, SubClsNeg, SubQmark, CaseGlob, UpperGlob, DotName];

impl Style {
    fn is_glob(self) -> bool {
        !matches!(self, Same | Sub | Up | DotMix | Abs | TwinLit | CaseLit)
    }
    fn is_meta(self) -> bool {
        META.contains(&self)
    }
    /// the style a multi-child line takes in the uniform family of an extra style
    fn for_group(self) -> Style {
        if self == CaseLit {
            CaseGlob
        } else {
            self
        }
    }
    fn idx(self) -> usize {
        EVERY.iter().position(|s| *s == self).unwrap()
    }
    /// the glob style used for multi-child lines in the uniform family of `self`
    fn glob_of(self) -> Style {
        match self {
            Same => GlobPrefix,
            Sub => GlobSub,
            Abs => GlobDirs,
            Up => GlobUp,
            DotMix => GlobStar,
            g => g,
        }
    }
}

// ------------------------------------------------------------------------------------------
// Shapes

type ShapeList = Rc<Vec<(String, usize)>>;

struct Gen {
    seq: HashMap<(usize, usize, usize), ShapeList>,
    grp: HashMap<(usize, usize, usize), ShapeList>,
}

impl Gen {
    /// item sequences covering n entries, nesting depth <= d, at most l include lines: (string, lines used)
    fn seq(&mut self, n: usize, d: usize, l: usize) -> ShapeList {
        if let Some(v) = self.seq.get(&(n, d, l)) {
            return v.clone();
        }
        let mut out: Vec<(String, usize)> = vec![];
        if n == 0 {
            out.push((String::new(), 0));
        } else {
            for (s, u) in self.seq(n - 1, d, l).iter() {
                out.push((format!("E{}", s), *u));
            }
            if d > 0 && l > 0 {
                for m in 1..=n {
                    let groups = self.group(m, d - 1, l - 1);
                    for (g, ug) in groups.iter() {
                        let rest = self.seq(n - m, d, l - 1 - ug);
                        for (r, ur) in rest.iter() {
                            out.push((format!("[{}]{}", g, r), 1 + ug + ur));
                        }
                    }
                }
            }
        }
        let rc = Rc::new(out);
        self.seq.insert((n, d, l), rc.clone());
        rc
    }
    /// one or more non-empty child files covering m entries
    fn group(&mut self, m: usize, d: usize, l: usize) -> ShapeList {
        if let Some(v) = self.grp.get(&(m, d, l)) {
            return v.clone();
        }
        let mut out: Vec<(String, usize)> = vec![];
        for k in 1..=m {
            let first = self.seq(k, d, l);
            for (f, uf) in first.iter() {
                if k == m {
                    out.push((f.clone(), *uf));
                } else {
                    let rest = self.group(m - k, d, l - uf);
                    for (r, ur) in rest.iter() {
                        out.push((format!("{}|{}", f, r), uf + ur));
                    }
                }
            }
        }
        let rc = Rc::new(out);
        self.grp.insert((m, d, l), rc.clone());
        rc
    }
}

fn shape_depth(s: &str) -> usize {
    let (mut d, mut m) = (0usize, 0usize);
    for c in s.bytes() {
        match c {
            b'[' => {
                d += 1;
                m = m.max(d);
            }
            b']' => d -= 1,
            _ => {}
        }
    }
    m
}

/// for every include line (preorder): does it have several children?
fn line_multi(s: &str) -> Vec<bool> {
    let mut out = vec![];
    let mut stack = vec![];
    for c in s.bytes() {
        match c {
            b'[' => {
                stack.push(out.len());
                out.push(false);
            }
            b'|' => out[*stack.last().unwrap()] = true,
            b']' => {
                stack.pop();
            }
            _ => {}
        }
    }
    out
}

/// set of cut positions (1..=5): boundary i is cut iff entries i-1 and i live in different files
fn cut_mask(s: &str) -> u32 {
    // file identity = a counter assigned at '[' / '|' ; stack restores at ']'
    let mut next_file = 1usize;
    let mut cur = 0usize;
    let mut stack = vec![];
    let mut owner = vec![];
    for c in s.bytes() {
        match c {
            b'E' => owner.push(cur),
            b'[' => {
                stack.push(cur);
                cur = next_file;
                next_file += 1;
            }
            b'|' => {
                cur = next_file;
                next_file += 1;
            }
            b']' => cur = stack.pop().unwrap(),
            _ => {}
        }
    }
    let mut m = 0u32;
    for i in 1..owner.len() {
        if owner[i] != owner[i - 1] {
            m |= 1 << (i - 1);
        }
    }
    m
}

/// all shapes with depth <= d and <= l lines, simplest first
fn shapes(d: usize, l: usize) -> Vec<(String, usize)> {
    shapes_n(N, d, l)
}

/// the same for a ledger of n entries
fn shapes_n(n: usize, d: usize, l: usize) -> Vec<(String, usize)> {
    let mut g = Gen { seq: HashMap::new(), grp: HashMap::new() };
    let mut v: Vec<(String, usize)> = g.seq(n, d, l).iter().cloned().collect();
    v.sort_by(|a, b| (a.1, shape_depth(&a.0), a.0.len(), &a.0).cmp(&(b.1, shape_depth(&b.0), b.0.len(), &b.0)));
    v
}

enum Item {
    E(usize),
    Inc(Vec<Node>),
}
struct Node {
    items: Vec<Item>,
}

fn parse_shape(s: &str) -> Node {
    fn file(b: &[u8], pos: &mut usize, next_entry: &mut usize) -> Node {
        let mut items = vec![];
        while *pos < b.len() {
            match b[*pos] {
                b'E' => {
                    items.push(Item::E(*next_entry));
                    *next_entry += 1;
                    *pos += 1;
                }
                b'[' => {
                    *pos += 1;
                    let mut children = vec![file(b, pos, next_entry)];
                    while b[*pos] == b'|' {
                        *pos += 1;
                        children.push(file(b, pos, next_entry));
                    }
                    assert!(b[*pos] == b']', "harness bug: malformed shape");
                    *pos += 1;
                    items.push(Item::Inc(children));
                }
                _ => break,
            }
        }
        Node { items }
    }
    let (mut pos, mut ne) = (0, 0);
    let n = file(s.as_bytes(), &mut pos, &mut ne);
    assert!(pos == s.len(), "harness bug: trailing shape input");
    n
}

fn count_lines(n: &Node) -> usize {
    n.items.iter().map(|i| match i { Item::E(_) => 0, Item::Inc(c) => 1 + c.iter().map(count_lines).sum::<usize>() }).sum()
}

// ------------------------------------------------------------------------------------------
// Layout: shape + styles -> files

struct Line {
    style: Style,
    text: String,
    /// decoys: dot-files that sit where the pattern would match them but for the leading dot, and siblings that a
    /// character class / `?` must not match
    hidden: Vec<String>,
    multi: bool,
}

struct Laid {
    root: String,
    /// (path, content) in preorder (root first)
    files: Vec<(String, String)>,
    /// dot-files (path -> content)
    hidden: BTreeMap<String, String>,
    /// extra directories that must exist on a real file system (`./x/../y`)
    dirs: BTreeSet<String>,
    /// expected callback sequence: (file index, entry index)
    expect: Vec<(usize, usize)>,
    lines: Vec<Line>,
    /// glob groups with >= 2 members: file indices in intended (sorted) order
    groups: Vec<Vec<usize>>,
    /// file index -> is member of a multi-child glob group
    in_group: BTreeSet<usize>,
    /// Some(line) if that line was made to match nothing
    nomatch: Option<usize>,
}

/// Textual form of the generated files (family W). The default is what every other family uses: one blank between
/// `include` and the path, LF, a blank line after every item.
#[derive(Clone, Copy, Debug, PartialEq, Eq)]
struct Fmt {
    /// between `include` and the path
    sep: &'static str,
    /// after the path (DON'T-CARE unless empty: the documented grammar makes it part of the path, okane trims it)
    trail: &'static str,
    /// 0 = LF everywhere, 1 = include lines end in CRLF, 2 = CRLF everywhere
    eol: u8,
    /// blank line after every item
    gap: bool,
    /// end of every file: 0 = as generated, 1 = exactly one line end, 2 = the last line is not terminated at all
    eof: u8,
}
const FMT_DEFAULT: Fmt = Fmt { sep: " ", trail: "", eol: 0, gap: true, eof: 0 };

impl Fmt {
    fn entry<'t>(&self, e: &'t str) -> &'t str {
        if self.gap {
            e
        } else {
            &e[..e.len() - 1]
        }
    }
    fn include_line(&self, text: &str) -> String {
        let nl = if self.eol == 1 { "\r\n" } else { "\n" };
        format!("include{}{}{}{}{}", self.sep, text, self.trail, nl, if self.gap { nl } else { "" })
    }
    fn finish(&self, content: String) -> String {
        let mut c = if self.eol == 2 { content.replace('\n', "\r\n") } else { content };
        if self.eof > 0 {
            let keep = c.trim_end_matches(['\n', '\r']).len();
            let crlf = self.eol == 2 || (self.eol == 1 && c[keep..].starts_with('\r'));
            c.truncate(keep);
            if self.eof == 1 {
                c.push_str(if crlf { "\r\n" } else { "\n" });
            }
        }
        c
    }
    fn describe(&self) -> String {
        format!(
            "sep {:?} trail {:?} line-ends {} {} file-end {}",
            self.sep,
            self.trail,
            ["LF", "CRLF-on-include-lines", "CRLF"][self.eol as usize],
            if self.gap { "blank-line-between-items" } else { "no-blank-lines" },
            ["as-generated", "one-line-end", "unterminated-last-line"][self.eof as usize]
        )
    }
}

struct Builder<'a> {
    /// entry texts of another ledger than ENTRIES (family E)
    texts: Option<&'a [String]>,
    fmt: Fmt,
    base: &'a str,
    styles: &'a [Style],
    next_lid: usize,
    dead: bool,
    l: Laid,
}

fn parent_dir(d: &str) -> String {
    match d.rfind('/') {
        Some(i) if i > 0 => d[..i].to_string(),
        _ => panic!("harness bug: no parent of {}", d),
    }
}

impl<'a> Builder<'a> {
    fn lay(&mut self, node: &Node, dir: &str, path: String) -> usize {
        let fidx = self.l.files.len();
        self.l.files.push((path, String::new()));
        let mut content = String::new();
        for it in &node.items {
            match it {
                Item::E(i) => {
                    content.push_str(self.fmt.entry(match self.texts { Some(t) => t[*i].as_str(), None => ENTRIES[*i] }));
                    if !self.dead {
                        self.l.expect.push((fidx, *i));
                    }
                }
                Item::Inc(children) => {
                    let lid = self.next_lid;
                    self.next_lid += 1;
                    let st = self.styles[lid];
                    let multi = children.len() > 1;
                    assert!(!multi || st.is_glob(), "harness bug: literal style for a multi-child line");
                    let kill = self.l.nomatch == Some(lid);
                    let base = self.base;
                    let up = || {
                        let p = parent_dir(dir);
                        assert!(p.starts_with(base), "harness bug: ../ leaves the base directory");
                        p
                    };
                    // child directory, include text, child names, hidden file
                    let first_fid = self.l.files.len();
                    let lit = if kill { format!("missing{}.dat", lid) } else { format!("c{}.dat", first_fid) };
                    let key = |k: usize| (b'1' + k as u8) as char;
                    let (cdir, text, names, hidden): (String, String, Vec<String>, Vec<String>) = match st {
                        Same => (dir.to_string(), lit.clone(), vec![lit], vec![]),
                        Sub => (format!("{}/s{}", dir, lid), format!("s{}/{}", lid, lit), vec![lit], vec![]),
                        Up => (up(), format!("../{}", lit), vec![lit], vec![]),
                        DotMix => {
                            self.l.dirs.insert(format!("{}/x{}", dir, lid));
                            (dir.to_string(), format!("./x{}/../{}", lid, lit), vec![lit], vec![])
                        }
                        Abs => {
                            let d = format!("{}/abs{}/a1/a2", self.base, lid);
                            (d.clone(), format!("{}/{}", d, lit), vec![lit], vec![])
                        }
                        GlobPrefix => (
                            dir.to_string(),
                            format!("p{}_*.dat", lid),
                            (0..children.len()).map(|k| format!("p{}_{}.dat", lid, key(k))).collect(),
                            vec![format!("{}/.p{}_0.dat", dir, lid)],
                        ),
                        GlobStar => (
                            dir.to_string(),
                            format!("*_g{}.dat", lid),
                            (0..children.len()).map(|k| format!("{}_g{}.dat", key(k), lid)).collect(),
                            vec![format!("{}/.0_g{}.dat", dir, lid)],
                        ),
                        GlobSub => (
                            format!("{}/s{}", dir, lid),
                            format!("s{}/*.ledger", lid),
                            (0..children.len()).map(|k| format!("{}.ledger", key(k))).collect(),
                            vec![format!("{}/s{}/.hidden.ledger", dir, lid)],
                        ),
                        GlobUp => {
                            let p = up();
                            (
                                p.clone(),
                                format!("../*_u{}.dat", lid),
                                (0..children.len()).map(|k| format!("{}_u{}.dat", key(k), lid)).collect(),
                                vec![format!("{}/.0_u{}.dat", p, lid)],
                            )
                        }
                        // one glob over several directories: member k lives in its own directory
                        GlobDirs => (
                            dir.to_string(),
                            format!("*_d{}/m.dat", lid),
                            (0..children.len()).map(|k| format!("{}_d{}/m.dat", key(k), lid)).collect(),
                            vec![format!("{}/.0_d{}/m.dat", dir, lid)],
                        ),
                        ClsRange | ClsSet | ClsNeg | Qmark | SubClsRange | SubClsSet | SubClsNeg | SubQmark => {
                            let n = children.len();
                            let (sub, kind) = match st {
                                ClsRange => (false, 0),
                                ClsSet => (false, 1),
                                ClsNeg => (false, 2),
                                Qmark => (false, 3),
                                SubClsRange => (true, 0),
                                SubClsSet => (true, 1),
                                SubClsNeg => (true, 2),
                                _ => (true, 3),
                            };
                            let cdir = if sub { format!("{}/m{}", dir, lid) } else { dir.to_string() };
                            let pre = if sub { format!("m{}/", lid) } else { String::new() };
                            let letter = |k: usize| (b'a' + k as u8) as char;
                            // (pattern, member names, decoy names)
                            let (pat, names, decoys): (String, Vec<String>, Vec<String>) = match kind {
                                // digits only; a letter-keyed sibling must stay out
                                0 => (format!("r{}_[0-9].dat", lid), (0..n).map(|k| format!("r{}_{}.dat", lid, key(k))).collect(), vec![format!("r{}_x.dat", lid)]),
                                // exactly the listed letters (at least `[ab]`)
                                1 => (
                                    format!("s{}_[{}].dat", lid, (0..n.max(2)).map(letter).collect::<String>()),
                                    (0..n).map(|k| format!("s{}_{}.dat", lid, letter(k))).collect(),
                                    vec![format!("s{}_z.dat", lid)],
                                ),
                                // anything but x, at the start of the name: neither `x_..` nor the dot-file `._..`
                                2 => (format!("[!x]_n{}.dat", lid), (0..n).map(|k| format!("{}_n{}.dat", key(k), lid)).collect(), vec![format!("x_n{}.dat", lid), format!("._n{}.dat", lid)]),
                                // exactly one character, at the start of the name: neither `10_..` nor the dot-file `._..`
                                _ => (format!("?_q{}.dat", lid), (0..n).map(|k| format!("{}_q{}.dat", key(k), lid)).collect(), vec![format!("10_q{}.dat", lid), format!("._q{}.dat", lid)]),
                            };
                            let decoys = decoys.into_iter().map(|d| format!("{}/{}", cdir, d)).collect();
                            (cdir, format!("{}{}", pre, pat), names, decoys)
                        }
                        // letter case: the literal part of the pattern in lower case, siblings that differ from it only in case
                        CaseGlob => (
                            dir.to_string(),
                            format!("v{}-*.dat", lid),
                            (0..children.len()).map(|k| format!("v{}-{}.dat", lid, key(k))).collect(),
                            vec![format!("{}/V{}-0.dat", dir, lid), format!("{}/v{}-9.DAT", dir, lid)],
                        ),
                        // upper-case names, lower-case look-alikes next to them
                        UpperGlob => (
                            dir.to_string(),
                            format!("U{}_*.DAT", lid),
                            (0..children.len()).map(|k| format!("U{}_{}.DAT", lid, (b'A' + k as u8) as char)).collect(),
                            vec![format!("{}/u{}_a.dat", dir, lid), format!("{}/U{}_Z.dat", dir, lid)],
                        ),
                        // a literal include next to a file whose name differs only in case
                        CaseLit => {
                            let y = if kill { lit.clone() } else { format!("y{}.dat", first_fid) };
                            let mut up = y.clone();
                            up[..1].make_ascii_uppercase();
                            (dir.to_string(), y.clone(), vec![y], vec![format!("{}/{}", dir, up)])
                        }
                        // names full of dots; the wildcard starts the name
                        DotName => (
                            dir.to_string(),
                            format!("*.n{}.dat", lid),
                            (0..children.len()).map(|k| format!("{}.x.n{}.dat", key(k), lid)).collect(),
                            vec![format!("{}/.0.x.n{}.dat", dir, lid), format!("{}/0.x.n{}.dat.bak", dir, lid)],
                        ),
                        TwinLit | TwinGlob => panic!("harness bug: family-T label used as a layout style"),
                    };
                    content.push_str(&self.fmt.include_line(&text));
                    for h in &hidden {
                        self.l.hidden.insert(h.clone(), HIDDEN.to_string());
                    }
                    self.l.lines.push(Line { style: st, text, hidden, multi });
                    if kill {
                        // the children are not created at all: for the glob styles only the dot-file is left
                        self.next_lid += children.iter().map(count_lines).sum::<usize>();
                        self.dead = true;
                        continue;
                    }
                    let mut members = vec![];
                    for (k, ch) in children.iter().enumerate() {
                        let cpath = format!("{}/{}", cdir, names[k]);
                        let f = self.lay(ch, &parent_dir(&cpath), cpath);
                        members.push(f);
                    }
                    if multi {
                        for m in &members {
                            self.l.in_group.insert(*m);
                        }
                        self.l.groups.push(members);
                    }
                }
            }
        }
        self.l.files[fidx].1 = self.fmt.finish(content);
        fidx
    }
}

fn root_dir(base: &str) -> String {
    format!("{}/r1/r2/r3", base)
}

fn layout(shape: &str, styles: &[Style], base: &str, nomatch: Option<usize>) -> Laid {
    layout_fmt(shape, styles, base, nomatch, FMT_DEFAULT)
}

fn layout_fmt(shape: &str, styles: &[Style], base: &str, nomatch: Option<usize>, fmt: Fmt) -> Laid {
    layout_texts(shape, styles, base, nomatch, fmt, None)
}

fn layout_texts(shape: &str, styles: &[Style], base: &str, nomatch: Option<usize>, fmt: Fmt, texts: Option<&[String]>) -> Laid {
    let node = parse_shape(shape);
    let rd = root_dir(base);
    let root = format!("{}/main.ledger", rd);
    let mut b = Builder {
        texts,
        fmt,
        base,
        styles,
        next_lid: 0,
        dead: false,
        l: Laid { root: root.clone(), files: vec![], hidden: BTreeMap::new(), dirs: BTreeSet::new(), expect: vec![], lines: vec![], groups: vec![], in_group: BTreeSet::new(), nomatch },
    };
    b.lay(&node, &rd, root);
    assert!(b.next_lid == styles.len(), "harness bug: style vector length");
    b.l
}

fn render(l: &Laid) -> String {
    let mut s = String::new();
    for (p, c) in &l.files {
        s.push_str(&format!("=== {} ===\n{}", p, c));
    }
    for (p, c) in &l.hidden {
        s.push_str(&format!("=== {} (decoy, must not be loaded) ===\n{}", p, c));
    }
    for d in &l.dirs {
        s.push_str(&format!("=== {}/ (directory) ===\n", d));
    }
    s
}

/// `render` for big trees: the first 6 and the last 2 files only
fn render_short(l: &Laid) -> String {
    if l.files.len() <= 10 {
        return render(l);
    }
    let mut s = String::new();
    for (p, c) in l.files.iter().take(6) {
        s.push_str(&format!("=== {} ===\n{}", p, c));
    }
    s.push_str(&format!("... {} more files of the same kind ...\n", l.files.len() - 8));
    for (p, c) in l.files.iter().skip(l.files.len() - 2) {
        s.push_str(&format!("=== {} ===\n{}", p, c));
    }
    for p in l.hidden.keys() {
        s.push_str(&format!("=== {} (decoy, must not be loaded) ===\n", p));
    }
    s
}

fn style_names(st: &[Style]) -> String {
    st.iter().map(|s| format!("{:?}", s)).collect::<Vec<_>>().join(",")
}

// ------------------------------------------------------------------------------------------
// Running the real code

/// What the callback saw: 0..=5 = that entry of the ledger, HID = the dot-file's entry, SHR = the entry of the shared
/// file of the diamond family, INC = an include line,
/// OTHER = anything else (its Debug rendering is kept in `other`).
const HID: u8 = 6;
const SHR: u8 = 7;
const INC: u8 = 8;
const OTHER: u8 = 9;

#[derive(Default)]
struct Seen {
    entries: Vec<(PathBuf, u8)>,
    other: Vec<String>,
    include_delivered: bool,
}

fn collect<F: load::FileSystem>(known: &Known, loader: &load::Loader<F>) -> (Seen, Result<(), load::LoadError>) {
    let mut seen = Seen::default();
    let r = loader.load(|path: &Path, _pctx: &parse::ParsedContext<'_>, entry: &syntax::plain::LedgerEntry<'_>| -> Result<(), load::LoadError> {
        // LedgerEntry is invariant in its lifetime (GAT in Decoration), so `==` against the 'static reference entries
        // needs the lifetimes to be unified by hand; the reference is used for the comparison only, inside this call.
        let e: &syntax::plain::LedgerEntry<'static> = unsafe { std::mem::transmute::<&syntax::plain::LedgerEntry<'_>, &syntax::plain::LedgerEntry<'static>>(entry) };
        let code = if matches!(entry, syntax::LedgerEntry::Include(_)) {
            seen.include_delivered = true;
            INC
        } else {
            match known.entries.iter().position(|k| k == e) {
                Some(i) => known.codes[i],
                None => {
                    seen.other.push(format!("{:?}", entry));
                    OTHER
                }
            }
        };
        seen.entries.push((path.to_path_buf(), code));
        Ok(())
    });
    (seen, r)
}

fn parse_static(text: String) -> Vec<syntax::plain::LedgerEntry<'static>> {
    let t: &'static str = Box::leak(text.into_boxed_str());
    parse::parse_ledger(&parse::ParseOptions::default(), t).map(|r| r.map(|(_c, e)| e).unwrap_or_else(|e| panic!("harness bug: reference text does not parse: {}", e))).collect()
}

fn load_err_variant(e: &load::LoadError) -> String {
    match e {
        load::LoadError::IO(io, _) => format!("IO-{:?}", io.kind()),
        other => {
            let d = format!("{:?}", other);
            d.split(|c: char| !c.is_alphanumeric()).next().unwrap_or("").to_string()
        }
    }
}

fn lexical_norm(p: &Path) -> String {
    let mut out: Vec<String> = vec![];
    for c in p.components() {
        match c {
            std::path::Component::CurDir => {}
            std::path::Component::ParentDir => {
                out.pop();
            }
            std::path::Component::RootDir => {}
            other => out.push(other.as_os_str().to_string_lossy().to_string()),
        }
    }
    format!("/{}", out.join("/"))
}

/// balance and register text exactly as cli BalanceCmd / RegisterCmd print them
fn fake_reports(files: &[(&str, &str)], root: &str) -> Result<(String, String), String> {
    oka::with_ledger(files, root, None, |r| match r {
        Ok((l, ctx)) => {
            let mut bal = String::new();
            let b = l.balance(ctx, &report::query::BalanceQuery::default()).map_err(|e| format!("balance query failed: {}", e))?;
            for (account, amount) in b.into_owned().into_vec() {
                bal.push_str(&format!("{}: {}\n", account.as_str(), amount.as_inline_display()));
            }
            let mut reg = String::new();
            let mut run = report::Amount::default();
            for p in l.postings(ctx, &report::query::PostingQuery { account: None }) {
                run += p.amount.clone();
                reg.push_str(&format!("{} {} {}\n", p.account.as_str(), p.amount.as_inline_display(), run.as_inline_display()));
            }
            Ok((bal, reg))
        }
        Err(e) => Err(format!("{}: {}", e.variant, e.rendered)),
    })
}

fn run_cli(args: &[&str]) -> String {
    use clap::Parser as _;
    let cli = match okane::cmd::Cli::try_parse_from(args) {
        Ok(c) => c,
        Err(e) => panic!("harness bug: clap rejects {:?}: {}", args, e),
    };
    let mut out: Vec<u8> = vec![];
    match cli.run(&mut out) {
        Ok(()) => format!("EXIT 0\n{}", String::from_utf8_lossy(&out)),
        Err(err) => {
            use std::error::Error;
            let mut s = format!("EXIT 1\n{}--stderr--\n{}\n", String::from_utf8_lossy(&out), err);
            let mut cur: &dyn Error = &err;
            while let Some(src) = cur.source() {
                s.push_str(&format!("Caused by {}\n", src));
                cur = src;
            }
            s
        }
    }
}

const CLI_CMDS: [&str; 4] = ["balance", "register", "flatten", "accounts"];

fn cli_outputs(root: &str) -> Vec<String> {
    vec![
        run_cli(&["okane", "balance", "--now", "2024-02-01", root]),
        run_cli(&["okane", "register", "--now", "2024-02-01", root]),
        run_cli(&["okane", "primitive", "flatten", root]),
        run_cli(&["okane", "accounts", root]),
    ]
}

// ------------------------------------------------------------------------------------------
// Reference + oracle

/// The entries the callback may legitimately (or illegitimately) see, with the code they are recorded as. The first 8
/// are the 6 ledger entries, the decoy entry (HID) and the shared-file entry (SHR); further ones are the same ledger
/// entries as parsed from other textual forms (CRLF, unterminated last line) when those parse to a different value.
struct Known {
    entries: Vec<syntax::plain::LedgerEntry<'static>>,
    codes: Vec<u8>,
}

struct Baseline {
    known: Known,
    /// the ledger with CRLF line ends loads to the same entries and reports
    crlf_ok: bool,
    balance: String,
    register: String,
}

fn baseline() -> Baseline {
    let text = unsplit_text();
    let mut known = parse_static(text.clone());
    if known.len() != N {
        panic!("harness bug: the unsplit ledger parses as {} entries", known.len());
    }
    let h = parse_static(HIDDEN.to_string());
    assert!(h.len() == 1, "harness bug: dot-file content");
    known.extend(h);
    let sh = parse_static(SHARED.to_string());
    assert!(sh.len() == 1, "harness bug: shared content");
    known.extend(sh);
    for i in 0..known.len() {
        for j in 0..i {
            assert!(known[i] != known[j], "harness bug: entries {} and {} are indistinguishable", i, j);
        }
    }
    let codes: Vec<u8> = (0..known.len() as u8).collect();
    let mut known = Known { entries: known, codes };
    // other textual forms of the same entries: every entry alone without its final new-lines, with one new-line, with CRLF
    let mut crlf_parses = true;
    for (i, e) in ENTRIES.iter().enumerate() {
        let t = e.trim_end_matches('\n');
        for form in [t.to_string(), format!("{}\n", t), t.replace('\n', "\r\n"), format!("{}\r\n", t.replace('\n', "\r\n")), e.replace('\n', "\r\n")] {
            let is_crlf = form.contains('\r');
            let parsed: Result<Vec<_>, _> = parse::parse_ledger::<syntax::plain::Ident>(&parse::ParseOptions::default(), Box::leak(form.into_boxed_str())).map(|r| r.map(|(_c, e)| e)).collect();
            match parsed {
                Ok(v) if v.len() == 1 => {
                    if !known.entries.contains(&v[0]) {
                        known.entries.push(v.into_iter().next().unwrap());
                        known.codes.push(i as u8);
                    }
                }
                _ => {
                    if is_crlf {
                        crlf_parses = false;
                    } else {
                        panic!("harness bug: entry {} without its final new-line does not parse as one entry", i);
                    }
                }
            }
        }
    }
    let files = [("/v/c11/main.ledger", text.as_str())];
    let (seen, r) = collect(&known, &oka::fake_loader(&files, "/v/c11/main.ledger"));
    if r.is_err() || seen.entries.iter().map(|e| e.1).collect::<Vec<u8>>() != vec![0, 1, 2, 3, 4, 5] {
        panic!("harness bug: the unsplit ledger does not load as its {} entries: {:?}", N, r);
    }
    let hf = [("/v/c11/h.ledger", HIDDEN)];
    let (balance, register) = match fake_reports(&files, "/v/c11/main.ledger") {
        Ok(x) => x,
        Err(e) => panic!("harness bug: the unsplit ledger is rejected: {}", e),
    };
    // the dot-file alone must be rejected (it is unbalanced), otherwise loading it would go unnoticed in the reports
    if fake_reports(&hf, "/v/c11/h.ledger").is_ok() {
        panic!("harness bug: the dot-file content is accepted");
    }
    let crlf_text = text.replace('\n', "\r\n");
    let cf = [("/v/c11/main.ledger", crlf_text.as_str())];
    let (cseen, cr) = collect(&known, &oka::fake_loader(&cf, "/v/c11/main.ledger"));
    let crlf_ok = crlf_parses && cr.is_ok() && cseen.entries.iter().map(|e| e.1).collect::<Vec<u8>>() == vec![0, 1, 2, 3, 4, 5] && fake_reports(&cf, "/v/c11/main.ledger") == Ok((balance.clone(), register.clone()));
    Baseline { known, crlf_ok, balance, register }
}

/// how many of the 5 adjacent swaps of the ledger change the reports (or make them fail)
fn order_sensitivity(b: &Baseline) -> u64 {
    let mut n = 0;
    for i in 0..N - 1 {
        let mut v: Vec<&str> = ENTRIES.to_vec();
        v.swap(i, i + 1);
        let t = v.concat();
        let r = fake_reports(&[("/v/c11/main.ledger", t.as_str())], "/v/c11/main.ledger");
        if r != Ok((b.balance.clone(), b.register.clone())) {
            n += 1;
        }
    }
    n
}

fn culprit_by_text(l: &Laid, hay: &str) -> String {
    // longest include text contained in the error rendering
    let mut best: Option<&Line> = None;
    for ln in &l.lines {
        if hay.contains(&ln.text) && best.map(|b| b.text.len() < ln.text.len()).unwrap_or(true) {
            best = Some(ln);
        }
    }
    best.map(|b| format!("{:?}", b.style)).unwrap_or_else(|| "unknown".into())
}

/// Compare the delivered sequence with the expected one. `norm` maps a delivered path to the canonical spelling
/// used in `l.files`.
fn judge_sequence(fs: &str, l: &Laid, b: &Baseline, seen: &Seen, res: &Result<(), load::LoadError>, norm: &dyn Fn(&Path) -> String) -> Option<Outcome> {
    let expect: Vec<u8> = l.expect.iter().map(|(_, e)| *e as u8).collect();
    let got: Vec<u8> = seen.entries.iter().map(|e| e.1).collect();
    let show = || {
        let mut s = String::from("delivered (path, entry):\n");
        let mut others = seen.other.iter();
        for (p, c) in &seen.entries {
            let what = match *c {
                HID => "DOT-FILE ENTRY".to_string(),
                SHR => "SHARED-FILE ENTRY".to_string(),
                INC => "INCLUDE LINE".to_string(),
                OTHER => format!("unknown entry {}", others.next().map(|x| x.chars().take(80).collect::<String>()).unwrap_or_default()),
                i => format!("entry {}", i),
            };
            s.push_str(&format!("  {}  {}\n", p.display(), what));
        }
        s.push_str("expected:\n");
        for (f, e) in &l.expect {
            s.push_str(&format!("  {}  entry {}\n", l.files[*f].0, e));
        }
        s.push_str(&format!("loader result: {:?}\n", res));
        s
    };
    let _ = b;
    // family T: the tree repeats one include text in different directories
    let tw = if l.lines.iter().any(|x| matches!(x.style, TwinLit | TwinGlob)) { "/same-text-in-several-directories" } else { "" };
    if seen.include_delivered {
        return Some(Outcome::violation(format!("include-line-delivered/{}", fs), show()));
    }
    if let Some((p, _)) = seen.entries.iter().find(|e| e.1 == HID) {
        let np = norm(p);
        let st = l.lines.iter().find(|ln| ln.hidden.iter().any(|h| *h == np)).map(|ln| format!("{:?}", ln.style)).unwrap_or_else(|| "unknown".into());
        let dot = np.rsplit('/').take(2).any(|c| c.starts_with('.'));
        return Some(Outcome::violation(format!("{}/{}/{}", if dot { "dot-file-loaded" } else { "file-outside-the-pattern-loaded" }, fs, st), show()));
    }
    if l.nomatch.is_some() {
        // delivered entries must be a prefix of the expansion up to the failing include
        if got.len() > expect.len() || got[..] != expect[..got.len()] {
            return Some(Outcome::violation(format!("no-match/{}/delivered-not-a-prefix", fs), show()));
        }
        return None;
    }
    if let Err(e) = res {
        let v = load_err_variant(e);
        let hay = format!("{:?} {}", e, e);
        return Some(Outcome::violation(format!("split-load-fails/{}/{}/{}{}", fs, v, culprit_by_text(l, &hay), tw), show()));
    }
    if got != expect {
        let mut a = got.clone();
        let mut c = expect.clone();
        a.sort();
        c.sort();
        if a == c {
            let first = got.iter().zip(expect.iter()).position(|(x, y)| x != y).unwrap();
            let kind = if l.in_group.contains(&l.expect[first].0) { "inside-glob-group" } else { "around-include-line" };
            return Some(Outcome::violation(format!("order-changed/{}/{}{}", fs, kind, tw), show()));
        }
        return Some(Outcome::violation(format!("entries-lost-or-duplicated/{}{}", fs, tw), show()));
    }
    for (i, (p, _)) in seen.entries.iter().enumerate() {
        if norm(p) != l.files[l.expect[i].0].0 {
            return Some(Outcome::violation(format!("entry-attributed-to-wrong-file/{}{}", fs, tw), show()));
        }
    }
    None
}

fn tree_class(l: &Laid, depth: usize) -> String {
    let g = l.lines.iter().filter(|x| x.style.is_glob()).count();
    let kind = if l.lines.is_empty() {
        "unsplit"
    } else if g == 0 {
        "literal"
    } else if g == l.lines.len() {
        "glob"
    } else {
        "mixed"
    };
    let multi = if l.lines.iter().any(|x| x.multi) { "+multi" } else { "" };
    let twin = if l.lines.iter().any(|x| matches!(x.style, TwinLit | TwinGlob)) { "same-text/" } else { "" };
    format!("{}depth{}/{}{}", twin, depth, kind, multi)
}

fn fake_files(l: &Laid) -> Vec<(&str, &str)> {
    let mut v: Vec<(&str, &str)> = l.files.iter().map(|(p, c)| (p.as_str(), c.as_str())).collect();
    v.extend(l.hidden.iter().map(|(p, c)| (p.as_str(), c.as_str())));
    v
}

const FAKE_BASE: &str = "/v/c11";

fn judge_fake_split(b: &Baseline, l: &Laid, depth: usize, spelling: usize) -> Outcome {
    let files = fake_files(l);
    let root = real_root_spelling(l, spelling);
    let (seen, res) = collect(&b.known, &oka::fake_loader(&files, &root));
    if let Some(v) = judge_sequence("fake", l, b, &seen, &res, &|p| lexical_norm(p)) {
        return v;
    }
    match fake_reports(&files, &root) {
        Err(e) => Outcome::violation(format!("split-report-fails/fake/{}", e.split(':').next().unwrap_or("")), format!("report::process fails on the split ledger although the callback sequence is right: {}", e)),
        Ok((bal, reg)) => {
            if bal != b.balance {
                return Outcome::violation("report-differs/fake/balance", format!("--- unsplit ---\n{}--- split ---\n{}", b.balance, bal));
            }
            if reg != b.register {
                return Outcome::violation("report-differs/fake/register", format!("--- unsplit ---\n{}--- split ---\n{}", b.register, reg));
            }
            Outcome::pass(format!("same/fake/{}", tree_class(l, depth)))
        }
    }
}

/// Family W: the verdict of the ordinary split oracle, re-labelled with the textual form. Forms with blanks after the
/// include path are DON'T-CARE (the documented grammar `path ::= no-new-line+` makes them part of the path, okane trims
/// them); so is a CRLF form if okane does not read the unsplit ledger in CRLF to the same entries and reports.
fn relabel_fmt(b: &Baseline, fmt: &Fmt, o: Outcome) -> Outcome {
    use crate::fw::Verdict;
    let key = format!(
        "{}+{}+{}",
        ["LF", "CRLF-on-include-lines", "CRLF"][fmt.eol as usize],
        ["file-end-as-generated", "one-line-end", "unterminated-last-line"][fmt.eof as usize],
        if fmt.gap { "blank-lines" } else { "no-blank-lines" }
    );
    let verdict_word = match &o.verdict {
        Verdict::Pass => "same".to_string(),
        Verdict::DontCare => "dont-care".to_string(),
        Verdict::Violation { sig, .. } => format!("differs:{}", sig.split('/').next().unwrap_or("")),
    };
    if !fmt.trail.is_empty() {
        return Outcome::dont_care(format!("text-form/blanks-after-include-path/{}", verdict_word));
    }
    if fmt.eol == 2 && !b.crlf_ok {
        return Outcome::dont_care(format!("text-form/CRLF-ledger-not-read-like-LF/{}", verdict_word));
    }
    match o.verdict {
        Verdict::Pass => Outcome::pass(format!("text-form/{}/same", key.rsplitn(2, '+').nth(1).unwrap_or(&key))),
        Verdict::DontCare => o,
        Verdict::Violation { sig, detail } => {
            // a parse error does not depend on the path style: keep "<clause>/<fs>/Parse" only
            let parts: Vec<&str> = sig.split('/').collect();
            let base = if parts.len() > 3 && parts[2] == "Parse" { parts[..3].join("/") } else { sig.clone() };
            Outcome::violation(format!("{}/text-form/{}", base, key.rsplitn(2, '+').nth(1).unwrap_or(&key)), detail)
        }
    }
}

fn fmt_variants(full: bool) -> Vec<Fmt> {
    let deco: &[(&'static str, &'static str)] = if full { &[(" ", ""), ("  ", ""), ("\t", ""), (" \t ", ""), (" ", " "), (" ", "\t"), (" ", "  \t")] } else { &[(" ", "")] };
    let mut v = vec![];
    for (sep, trail) in deco {
        for eol in 0..3u8 {
            for gap in [true, false] {
                for eof in 0..3u8 {
                    let f = Fmt { sep, trail, eol, gap, eof };
                    if f != FMT_DEFAULT {
                        v.push(f);
                    }
                }
            }
        }
    }
    v
}

fn judge_fake_nomatch(b: &Baseline, l: &Laid) -> Outcome {
    let files = fake_files(l);
    let (seen, res) = collect(&b.known, &oka::fake_loader(&files, &l.root));
    let line = &l.lines[l.nomatch.unwrap()];
    if let Some(v) = judge_sequence("fake", l, b, &seen, &res, &|p| lexical_norm(p)) {
        return v;
    }
    let rep = fake_reports(&files, &l.root);
    match (&res, &rep) {
        (Ok(()), _) => Outcome::violation(format!("no-match/fake/load-succeeds/{:?}", line.style), format!("include {} matches no file but Loader::load returns Ok", line.text)),
        (Err(_), Ok(_)) => Outcome::violation(format!("no-match/fake/report-succeeds/{:?}", line.style), format!("include {} matches no file but report::process returns Ok", line.text)),
        (Err(e), Err(r)) => {
            let names = format!("{:?} {}", e, e).contains(&line.text);
            let rv = r.split(':').next().unwrap_or("").to_string();
            Outcome::pass(format!("no-match/fake/error-{}/{}/report-{}", load_err_variant(e), if names { "names-pattern" } else { "pattern-not-named" }, rv))
        }
    }
}

// ------------------------------------------------------------------------------------------
// Recursion / double include

#[derive(Clone, Copy, Debug, PartialEq, Eq)]
enum Back {
    Rel,
    DotRel,
    AbsPath,
    GlobRel,
}
const BACKS: [Back; 4] = [Back::Rel, Back::DotRel, Back::AbsPath, Back::GlobRel];

fn rel_path(from_dir: &str, to: &str) -> String {
    let a: Vec<&str> = from_dir.split('/').filter(|x| !x.is_empty()).collect();
    let b: Vec<&str> = to.split('/').filter(|x| !x.is_empty()).collect();
    let mut i = 0;
    while i < a.len() && i + 1 < b.len() && a[i] == b[i] {
        i += 1;
    }
    let mut parts: Vec<String> = vec![];
    for _ in i..a.len() {
        parts.push("..".into());
    }
    for x in &b[i..] {
        parts.push(x.to_string());
    }
    parts.join("/")
}

fn back_text(back: Back, from_dir: &str, to: &str) -> String {
    let star = |s: &str| {
        let i = s.rfind('.').unwrap();
        format!("{}*{}", &s[..i], &s[i..])
    };
    match back {
        Back::Rel => rel_path(from_dir, to),
        Back::DotRel => format!("./{}", rel_path(from_dir, to)),
        Back::AbsPath => to.to_string(),
        Back::GlobRel => star(&rel_path(from_dir, to)),
    }
}

fn chain_shape(k: usize) -> &'static str {
    match k {
        0 => "EEEEEE",
        1 => "E[EEEE]E",
        2 => "E[E[EE]E]E",
        3 => "E[E[E[E]E]E]",
        _ => panic!("harness bug: chain depth"),
    }
}

// ------------------------------------------------------------------------------------------
// Family T: the SAME relative include text in different directories

/// The include text every non-outer line of a family-T tree carries (identical in every directory).
#[derive(Clone, Copy, Debug, PartialEq, Eq)]
enum Inner {
    Lit,
    DotLit,
    DotMixLit,
    SubLit,
    Star,
    Cls,
    Qm,
    SubStar,
    SubCls,
}
const INNERS: [Inner; 9] = [Inner::Lit, Inner::DotLit, Inner::DotMixLit, Inner::SubLit, Inner::Star, Inner::Cls, Inner::Qm, Inner::SubStar, Inner::SubCls];
const INNERS_SUB: [Inner; 3] = [Inner::SubLit, Inner::SubStar, Inner::SubCls];

impl Inner {
    fn is_glob(self) -> bool {
        matches!(self, Inner::Star | Inner::Cls | Inner::Qm | Inner::SubStar | Inner::SubCls)
    }
    /// (include text, member names relative to the including directory, decoys, directories that must exist)
    fn spec(self, n: usize) -> (String, Vec<String>, Vec<String>, Vec<String>) {
        let key = |k: usize| (b'1' + k as u8) as char;
        let v = |x: &[&str]| x.iter().map(|y| y.to_string()).collect::<Vec<String>>();
        match self {
            Inner::Lit => ("part.dat".into(), v(&["part.dat"]), vec![], vec![]),
            Inner::DotLit => ("./part.dat".into(), v(&["part.dat"]), vec![], vec![]),
            Inner::DotMixLit => ("./x/../part.dat".into(), v(&["part.dat"]), vec![], v(&["x"])),
            Inner::SubLit => ("sub/part.dat".into(), v(&["sub/part.dat"]), vec![], vec![]),
            Inner::Star => ("*_p.dat".into(), (0..n).map(|k| format!("{}_p.dat", key(k))).collect(), v(&[".0_p.dat"]), vec![]),
            Inner::Cls => ("p_[0-9].dat".into(), (0..n).map(|k| format!("p_{}.dat", key(k))).collect(), v(&["p_x.dat"]), vec![]),
            Inner::Qm => ("?_q.dat".into(), (0..n).map(|k| format!("{}_q.dat", key(k))).collect(), v(&["10_q.dat", "._q.dat"]), vec![]),
            Inner::SubStar => ("sub/*.ledger".into(), (0..n).map(|k| format!("sub/{}.ledger", key(k))).collect(), v(&["sub/.hidden.ledger"]), vec![]),
            Inner::SubCls => ("sub/p_[0-9].dat".into(), (0..n).map(|k| format!("sub/p_{}.dat", key(k))).collect(), v(&["sub/p_x.dat"]), vec![]),
        }
    }
}

/// Is `shape` a twin shape? The root holds either k in {2,3} include lines with one child each, or one include line
/// with k children; every such child ("year file") holds exactly one include line whose children are leaves.
/// Returns (k, the root uses one glob, every inner line has exactly one child).
fn twin_shape(n: &Node) -> Option<(usize, bool, bool)> {
    let incs: Vec<&Vec<Node>> = n.items.iter().filter_map(|i| if let Item::Inc(c) = i { Some(c) } else { None }).collect();
    let (years, glob): (Vec<&Node>, bool) = if incs.len() == 1 && incs[0].len() >= 2 {
        (incs[0].iter().collect(), true)
    } else if incs.len() >= 2 && incs.iter().all(|c| c.len() == 1) {
        (incs.iter().map(|c| &c[0]).collect(), false)
    } else {
        return None;
    };
    if years.len() > 3 {
        return None;
    }
    let mut single = true;
    for y in &years {
        let inner: Vec<&Vec<Node>> = y.items.iter().filter_map(|i| if let Item::Inc(c) = i { Some(c) } else { None }).collect();
        if inner.len() != 1 || inner[0].iter().any(|leaf| count_lines(leaf) != 0) {
            return None;
        }
        single &= inner[0].len() == 1;
    }
    Some((years.len(), glob, single))
}

struct FixedBuilder<'a> {
    base: &'a str,
    kind: Inner,
    twin: bool,
    l: Laid,
}

impl<'a> FixedBuilder<'a> {
    fn lay(&mut self, node: &Node, dir: &str, path: String, level: usize) -> usize {
        let fidx = self.l.files.len();
        self.l.files.push((path, String::new()));
        let mut content = String::new();
        let mut outer_seen = 0usize;
        for it in &node.items {
            match it {
                Item::E(i) => {
                    content.push_str(ENTRIES[*i]);
                    self.l.expect.push((fidx, *i));
                }
                Item::Inc(children) => {
                    let n = children.len();
                    let (style, text, names, decoys, xdirs): (Style, String, Vec<String>, Vec<String>, Vec<String>) = if self.twin && level == 0 {
                        if n == 1 {
                            // literal outer line number j: directory d<j>
                            outer_seen += 1;
                            let t = format!("d{}/year.dat", outer_seen);
                            (TwinLit, t.clone(), vec![t], vec![], vec![])
                        } else {
                            (TwinGlob, "d*/year.dat".to_string(), (0..n).map(|k| format!("d{}/year.dat", k + 1)).collect(), vec![".d0/year.dat".to_string()], vec![])
                        }
                    } else {
                        let (t, names, decoys, xd) = self.kind.spec(n);
                        (if self.kind.is_glob() { TwinGlob } else { TwinLit }, t, names, decoys, xd)
                    };
                    assert!(names.len() == n, "harness bug: literal same-text include with several children");
                    content.push_str(&format!("include {}\n\n", text));
                    let decoys: Vec<String> = decoys.iter().map(|d| format!("{}/{}", dir, d)).collect();
                    for h in &decoys {
                        self.l.hidden.insert(h.clone(), HIDDEN.to_string());
                    }
                    for x in xdirs {
                        self.l.dirs.insert(format!("{}/{}", dir, x));
                    }
                    self.l.lines.push(Line { style, text, hidden: decoys, multi: n > 1 });
                    let mut members = vec![];
                    for (k, ch) in children.iter().enumerate() {
                        let cpath = format!("{}/{}", dir, names[k]);
                        members.push(self.lay(ch, &parent_dir(&cpath), cpath, level + 1));
                    }
                    if n > 1 {
                        for m in &members {
                            self.l.in_group.insert(*m);
                        }
                        self.l.groups.push(members);
                    }
                }
            }
        }
        self.l.files[fidx].1 = content;
        fidx
    }
}

/// twin = true: `shape` is a twin shape, the year files live in d1/, d2/(, d3/) and all carry the same inner include text;
/// twin = false: every include line of `shape` (a chain) carries the same text, resolving one directory deeper each time.
fn layout_fixed(shape: &str, kind: Inner, twin: bool, base: &str) -> Laid {
    let node = parse_shape(shape);
    let rd = root_dir(base);
    let root = format!("{}/main.ledger", rd);
    let mut b = FixedBuilder { base, kind, twin, l: Laid { root: root.clone(), files: vec![], hidden: BTreeMap::new(), dirs: BTreeSet::new(), expect: vec![], lines: vec![], groups: vec![], in_group: BTreeSet::new(), nomatch: None } };
    b.lay(&node, &rd, root, 0);
    let _ = b.base;
    // the point of the family: at least two include lines in different directories carry the same text
    let mut texts: Vec<&str> = b.l.lines.iter().map(|x| x.text.as_str()).collect();
    texts.sort();
    assert!(texts.windows(2).any(|w| w[0] == w[1]), "harness bug: no repeated include text in a same-text layout");
    b.l
}

/// chain of depth k (file i includes file i+1 with `style`); file `from` gets a further include of file `to`
/// (to <= from: recursion; appended at the end of the file)
fn layout_back(base: &str, k: usize, style: Style, from: usize, to: usize, back: Back) -> (Laid, String) {
    let styles = vec![style; k];
    let mut l = layout(chain_shape(k), &styles, base, None);
    let from_dir = parent_dir(&l.files[from].0);
    let t = back_text(back, &from_dir, &l.files[to].0.clone());
    l.files[from].1.push_str(&format!("include {}\n\n", t));
    (l, t)
}

fn judge_recursive<F: load::FileSystem>(b: &Baseline, fs: &str, loader: &load::Loader<F>) -> Outcome {
    let (seen, res) = collect(&b.known, loader);
    match res {
        Err(e) => Outcome::pass(format!("recursive/{}/reported-{}", fs, load_err_variant(&e))),
        Ok(()) => Outcome::dont_care(format!("recursive/{}/load-returns-ok-after-{}-entries", fs, seen.entries.len().min(99))),
    }
}

/// Repeated, non-recursive include. variant 0: the root includes its child twice with the identical include line;
/// variant 1: diamond, two children A and B of the root both include a shared file (through `back`).
/// Returns the layout, the expected sequence when every include is expanded, and the one when a repeated file is skipped.
fn layout_repeat(base: &str, variant: usize, style: Style, back: Back) -> (Laid, Vec<(usize, u8)>, Vec<(usize, u8)>) {
    if variant == 0 {
        let mut l = layout(chain_shape(1), &[style], base, None);
        let t = l.lines[0].text.clone();
        l.files[0].1.push_str(&format!("include {}\n\n", t));
        let twice = vec![(0, 0), (1, 1), (1, 2), (1, 3), (1, 4), (0, 5), (1, 1), (1, 2), (1, 3), (1, 4)];
        let once = twice[..6].to_vec();
        (l, twice, once)
    } else {
        let mut l = layout("E[E][E]EEE", &[style, style], base, None);
        let shared = format!("{}/shared.dat", root_dir(base));
        for f in [1usize, 2] {
            let t = back_text(back, &parent_dir(&l.files[f].0), &shared);
            l.files[f].1.push_str(&format!("include {}\n\n", t));
        }
        l.files.push((shared, SHARED.to_string()));
        let twice = vec![(0, 0), (1, 1), (3, SHR), (2, 2), (3, SHR), (0, 3), (0, 4), (0, 5)];
        let once = vec![(0, 0), (1, 1), (3, SHR), (2, 2), (0, 3), (0, 4), (0, 5)];
        (l, twice, once)
    }
}

fn judge_repeat(fs: &str, l: &Laid, twice: &[(usize, u8)], once: &[(usize, u8)], seen: &Seen, res: &Result<(), load::LoadError>, norm: &dyn Fn(&Path) -> String) -> Outcome {
    let detail = || format!("delivered: {:?}\nloader result: {:?}", seen.entries, res);
    match res {
        Err(load::LoadError::RecursiveInclude(_)) => Outcome::violation(format!("repeated-include-reported-as-recursive/{}", fs), detail()),
        Err(e) => Outcome::violation(format!("repeated-include/{}/load-fails-{}", fs, load_err_variant(e)), detail()),
        Ok(()) => {
            let got: Vec<(String, u8)> = seen.entries.iter().map(|(p, c)| (norm(p), *c)).collect();
            let want = |v: &[(usize, u8)]| -> Vec<(String, u8)> { v.iter().map(|(f, c)| (l.files[*f].0.clone(), *c)).collect() };
            if got == want(twice) {
                Outcome::pass(format!("repeated-include/{}/expanded-every-time", fs))
            } else if got == want(once) {
                Outcome::dont_care(format!("repeated-include/{}/second-include-skipped", fs))
            } else {
                Outcome::violation(format!("repeated-include/{}/wrong-sequence", fs), detail())
            }
        }
    }
}

// ------------------------------------------------------------------------------------------
// Family E: faulty ledgers — the outcome of a refused ledger must not depend on where the file boundaries are

#[derive(Clone, Copy, Debug, PartialEq, Eq)]
enum Fault {
    /// a line that is no ledger syntax (LoadError::Parse)
    Garbage,
    /// a transaction with a false balance assertion (BookKeepError::BalanceAssertionFailure)
    BadAssert,
    /// an unbalanced transaction (BookKeepError::UnbalancedPostings)
    Unbalanced,
}
const FAULTS: [Fault; 3] = [Fault::Garbage, Fault::BadAssert, Fault::Unbalanced];

impl Fault {
    fn text(self) -> &'static str {
        match self {
            Fault::Garbage => "!!! this line is not ledger syntax\n\n",
            Fault::BadAssert => "2024/01/05 false assertion\n    Assets:Bank          0 CHF = 999 CHF\n    Equity:Opening       0 CHF\n\n",
            Fault::Unbalanced => "2024/01/06 unbalanced\n    Assets:Bank          1 CHF\n    Equity:Opening       1 CHF\n\n",
        }
    }
}

/// the first three entries of the ledger with one or two faults inserted: (description, entry texts)
fn faulty_ledgers() -> Vec<(String, Vec<String>)> {
    let base: Vec<String> = ENTRIES[..3].iter().map(|s| s.to_string()).collect();
    let mut out = vec![];
    let ins = |v: &Vec<String>, pos: usize, f: Fault| {
        let mut w = v.clone();
        w.insert(pos, f.text().to_string());
        w
    };
    for f in FAULTS {
        for p in 0..=3 {
            out.push((format!("{:?}@{}", f, p), ins(&base, p, f)));
        }
    }
    for f1 in FAULTS {
        for f2 in FAULTS {
            if f1 == f2 {
                continue;
            }
            // f1 stands before f2; p <= q are positions in the base ledger
            for p in 0..=3 {
                for q in p..=3 {
                    let w = ins(&base, q, f2);
                    out.push((format!("{:?}@{} then {:?}@{}", f1, p, f2, q), ins(&w, p, f1)));
                }
            }
        }
    }
    out
}

/// What one run shows of a refused ledger, free of file names: the entries delivered to a plain callback and how
/// that load ended, and how report::process ended (error family + variant).
#[derive(Debug, PartialEq, Eq, Clone)]
struct Refusal {
    delivered: Vec<usize>,
    load_end: String,
    process_end: String,
}

fn observe_refusal<F: load::FileSystem>(known: &[syntax::plain::LedgerEntry<'static>], hid: &syntax::plain::LedgerEntry<'static>, loader: &load::Loader<F>) -> Refusal {
    let (seen, res) = collect_k(known, hid, loader);
    let load_end = match &res {
        Ok(()) => "ok".to_string(),
        Err(e) => load_err_variant(e),
    };
    let arena = bumpalo::Bump::new();
    let mut ctx = report::ReportContext::new(&arena);
    let process_end = match report::process(&mut ctx, loader, &report::ProcessOptions { price_db_path: None }) {
        Ok(_) => "ok".to_string(),
        Err(e) => {
            let v = oka::err_view(&e);
            format!("{}:{}", v.kind, v.variant)
        }
    };
    Refusal { delivered: seen.iter().map(|e| e.1).collect(), load_end, process_end }
}

/// the parts of a CLI observation that do not mention file names: exit, stdout, top-level message
fn cli_refusal(o: &str) -> String {
    match o.split_once("--stderr--\n") {
        None => o.to_string(),
        Some((head, err)) => format!("{}--stderr--\n{}\n", head, err.lines().next().unwrap_or("")),
    }
}

fn parse_entries_lossy(texts: &[String]) -> Vec<syntax::plain::LedgerEntry<'static>> {
    // every text that is an entry on its own (the garbage line is none)
    let mut v = vec![];
    for t in texts {
        let leaked: &'static str = Box::leak(t.clone().into_boxed_str());
        let r: Result<Vec<_>, _> = parse::parse_ledger::<syntax::plain::Ident>(&parse::ParseOptions::default(), leaked).map(|r| r.map(|(_c, e)| e)).collect();
        if let Ok(mut es) = r {
            if es.len() == 1 {
                v.push(es.remove(0));
            }
        }
    }
    v
}

fn judge_fault(fs: &str, l: &Laid, texts: &[String], b: &Baseline, env: Option<&RealEnv>) -> Outcome {
    let known = parse_entries_lossy(texts);
    let hid = &b.known.entries[HID as usize];
    let unsplit: String = texts.concat();
    let (reference, got) = match env {
        None => {
            let uf = [("/v/c11/main.ledger", unsplit.as_str())];
            (observe_refusal(&known, hid, &oka::fake_loader(&uf, "/v/c11/main.ledger")), observe_refusal(&known, hid, &oka::fake_loader(&fake_files(l), &l.root)))
        }
        Some(env) => {
            let up = format!("{}/unsplit-e/main.ledger", env.scratch);
            std::fs::create_dir_all(parent_dir(&up)).expect("mkdir");
            std::fs::write(&up, &unsplit).expect("write");
            (
                observe_refusal(&known, hid, &load::new_loader(PathBuf::from(&up)).with_error_renderer(annotate_snippets::Renderer::plain())),
                observe_refusal(&known, hid, &load::new_loader(PathBuf::from(&l.root)).with_error_renderer(annotate_snippets::Renderer::plain())),
            )
        }
    };
    if reference.process_end == "ok" {
        panic!("harness bug: a faulty ledger is accepted: {:?}", reference);
    }
    let show = || format!("--- unsplit ---\n{:?}\n--- split ---\n{:?}", reference, got);
    if got.process_end != reference.process_end {
        return Outcome::violation(format!("refused-ledger/{}/another-fault-wins/unsplit-{}/split-{}", fs, reference.process_end, got.process_end), show());
    }
    if got.delivered != reference.delivered || got.load_end != reference.load_end {
        let kind = if got.delivered.len() < reference.delivered.len() { "split-delivers-less" } else if got.delivered.len() > reference.delivered.len() { "split-delivers-more" } else { "differs" };
        return Outcome::violation(format!("refused-ledger/{}/delivered-before-the-failure/{}", fs, kind), show());
    }
    if let Some(env) = env {
        let up = format!("{}/unsplit-e/main.ledger", env.scratch);
        let base = cli_outputs(&up);
        let outs = cli_outputs(&l.root);
        for (i, o) in outs.iter().enumerate() {
            if cli_refusal(o) != cli_refusal(&base[i]) {
                return Outcome::violation(format!("refused-ledger/{}/cli-{}-differs", fs, CLI_CMDS[i]), format!("--- unsplit ---\n{}--- split ---\n{}", base[i], o));
            }
        }
    }
    Outcome::pass(format!("refused-ledger/{}/same/{}/after-{}-entries", fs, reference.process_end, reference.delivered.len()))
}

// ------------------------------------------------------------------------------------------
// Family RS: symbolic links (real FS only)

#[derive(Clone, Copy, Debug, PartialEq, Eq)]
enum Sym {
    /// the include names `lnk.dat`, a link to the file next to it
    FileAliasSameDir,
    /// the include goes through `ld`, a link to the directory of the file
    DirLink,
    /// the include is the glob `l*.dat` matching only the link next to the file
    GlobOverAlias,
    /// the include names a link whose target lives (with everything it includes) in another directory
    FileLinkElsewhere,
    /// the same, and next to the link sits a decoy with the name the target's own include asks for
    FileLinkElsewhereWithDecoy,
    /// the root itself is loaded through a link next to it / in another directory
    RootAliasSameDir,
    RootLinkElsewhere,
}
const SYMS: [Sym; 7] = [Sym::FileAliasSameDir, Sym::DirLink, Sym::GlobOverAlias, Sym::FileLinkElsewhere, Sym::FileLinkElsewhereWithDecoy, Sym::RootAliasSameDir, Sym::RootLinkElsewhere];

struct SymCase {
    l: Laid,
    /// (link, target as written into the link)
    links: Vec<(String, String)>,
    root: String,
    /// both readings of "relative to the including file" (next to the link / next to the file read) give the same tree
    determined: bool,
}

/// chain of depth k (k = 1: root -> f1; k = 2: root -> f1 -> f2), file i in <root dir>/d1/../di/ci.dat; level `lvl` is
/// reached through a link of kind `sym`
fn layout_symlink(base: &str, k: usize, lvl: usize, sym: Sym) -> SymCase {
    let rd = root_dir(base);
    let elsewhere = matches!(sym, Sym::FileLinkElsewhere | Sym::FileLinkElsewhereWithDecoy);
    // directory of file i: normally nested d1/d2; with a link elsewhere the files from `lvl` on live under store/
    let dir_of = |i: usize| -> String {
        let mut d = if elsewhere && i >= lvl { format!("{}/store", base) } else { rd.clone() };
        let from = if elsewhere && i >= lvl { lvl } else { 1 };
        for j in from..=i {
            d = format!("{}/d{}", d, j);
        }
        d
    };
    let mut links = vec![];
    let mut hidden = BTreeMap::new();
    let mut dirs = BTreeSet::new();
    // include text of file i-1 for file i
    let mut inc = |i: usize| -> String {
        if i != lvl {
            return format!("d{}/c{}.dat", i, i);
        }
        let parent_dir_path = if i == 1 { rd.clone() } else { dir_of(i - 1) };
        match sym {
            Sym::FileAliasSameDir => {
                links.push((format!("{}/lnk.dat", dir_of(i)), format!("c{}.dat", i)));
                format!("d{}/lnk.dat", i)
            }
            Sym::GlobOverAlias => {
                links.push((format!("{}/lnk.dat", dir_of(i)), format!("c{}.dat", i)));
                format!("d{}/l*.dat", i)
            }
            Sym::DirLink => {
                links.push((format!("{}/ld", parent_dir_path), format!("d{}", i)));
                format!("ld/c{}.dat", i)
            }
            Sym::FileLinkElsewhere | Sym::FileLinkElsewhereWithDecoy => {
                let link_dir = format!("{}/d{}", parent_dir_path, i);
                dirs.insert(link_dir.clone());
                links.push((format!("{}/c{}.dat", link_dir, i), format!("{}/c{}.dat", dir_of(i), i)));
                if sym == Sym::FileLinkElsewhereWithDecoy && i < k {
                    hidden.insert(format!("{}/d{}/c{}.dat", link_dir, i + 1, i + 1), HIDDEN.to_string());
                }
                format!("d{}/c{}.dat", i, i)
            }
            _ => format!("d{}/c{}.dat", i, i),
        }
    };
    let contents: Vec<String> = if k == 1 {
        vec![format!("{}include {}\n\n{}", ENTRIES[0], inc(1), ENTRIES[5]), ENTRIES[1..5].concat()]
    } else {
        vec![format!("{}include {}\n\n{}", ENTRIES[0], inc(1), ENTRIES[5]), format!("{}include {}\n\n{}", ENTRIES[1], inc(2), ENTRIES[4]), ENTRIES[2..4].concat()]
    };
    let mut l = Laid { root: format!("{}/main.ledger", rd), files: vec![], hidden, dirs, expect: vec![], lines: vec![], groups: vec![], in_group: BTreeSet::new(), nomatch: None };
    l.files.push((l.root.clone(), contents[0].clone()));
    for i in 1..=k {
        l.files.push((format!("{}/c{}.dat", dir_of(i), i), contents[i].clone()));
    }
    l.expect = if k == 1 { vec![(0, 0), (1, 1), (1, 2), (1, 3), (1, 4), (0, 5)] } else { vec![(0, 0), (1, 1), (2, 2), (2, 3), (1, 4), (0, 5)] };
    for _ in 0..k {
        l.lines.push(Line { style: TwinLit, text: String::new(), hidden: vec![], multi: false });
    }
    let mut root = l.root.clone();
    let mut determined = true;
    match sym {
        Sym::RootAliasSameDir => {
            links.push((format!("{}/root-link.ledger", rd), "main.ledger".into()));
            root = format!("{}/root-link.ledger", rd);
        }
        Sym::RootLinkElsewhere => {
            let d = format!("{}/elsewhere", base);
            l.dirs.insert(d.clone());
            links.push((format!("{}/root.ledger", d), l.root.clone()));
            root = format!("{}/root.ledger", d);
            determined = false;
        }
        // a linked file in another directory that has an include of its own: next to the link or next to the file?
        Sym::FileLinkElsewhere | Sym::FileLinkElsewhereWithDecoy => determined = lvl == k,
        _ => {}
    }
    SymCase { l, links, root, determined }
}

fn judge_symlink(env: &RealEnv, b: &Baseline, c: &SymCase, sym: Sym) -> Outcome {
    let base = format!("{}/t", env.scratch);
    materialise(&c.l, &base, 0);
    for (link, target) in &c.links {
        std::fs::create_dir_all(parent_dir(link)).expect("mkdir");
        std::os::unix::fs::symlink(target, link).expect("symlink");
    }
    let (seen, res) = collect(&b.known, &load::new_loader(PathBuf::from(&c.root)));
    let verdict = judge_sequence("real", &c.l, b, &seen, &res, &real_norm).or_else(|| {
        let outs = cli_outputs(&c.root);
        outs.iter().enumerate().find(|(i, o)| **o != env.cli_base[*i]).map(|(i, o)| Outcome::violation(format!("cli-differs/real/{}", CLI_CMDS[i]), format!("--- unsplit ---\n{}--- split ---\n{}", env.cli_base[i], o)))
    });
    if !c.determined {
        // the statement does not say whether "the including file" is the link or the file it points to
        let how = match (&verdict, &res) {
            (None, _) => "includes-resolved-next-to-the-file-read".to_string(),
            (Some(_), Err(e)) => format!("includes-resolved-next-to-the-link/{}", load_err_variant(e)),
            (Some(_), Ok(())) => "includes-resolved-next-to-the-link/another-file-delivered".to_string(),
        };
        return Outcome::dont_care(format!("symlink/{:?}/{}", sym, how));
    }
    match verdict {
        None => Outcome::pass(format!("symlink/{:?}/same", sym)),
        Some(o) => match o.verdict {
            crate::fw::Verdict::Violation { sig, detail } => Outcome::violation(format!("{}/symlink-{:?}", sig, sym), detail),
            _ => o,
        },
    }
}

// ------------------------------------------------------------------------------------------
// Family K: scale — one wildcard matching many files, long include chains, names whose order needs care

/// Ledger of n+1 entries in which entry i (i >= 1) only balances when exactly the entries 0..i-1 were booked before it:
/// `Expenses:E  i CHF` against the assignment `Assets:Bank = 1000 - i(i+1)/2 CHF`.
fn k_entries(n: usize) -> Vec<String> {
    let mut v = vec!["2024/01/01 head\n    Assets:Bank          1000 CHF\n    Equity:Opening\n\n".to_string()];
    for i in 1..=n as i64 {
        v.push(format!("2024/02/01 day {}\n    Expenses:E           {} CHF\n    Assets:Bank          = {} CHF\n\n", i, i, 1000 - i * (i + 1) / 2));
    }
    v
}

#[derive(Clone, Copy, Debug, PartialEq, Eq)]
enum Naming {
    /// `daily/d007.ledger` by `daily/*.ledger` (dot-file decoy)
    Padded,
    /// `d007.dat` by `d[0-9][0-9][0-9].dat` (decoy `dxxx.dat`)
    PaddedClass,
    /// `daily/d007.ledger` by `daily/d???.ledger` (decoy `daily/d0007.ledger`)
    PaddedQmark,
    /// `daily/1.ledger`, `daily/10.ledger`, `daily/2.ledger` ...: byte-wise order is not numeric order
    Digits,
    /// `daily/F000.ledger`, `daily/f000.ledger`, ...: byte-wise order puts all upper-case names first
    MixedCase,
}
const NAMINGS: [Naming; 5] = [Naming::Padded, Naming::PaddedClass, Naming::PaddedQmark, Naming::Digits, Naming::MixedCase];
const WIDTHS: [usize; 8] = [1, 2, 5, 31, 32, 33, 64, 200];

struct KCase {
    l: Laid,
    texts: Vec<String>,
    /// other entry orders that some notion of "sorted" would give (numeric-aware, case-insensitive): DON'T-CARE if delivered
    alt_orders: Vec<Vec<usize>>,
}

fn natural_key(s: &str) -> (u64, String) {
    let digits: String = s.chars().filter(|c| c.is_ascii_digit()).collect();
    (digits.parse().unwrap_or(0), s.to_string())
}

/// root = entry 0, one include line, entry n+1; member j holds entry j
fn layout_wide(base: &str, n: usize, naming: Naming) -> KCase {
    let texts = k_entries(n + 1);
    let rd = root_dir(base);
    let root = format!("{}/main.ledger", rd);
    let (pattern, mut names, decoys): (String, Vec<String>, Vec<String>) = match naming {
        Naming::Padded => ("daily/*.ledger".into(), (1..=n).map(|j| format!("daily/d{:03}.ledger", j)).collect(), vec!["daily/.d000.ledger".into()]),
        Naming::PaddedClass => ("d[0-9][0-9][0-9].dat".into(), (1..=n).map(|j| format!("d{:03}.dat", j)).collect(), vec!["dxxx.dat".into()]),
        Naming::PaddedQmark => ("daily/d???.ledger".into(), (1..=n).map(|j| format!("daily/d{:03}.ledger", j)).collect(), vec!["daily/d0007.ledger".into(), "daily/.d00.ledger".into()]),
        Naming::Digits => ("daily/*.ledger".into(), (1..=n).map(|j| format!("daily/{}.ledger", j)).collect(), vec!["daily/.0.ledger".into()]),
        Naming::MixedCase => ("daily/*.ledger".into(), (0..n).map(|j| format!("daily/{}{:03}.ledger", if j % 2 == 0 { "F" } else { "f" }, j / 2)).collect(), vec!["daily/.F000.ledger".into()]),
    };
    // the j-th entry goes into the j-th name in byte-wise order
    names.sort();
    let mut l = Laid { root: root.clone(), files: vec![], hidden: BTreeMap::new(), dirs: BTreeSet::new(), expect: vec![], lines: vec![], groups: vec![], in_group: BTreeSet::new(), nomatch: None };
    l.files.push((root, format!("{}include {}\n\n{}", texts[0], pattern, texts[n + 1])));
    l.expect.push((0, 0));
    for (j, nm) in names.iter().enumerate() {
        l.files.push((format!("{}/{}", rd, nm), texts[j + 1].clone()));
        l.expect.push((j + 1, j + 1));
    }
    l.expect.push((0, n + 1));
    for d in &decoys {
        l.hidden.insert(format!("{}/{}", rd, d), HIDDEN.to_string());
    }
    l.lines.push(Line { style: TwinGlob, text: pattern, hidden: decoys.iter().map(|d| format!("{}/{}", rd, d)).collect(), multi: n > 1 });
    // alternative collations of the same names
    let mut alt_orders = vec![];
    let mut by = |keyf: &dyn Fn(&str) -> (u64, String)| {
        let mut idx: Vec<usize> = (0..n).collect();
        idx.sort_by_key(|i| keyf(&names[*i]));
        let mut order = vec![0usize];
        order.extend(idx.iter().map(|i| i + 1));
        order.push(n + 1);
        if order != (0..n + 2).collect::<Vec<usize>>() {
            alt_orders.push(order);
        }
    };
    by(&natural_key);
    by(&|s: &str| (0, s.to_ascii_lowercase()));
    KCase { l, texts, alt_orders }
}

#[derive(Clone, Copy, Debug, PartialEq, Eq)]
enum Link {
    /// `c<i>.dat`, all in one directory
    SameDir,
    /// the same text `s/c.dat` on every level, one directory deeper each time
    SubSameText,
    /// alternately `s<i>/c<i>.dat` and `../c<i>.dat`
    SubThenUp,
    /// `s/*.dat` on every level (dot-file decoy on every level)
    SubGlob,
}
const LINKS: [Link; 4] = [Link::SameDir, Link::SubSameText, Link::SubThenUp, Link::SubGlob];
const MAX_CHAIN: usize = 40;

/// file i = entry i, include of file i+1, entry 2d-i; file d = entry d
fn layout_deep(base: &str, d: usize, link: Link) -> KCase {
    let texts = k_entries(2 * d);
    let rd = root_dir(base);
    let mut l = Laid { root: format!("{}/main.ledger", rd), files: vec![], hidden: BTreeMap::new(), dirs: BTreeSet::new(), expect: vec![], lines: vec![], groups: vec![], in_group: BTreeSet::new(), nomatch: None };
    let mut paths = vec![l.root.clone()];
    let mut incs = vec![];
    let mut dir = rd.clone();
    for i in 1..=d {
        let (text, cdir, name): (String, String, String) = match link {
            Link::SameDir => (format!("c{}.dat", i), dir.clone(), format!("c{}.dat", i)),
            Link::SubSameText => ("s/c.dat".into(), format!("{}/s", dir), "c.dat".into()),
            Link::SubThenUp => {
                if i % 2 == 1 {
                    (format!("s{}/c{}.dat", i, i), format!("{}/s{}", dir, i), format!("c{}.dat", i))
                } else {
                    (format!("../c{}.dat", i), parent_dir(&dir), format!("c{}.dat", i))
                }
            }
            Link::SubGlob => {
                l.hidden.insert(format!("{}/s/.0.dat", dir), HIDDEN.to_string());
                ("s/*.dat".into(), format!("{}/s", dir), "1.dat".into())
            }
        };
        l.lines.push(Line { style: if link == Link::SubGlob { TwinGlob } else { TwinLit }, text: text.clone(), hidden: vec![], multi: false });
        incs.push(text);
        paths.push(format!("{}/{}", cdir, name));
        dir = cdir;
    }
    for i in 0..=d {
        let content = if i == d { texts[d].clone() } else { format!("{}include {}\n\n{}", texts[i], incs[i], texts[2 * d - i]) };
        l.files.push((paths[i].clone(), content));
    }
    for i in 0..=d {
        l.expect.push((i, i));
    }
    for i in (0..d).rev() {
        l.expect.push((i, 2 * d - i));
    }
    KCase { l, texts, alt_orders: vec![] }
}

const K_HID: usize = usize::MAX - 1;
const K_INC: usize = usize::MAX - 2;
const K_OTHER: usize = usize::MAX - 3;

fn collect_k<F: load::FileSystem>(known: &[syntax::plain::LedgerEntry<'static>], hid: &syntax::plain::LedgerEntry<'static>, loader: &load::Loader<F>) -> (Vec<(PathBuf, usize)>, Result<(), load::LoadError>) {
    let mut seen = vec![];
    let r = loader.load(|path: &Path, _pctx: &parse::ParsedContext<'_>, entry: &syntax::plain::LedgerEntry<'_>| -> Result<(), load::LoadError> {
        // see `collect` for the lifetime unification
        let e: &syntax::plain::LedgerEntry<'static> = unsafe { std::mem::transmute::<&syntax::plain::LedgerEntry<'_>, &syntax::plain::LedgerEntry<'static>>(entry) };
        let code = if matches!(entry, syntax::LedgerEntry::Include(_)) {
            K_INC
        } else if e == hid {
            K_HID
        } else {
            known.iter().position(|k| k == e).unwrap_or(K_OTHER)
        };
        seen.push((path.to_path_buf(), code));
        Ok(())
    });
    (seen, r)
}

fn scale_bucket(n: usize) -> &'static str {
    match n {
        0..=1 => "1",
        2..=9 => "2-9",
        10..=99 => "10-99",
        _ => "100+",
    }
}

/// `what` = "one-glob" | "chain"; `n` = number of files matched / chain depth
fn judge_k(fs: &str, what: &str, n: usize, k: &KCase, b: &Baseline, env: Option<&RealEnv>, insertion: usize) -> Outcome {
    let unsplit: String = k.texts.concat();
    let known = parse_static(unsplit.clone());
    assert!(known.len() == k.texts.len(), "harness bug: scale ledger does not parse as its entries");
    let hid = &b.known.entries[HID as usize];
    let tag = format!("{}/{}-{}", fs, what, scale_bucket(n));
    let (seen, res, norm): (Vec<(PathBuf, usize)>, Result<(), load::LoadError>, Box<dyn Fn(&Path) -> String>) = match env {
        None => {
            // order in which the files are put into the in-memory file system: ascending, descending, scrambled
            let mut ff = fake_files(&k.l);
            match insertion {
                0 => {}
                1 => ff.reverse(),
                _ => {
                    let mut keyed: Vec<(usize, (&str, &str))> = ff.iter().enumerate().map(|(i, f)| ((i * 37 + 11) % 101, *f)).collect();
                    keyed.sort_by_key(|x| x.0);
                    ff = keyed.into_iter().map(|x| x.1).collect();
                }
            }
            let (s, r) = collect_k(&known, hid, &oka::fake_loader(&ff, &k.l.root));
            (s, r, Box::new(|p: &Path| lexical_norm(p)))
        }
        Some(_) => {
            let (s, r) = collect_k(&known, hid, &load::new_loader(PathBuf::from(&k.l.root)));
            (s, r, Box::new(real_norm))
        }
    };
    let detail = || {
        let got: Vec<String> = seen.iter().map(|(p, c)| format!("{}:{}", p.file_name().map(|x| x.to_string_lossy().to_string()).unwrap_or_default(), match *c { K_HID => "DECOY".to_string(), K_INC => "INCLUDE".to_string(), K_OTHER => "?".to_string(), i => i.to_string() })).collect();
        format!("{} = {}\ndelivered (file:entry): {}\nloader result: {:?}", what, n, got.join(" "), res)
    };
    if let Err(e) = &res {
        return Outcome::violation(format!("split-load-fails/{}/{}", tag, load_err_variant(e)), detail());
    }
    if seen.iter().any(|e| e.1 == K_INC) {
        return Outcome::violation(format!("include-line-delivered/{}", tag), detail());
    }
    if let Some((p, _)) = seen.iter().find(|e| e.1 == K_HID) {
        let dot = norm(p).rsplit('/').take(2).any(|c| c.starts_with('.'));
        return Outcome::violation(format!("{}/{}", if dot { "dot-file-loaded" } else { "file-outside-the-pattern-loaded" }, tag), detail());
    }
    let got: Vec<usize> = seen.iter().map(|e| e.1).collect();
    let want: Vec<usize> = k.l.expect.iter().map(|e| e.1).collect();
    if got != want {
        if k.alt_orders.iter().any(|o| *o == got) {
            return Outcome::dont_care(format!("scale/{}/glob-members-in-another-collation", tag));
        }
        let mut a = got.clone();
        let mut c = want.clone();
        a.sort();
        c.sort();
        return Outcome::violation(format!("{}/{}", if a == c { "order-changed" } else { "entries-lost-or-duplicated" }, tag), detail());
    }
    for (i, (p, _)) in seen.iter().enumerate() {
        if norm(p) != k.l.files[k.l.expect[i].0].0 {
            return Outcome::violation(format!("entry-attributed-to-wrong-file/{}", tag), detail());
        }
    }
    // reports
    match env {
        None => {
            let base = fake_reports(&[("/v/c11/main.ledger", unsplit.as_str())], "/v/c11/main.ledger");
            if base.is_err() {
                panic!("harness bug: the unsplit scale ledger is rejected: {:?}", base);
            }
            let split = fake_reports(&fake_files(&k.l), &k.l.root);
            if split != base {
                return Outcome::violation(format!("report-differs/{}", tag), format!("--- unsplit ---\n{:?}\n--- split ---\n{:?}", base, split));
            }
        }
        Some(env) => {
            let up = format!("{}/unsplit-k/main.ledger", env.scratch);
            std::fs::create_dir_all(parent_dir(&up)).expect("mkdir");
            std::fs::write(&up, &unsplit).expect("write");
            let base = cli_outputs(&up);
            if !base.iter().all(|o| o.starts_with("EXIT 0")) {
                panic!("harness bug: CLI fails on the unsplit scale ledger: {:?}", base);
            }
            let outs = cli_outputs(&k.l.root);
            for (i, o) in outs.iter().enumerate() {
                if *o != base[i] {
                    return Outcome::violation(format!("cli-differs/{}/{}", tag, CLI_CMDS[i]), format!("--- unsplit ---\n{}--- split ---\n{}", base[i], o));
                }
            }
        }
    }
    Outcome::pass(format!("scale/{}/same", tag))
}

// ------------------------------------------------------------------------------------------
// Real file system

struct RealEnv {
    /// canonical scratch directory of this process
    scratch: String,
    cli_base: Vec<String>,
}

fn real_env() -> RealEnv {
    let dir = oka::scratch_dir("c11");
    let dir = std::fs::canonicalize(&dir).expect("canonical scratch dir");
    let scratch = dir.to_string_lossy().to_string();
    let ud = format!("{}/unsplit", scratch);
    std::fs::create_dir_all(&ud).expect("mkdir");
    let up = format!("{}/main.ledger", ud);
    std::fs::write(&up, unsplit_text()).expect("write unsplit");
    let cli_base = cli_outputs(&up);
    for o in &cli_base {
        if !o.starts_with("EXIT 0") {
            panic!("harness bug: CLI fails on the unsplit ledger: {}", o);
        }
    }
    RealEnv { scratch, cli_base }
}

/// creation order: 0 = a fixed scramble, 1 = its reverse
fn materialise(l: &Laid, base: &str, order: usize) {
    let _ = std::fs::remove_dir_all(base);
    let mut all: Vec<(usize, &str, &str)> = vec![];
    for (i, (p, c)) in l.files.iter().enumerate() {
        all.push((i, p.as_str(), c.as_str()));
    }
    for (j, (p, c)) in l.hidden.iter().enumerate() {
        all.push((l.files.len() + j, p.as_str(), c.as_str()));
    }
    all.sort_by_key(|(i, _, _)| ((i * 7 + 3) % 11, *i));
    if order == 1 {
        all.reverse();
    }
    std::fs::create_dir_all(root_dir(base)).expect("mkdir root");
    for d in &l.dirs {
        std::fs::create_dir_all(d).expect("mkdir");
    }
    for (_, p, c) in &all {
        let parent = Path::new(p).parent().unwrap();
        std::fs::create_dir_all(parent).expect("mkdir");
        std::fs::write(p, c).expect("write");
    }
}

/// is the creation order of every glob group with >= 3 members neither sorted nor reverse-sorted?
fn creation_scrambled(l: &Laid) -> (u64, u64) {
    let (mut groups, mut scrambled) = (0, 0);
    for g in &l.groups {
        if g.len() < 3 {
            continue;
        }
        groups += 1;
        let keys: Vec<(usize, usize)> = g.iter().map(|i| ((i * 7 + 3) % 11, *i)).collect();
        let asc = keys.windows(2).all(|w| w[0] < w[1]);
        let desc = keys.windows(2).all(|w| w[0] > w[1]);
        if !asc && !desc {
            scrambled += 1;
        }
    }
    (groups, scrambled)
}

fn real_root_spelling(l: &Laid, spelling: usize) -> String {
    match spelling {
        0 => l.root.clone(),
        _ => {
            let rd = parent_dir(&l.root);
            format!("{}/../r3/./main.ledger", rd)
        }
    }
}

fn real_norm(p: &Path) -> String {
    std::fs::canonicalize(p).map(|x| x.to_string_lossy().to_string()).unwrap_or_else(|_| p.to_string_lossy().to_string())
}

fn judge_real_split(env: &RealEnv, b: &Baseline, l: &Laid, depth: usize, order: usize, spelling: usize) -> Outcome {
    let base = format!("{}/t", env.scratch);
    materialise(l, &base, order);
    let root = real_root_spelling(l, spelling);
    let (seen, res) = collect(&b.known, &load::new_loader(PathBuf::from(&root)));
    if let Some(v) = judge_sequence("real", l, b, &seen, &res, &real_norm) {
        return v;
    }
    let outs = cli_outputs(&root);
    for (i, o) in outs.iter().enumerate() {
        if *o != env.cli_base[i] {
            let kind = if o.starts_with("EXIT 0") { "differs" } else { "fails" };
            return Outcome::violation(format!("cli-{}/real/{}", kind, CLI_CMDS[i]), format!("--- unsplit ---\n{}--- split ---\n{}", env.cli_base[i], o));
        }
    }
    Outcome::pass(format!("same/real+cli/{}", tree_class(l, depth)))
}

fn judge_real_nomatch(env: &RealEnv, b: &Baseline, l: &Laid) -> Outcome {
    let base = format!("{}/t", env.scratch);
    materialise(l, &base, 0);
    let line = &l.lines[l.nomatch.unwrap()];
    let (seen, res) = collect(&b.known, &load::new_loader(PathBuf::from(&l.root)));
    if let Some(v) = judge_sequence("real", l, b, &seen, &res, &real_norm) {
        return v;
    }
    let e = match res {
        Ok(()) => return Outcome::violation(format!("no-match/real/load-succeeds/{:?}", line.style), format!("include {} matches no file but Loader::load returns Ok", line.text)),
        Err(e) => e,
    };
    let outs = cli_outputs(&l.root);
    for (i, o) in outs.iter().enumerate() {
        if o.starts_with("EXIT 0") {
            return Outcome::violation(format!("no-match/real/cli-succeeds/{}/{:?}", CLI_CMDS[i], line.style), format!("include {} matches no file but okane {} succeeds:\n{}", line.text, CLI_CMDS[i], o));
        }
    }
    let names = format!("{:?} {}", e, e).contains(&line.text);
    Outcome::pass(format!("no-match/real+cli/error-{}/{}", load_err_variant(&e), if names { "names-pattern" } else { "pattern-not-named" }))
}

// ------------------------------------------------------------------------------------------
// Enumeration

/// all style assignments for the lines of a shape (literal+glob for single-child lines, globs for groups)
fn for_each_styles(multi: &[bool], f: impl FnMut(&[Style])) {
    for_each_styles_in(multi, &ALL, &GLOBS, f)
}

/// all assignments with `singles` for one-child lines and `multis` for multi-child lines
fn for_each_styles_in(multi: &[bool], singles: &[Style], multis: &[Style], mut f: impl FnMut(&[Style])) {
    let opts: Vec<&[Style]> = multi.iter().map(|m| if *m { multis } else { singles }).collect();
    let mut idx = vec![0usize; multi.len()];
    let mut cur: Vec<Style> = opts.iter().map(|o| o[0]).collect();
    loop {
        f(&cur);
        // increment, last line fastest
        let mut i = multi.len();
        loop {
            if i == 0 {
                return;
            }
            i -= 1;
            idx[i] += 1;
            if idx[i] < opts[i].len() {
                cur[i] = opts[i][idx[i]];
                break;
            }
            idx[i] = 0;
            cur[i] = opts[i][0];
        }
    }
}

fn uniform_styles(multi: &[bool], u: Style) -> Vec<Style> {
    multi.iter().map(|m| if *m { u.glob_of() } else { u }).collect()
}

struct Tally {
    trees_by_depth_lines: BTreeMap<(usize, usize), u64>,
    edges_by_style: [u64; NSTYLES],
    cut_sets: BTreeSet<u32>,
}

impl Tally {
    fn add(&mut self, depth: usize, styles: &[Style], cuts: u32) {
        *self.trees_by_depth_lines.entry((depth, styles.len())).or_default() += 1;
        for s in styles {
            self.edges_by_style[s.idx()] += 1;
        }
        self.cut_sets.insert(cuts);
    }
    fn emit(&self, ctx: &mut Ctx, prefix: &str) {
        let mut by_depth: BTreeMap<usize, u64> = BTreeMap::new();
        for ((d, l), n) in &self.trees_by_depth_lines {
            ctx.fact(&format!("{}_trees_depth{}_lines{}", prefix, d, l), *n);
            *by_depth.entry(*d).or_default() += n;
        }
        for (d, n) in by_depth {
            ctx.fact(&format!("{}_trees_depth{}", prefix, d), n);
        }
        for (i, s) in EVERY.iter().enumerate() {
            ctx.fact(&format!("{}_include_edges_{:?}", prefix, s), self.edges_by_style[i]);
        }
        ctx.fact(&format!("{}_distinct_cut_sets_of_32", prefix), self.cut_sets.len() as u64);
    }
}

fn new_tally() -> Tally {
    Tally { trees_by_depth_lines: BTreeMap::new(), edges_by_style: [0; NSTYLES], cut_sets: BTreeSet::new() }
}

fn run(ctx: &mut Ctx) {
    // a panic outside a case is a defect of this check, not a verdict about okane: say so loudly
    if let Err(e) = crate::fw::guarded(|| run_inner(ctx)) {
        eprintln!("MACHINERY-ERROR: harness bug: C11 enumeration panicked outside a case: {}", e);
        std::process::exit(3);
    }
}

fn run_inner(ctx: &mut Ctx) {
    let max_depth = ctx.tier.pick(2usize, 3usize);
    let max_lines = ctx.tier.pick(2usize, 3usize);
    ctx.fact("max_depth", max_depth as u64);
    ctx.fact("max_lines_full_style_product", max_lines as u64);
    let b = baseline();
    ctx.fact("adjacent_swaps_of_the_ledger_that_change_the_reports_of_5", order_sensitivity(&b));

    let all_shapes = shapes(max_depth, N);
    ctx.fact("shapes_total", all_shapes.len() as u64);
    let mut fake_tally = new_tally();

    // ---- F: every shape with <= max_lines lines x every style assignment (fake FS) ----
    let mut n_f = 0u64;
    for (shape, lines) in all_shapes.iter().filter(|s| s.1 <= max_lines) {
        let depth = shape_depth(shape);
        let multi = line_multi(shape);
        let cuts = cut_mask(shape);
        debug_assert!(multi.len() == *lines);
        for_each_styles(&multi, |st| {
            n_f += 1;
            fake_tally.add(depth, st, cuts);
            if !ctx.next_is_mine() {
                ctx.skip_cases(1);
                return;
            }
            let l = layout(shape, st, FAKE_BASE, None);
            ctx.case(|| format!("[F fake FS] shape {} styles [{}]\n{}", shape, style_names(st), render(&l)), || judge_fake_split(&b, &l, depth, 0));
        });
    }
    ctx.fact("family_F_trees", n_f);

    // ---- U: every shape with more lines x uniform style families (fake FS) ----
    let mut n_u = 0u64;
    let uniform_families: Vec<Style> = ctx.tier.pick(vec![Sub, DotMix, GlobUp, Abs], ALL.to_vec());
    ctx.fact("family_U_uniform_style_families", uniform_families.len() as u64);
    for (shape, _lines) in all_shapes.iter().filter(|s| s.1 > max_lines) {
        let depth = shape_depth(shape);
        let multi = line_multi(shape);
        let cuts = cut_mask(shape);
        for u in uniform_families.iter().copied() {
            let st = uniform_styles(&multi, u);
            n_u += 1;
            fake_tally.add(depth, &st, cuts);
            if !ctx.next_is_mine() {
                ctx.skip_cases(1);
                continue;
            }
            let l = layout(shape, &st, FAKE_BASE, None);
            ctx.case(|| format!("[U fake FS] shape {} uniform {:?} -> styles [{}]\n{}", shape, u, style_names(&st), render(&l)), || judge_fake_split(&b, &l, depth, 0));
        }
    }
    ctx.fact("family_U_trees", n_u);

    // ---- S: the root file itself named through `dir/../dir/./main.ledger` (fake FS): every 1-line tree x style ----
    let mut n_s = 0u64;
    for (shape, _) in all_shapes.iter().filter(|s| s.1 <= 1) {
        let depth = shape_depth(shape);
        let multi = line_multi(shape);
        let cuts = cut_mask(shape);
        for_each_styles(&multi, |st| {
            n_s += 1;
            fake_tally.add(depth, st, cuts);
            if !ctx.next_is_mine() {
                ctx.skip_cases(1);
                return;
            }
            let l = layout(shape, st, FAKE_BASE, None);
            ctx.case(|| format!("[S fake FS, root given as {}] shape {} styles [{}]\n{}", real_root_spelling(&l, 1), shape, style_names(st), render(&l)), || judge_fake_split(&b, &l, depth, 1));
        });
    }
    ctx.fact("family_S_trees", n_s);

    // ---- G: the other glob metacharacters `[0-9]` `[ab]` `[!x]` `?`, same and sub-directory (fake FS) ----
    //  quick:    every 1-line tree x 8 meta styles; every 2-line shape x 8 uniform meta styles
    //  thorough: every shape with <= 2 lines x every assignment over all 18 styles that uses a meta style;
    //            every shape of depth <= 2 with more lines x 8 uniform meta styles
    let thorough = max_depth >= 3;
    let mut n_g = 0u64;
    for (shape, lines) in all_shapes.iter().filter(|s| s.1 >= 1 && shape_depth(&s.0) <= 2) {
        let depth = shape_depth(shape);
        let multi = line_multi(shape);
        let cuts = cut_mask(shape);
        let mut one = |st: &[Style], ctx: &mut Ctx, fake_tally: &mut Tally| {
            n_g += 1;
            fake_tally.add(depth, st, cuts);
            if !ctx.next_is_mine() {
                ctx.skip_cases(1);
                return;
            }
            let l = layout(shape, st, FAKE_BASE, None);
            ctx.case(|| format!("[G fake FS] shape {} styles [{}]\n{}", shape, style_names(st), render(&l)), || judge_fake_split(&b, &l, depth, 0));
        };
        if *lines == 1 || (thorough && *lines == 2) {
            for_each_styles_in(&multi, &EVERY, &EVERY_GLOB, |st| {
                if st.iter().any(|x| x.is_meta()) {
                    one(st, ctx, &mut fake_tally);
                }
            });
        } else if *lines == 2 || thorough {
            for u in META {
                if u == CaseLit && multi.iter().all(|m| *m) {
                    continue; // would repeat the CaseGlob assignment
                }
                let st: Vec<Style> = multi.iter().map(|m| if *m { u.for_group() } else { u }).collect();
                one(&st, ctx, &mut fake_tally);
            }
        }
    }
    ctx.fact("family_G_trees", n_g);
    // GN: a meta-style include that matches nothing although its decoys exist: every 1-line tree x meta style
    let mut n_gn = 0u64;
    for (shape, _) in all_shapes.iter().filter(|s| s.1 == 1) {
        let multi = line_multi(shape);
        for_each_styles_in(&multi, &META, &META_GLOB, |st| {
            n_gn += 1;
            if !ctx.next_is_mine() {
                ctx.skip_cases(1);
                return;
            }
            let l = layout(shape, st, FAKE_BASE, Some(0));
            ctx.case(|| format!("[GN fake FS, line 0 matches nothing] shape {} styles [{}]\n{}", shape, style_names(st), render(&l)), || judge_fake_nomatch(&b, &l));
        });
    }
    ctx.fact("family_GN_trees", n_gn);

    // ---- T: the SAME relative include text in 2 or 3 sibling directories (fake FS) ----
    //  every twin shape (root -> k year files in d1..dk, by k literal lines or one glob d*/year.dat; each year file has
    //  own entries around ONE include line with leaf children) x 9 inner texts (literal kinds need one child per line);
    //  plus chains of depth 2..3 in which every line carries the same sub-directory text.
    let twin_shapes: Vec<(&String, usize, bool, bool)> = all_shapes
        .iter()
        .filter(|s| s.1 >= 3 && s.1 <= 6 && shape_depth(&s.0) == 2)
        .filter_map(|s| twin_shape(&parse_shape(&s.0)).map(|(k, g, single)| (&s.0, k, g, single)))
        .collect();
    ctx.fact("family_T_twin_shapes", twin_shapes.len() as u64);
    ctx.fact("family_T_twin_shapes_with_3_directories", twin_shapes.iter().filter(|t| t.1 == 3).count() as u64);
    let mut n_t = 0u64;
    for (shape, _k, _g, single) in &twin_shapes {
        for kind in INNERS {
            if !kind.is_glob() && !single {
                continue;
            }
            n_t += 1;
            if !ctx.next_is_mine() {
                ctx.skip_cases(1);
                continue;
            }
            let l = layout_fixed(shape, kind, true, FAKE_BASE);
            ctx.case(|| format!("[T fake FS] twin shape {} inner text {:?}\n{}", shape, kind, render(&l)), || judge_fake_split(&b, &l, 2, 0));
        }
    }
    for k in 2..=3usize {
        for kind in INNERS_SUB {
            n_t += 1;
            if !ctx.next_is_mine() {
                ctx.skip_cases(1);
                continue;
            }
            let l = layout_fixed(chain_shape(k), kind, false, FAKE_BASE);
            ctx.case(|| format!("[T fake FS] chain {} every line says {:?}\n{}", chain_shape(k), kind, render(&l)), || judge_fake_split(&b, &l, k, 0));
        }
    }
    ctx.fact("family_T_trees", n_t);
    fake_tally.emit(ctx, "fake");

    // ---- E: refused ledgers (fake FS): 3 base entries + one fault (3 kinds x 4 positions) or two faults of different
    //  kinds in both orders at all positions p <= q (6 x 10) = 72 ledgers of 4..5 entries; every shape with <= 2 include
    //  lines (depth <= 2) x literal style (prefix glob for groups). Reference = the same code on the unsplit ledger.
    let faulty = faulty_ledgers();
    ctx.fact("family_E_faulty_ledgers", faulty.len() as u64);
    let shapes_by_len: BTreeMap<usize, Vec<(String, usize)>> = [4usize, 5].iter().map(|n| (*n, shapes_n(*n, 2, 2).into_iter().filter(|s| s.1 >= 1).collect())).collect();
    let mut n_e = 0u64;
    for (what, texts) in &faulty {
        for (shape, _) in &shapes_by_len[&texts.len()] {
            n_e += 1;
            if !ctx.next_is_mine() {
                ctx.skip_cases(1);
                continue;
            }
            let multi = line_multi(shape);
            let st = uniform_styles(&multi, Same);
            let l = layout_texts(shape, &st, FAKE_BASE, None, FMT_DEFAULT, Some(texts));
            ctx.case(|| format!("[E fake FS] faults: {}; shape {} styles [{}]\n{}", what, shape, style_names(&st), render(&l)), || judge_fault("fake", &l, texts, &b, None));
        }
    }
    ctx.fact("family_E_trees", n_e);

    // ---- K: scale (fake FS): one wildcard matching 1..200 files x 5 naming schemes; include chains of depth 1..40 x 4 links
    let mut n_k = 0u64;
    for n in WIDTHS {
        for naming in NAMINGS {
            for insertion in 0..3usize {
                n_k += 1;
                if !ctx.next_is_mine() {
                    ctx.skip_cases(1);
                    continue;
                }
                let k = layout_wide(FAKE_BASE, n, naming);
                ctx.case(
                    || format!("[K fake FS, files inserted {}] one wildcard matching {} files, names {:?}\n{}", ["ascending", "descending", "scrambled"][insertion], n, naming, render_short(&k.l)),
                    || judge_k("fake", "one-glob", n, &k, &b, None, insertion),
                );
            }
        }
    }
    for d in 1..=MAX_CHAIN {
        for link in LINKS {
            n_k += 1;
            if !ctx.next_is_mine() {
                ctx.skip_cases(1);
                continue;
            }
            let k = layout_deep(FAKE_BASE, d, link);
            ctx.case(|| format!("[K fake FS] include chain of depth {}, links {:?}\n{}", d, link, render_short(&k.l)), || judge_k("fake", "chain", d, &k, &b, None, 0));
        }
    }
    ctx.fact("family_K_cases", n_k);

    // ---- W: textual form of the include line and of the file end (fake FS) ----
    //  W1: every 1-line tree x 3 styles (literal, sub/*.ledger, class glob) x 125 forms:
    //      {blank, 2 blanks, tab, blank-tab-blank before the path; blank / tab / blanks+tab after it (DON'T-CARE)} x
    //      {LF, CRLF on include lines, CRLF everywhere} x {blank line after every item, none} x
    //      {file end as generated, exactly one line end, last line unterminated}
    //  W2: every 2-line shape x literal style (prefix glob for groups) x the 17 forms without blanks variation
    ctx.fact("crlf_ledger_read_like_lf", b.crlf_ok as u64);
    let mut n_w = 0u64;
    let full_forms = fmt_variants(true);
    let plain_forms = fmt_variants(false);
    for (shape, lines) in all_shapes.iter().filter(|s| s.1 == 1 || s.1 == 2) {
        let depth = shape_depth(shape);
        let multi = line_multi(shape);
        let style_sets: Vec<Vec<Style>> = if *lines == 1 {
            [if multi[0] { GlobPrefix } else { Same }, GlobSub, ClsRange].iter().map(|s| vec![*s]).collect()
        } else {
            vec![uniform_styles(&multi, Same)]
        };
        let forms = if *lines == 1 { &full_forms } else { &plain_forms };
        for st in &style_sets {
            for fmt in forms.iter() {
                n_w += 1;
                if !ctx.next_is_mine() {
                    ctx.skip_cases(1);
                    continue;
                }
                let l = layout_fmt(shape, st, FAKE_BASE, None, *fmt);
                ctx.case(|| format!("[W fake FS] shape {} styles [{}] form: {}\n{}", shape, style_names(st), fmt.describe(), render(&l)), || relabel_fmt(&b, fmt, judge_fake_split(&b, &l, depth, 0)));
            }
        }
    }
    ctx.fact("family_W_trees", n_w);

    // ---- N: include that matches nothing (fake FS) ----
    let mut n_n = 0u64;
    for (shape, lines) in all_shapes.iter().filter(|s| s.1 >= 1 && s.1 <= 2) {
        let depth = shape_depth(shape);
        let multi = line_multi(shape);
        if *lines == 1 {
            for_each_styles(&multi, |st| {
                n_n += 1;
                if !ctx.next_is_mine() {
                    ctx.skip_cases(1);
                    return;
                }
                let l = layout(shape, st, FAKE_BASE, Some(0));
                ctx.case(|| format!("[N fake FS, line 0 matches nothing] shape {} styles [{}]\n{}", shape, style_names(st), render(&l)), || judge_fake_nomatch(&b, &l));
            });
        } else if depth == 2 {
            // nested: the inner line (preorder index 1) matches nothing
            for u in ALL {
                let st = uniform_styles(&multi, u);
                n_n += 1;
                if !ctx.next_is_mine() {
                    ctx.skip_cases(1);
                    continue;
                }
                let l = layout(shape, &st, FAKE_BASE, Some(1));
                ctx.case(|| format!("[N fake FS, line 1 matches nothing] shape {} styles [{}]\n{}", shape, style_names(&st), render(&l)), || judge_fake_nomatch(&b, &l));
            }
        }
    }
    ctx.fact("family_N_trees", n_n);

    // ---- C: recursive include (fake FS) ----
    let mut n_c = 0u64;
    for k in 0..=max_depth {
        for style in ALL {
            if k == 0 && style != Same {
                continue;
            }
            for to in 0..=k {
                for back in BACKS {
                    n_c += 1;
                    if !ctx.next_is_mine() {
                        ctx.skip_cases(1);
                        continue;
                    }
                    let (l, t) = layout_back(FAKE_BASE, k, style, k, to, back);
                    ctx.case(
                        || format!("[C fake FS] chain depth {} style {:?}; file {} includes ancestor {} as `{}` ({:?})\n{}", k, style, k, to, t, back, render(&l)),
                        || judge_recursive(&b, "fake", &oka::fake_loader(&fake_files(&l), &l.root)),
                    );
                }
            }
        }
    }
    ctx.fact("family_C_cases", n_c);

    // ---- X: the same file twice through two spellings (DON'T-CARE) ----
    for style in ALL {
        for back in BACKS {
            if !ctx.next_is_mine() {
                ctx.skip_cases(1);
                continue;
            }
            // root includes child (style) and then once more through `back`
            let (l, t) = layout_back(FAKE_BASE, 1, style, 0, 1, back);
            ctx.case(
                || format!("[X fake FS] root includes its child twice: style {:?} and `{}` ({:?})\n{}", style, t, back, render(&l)),
                || {
                    let (seen, res) = collect(&b.known, &oka::fake_loader(&fake_files(&l), &l.root));
                    if let Err(load::LoadError::RecursiveInclude(_)) = res {
                        return Outcome::violation("repeated-include-reported-as-recursive/fake/two-spellings", format!("delivered: {:?}\nloader result: {:?}", seen.entries, res));
                    }
                    Outcome::dont_care(format!("double-include-two-spellings/fake/{}/{}-entries", if res.is_ok() { "ok" } else { "error" }, seen.entries.len().min(99)))
                },
            );
        }
    }

    // ---- D: repeated non-recursive include: identical line twice (variant 0), diamond (variant 1) (fake FS) ----
    let mut n_d = 0u64;
    for variant in 0..2 {
        for style in ALL {
            for back in BACKS {
                if variant == 0 && back != Back::Rel {
                    continue;
                }
                n_d += 1;
                if !ctx.next_is_mine() {
                    ctx.skip_cases(1);
                    continue;
                }
                let (l, twice, once) = layout_repeat(FAKE_BASE, variant, style, back);
                ctx.case(
                    || format!("[D fake FS] {} style {:?} back {:?}\n{}", if variant == 0 { "identical include line twice" } else { "diamond: two files include shared.dat" }, style, back, render(&l)),
                    || {
                        let (seen, res) = collect(&b.known, &oka::fake_loader(&fake_files(&l), &l.root));
                        judge_repeat("fake", &l, &twice, &once, &seen, &res, &|p| lexical_norm(p))
                    },
                );
            }
        }
    }
    ctx.fact("family_D_cases", n_d);

    // ---- real file system ----
    let env = real_env();
    let real_base = format!("{}/t", env.scratch);
    let mut real_tally = new_tally();
    let (mut grp3, mut grp3_scrambled) = (0u64, 0u64);
    let mut n_r = 0u64;
    // R1: every tree with <= 1 line x every style x 2 creation orders x 2 root spellings
    for (shape, _) in all_shapes.iter().filter(|s| s.1 <= 1) {
        let depth = shape_depth(shape);
        let multi = line_multi(shape);
        let cuts = cut_mask(shape);
        for_each_styles(&multi, |st| {
            for order in 0..2 {
                for spelling in 0..2 {
                    n_r += 1;
                    real_tally.add(depth, st, cuts);
                    if !ctx.next_is_mine() {
                        ctx.skip_cases(1);
                        continue;
                    }
                    let l = layout(shape, st, &real_base, None);
                    let (g, s) = creation_scrambled(&l);
                    ctx.case(
                        || format!("[R1 real FS, creation order {}, root spelling {}] shape {} styles [{}]\n{}", order, spelling, shape, style_names(st), render(&l)).replace(&env.scratch, "<scratch>"),
                        || judge_real_split(&env, &b, &l, depth, order, spelling),
                    );
                    ctx.count("real_glob_groups_of_3_or_more", g);
                    ctx.count("real_glob_groups_of_3_or_more_created_in_scrambled_order", s);
                    grp3 += g;
                    grp3_scrambled += s;
                }
            }
        });
    }
    // R2: chains of depth 2 (thorough: and 3) x all style tuples x 2 creation orders
    for k in 2..=max_depth {
        let shape = chain_shape(k);
        let multi = line_multi(shape);
        let cuts = cut_mask(shape);
        for_each_styles(&multi, |st| {
            for order in 0..2 {
                n_r += 1;
                real_tally.add(k, st, cuts);
                if !ctx.next_is_mine() {
                    ctx.skip_cases(1);
                    continue;
                }
                let l = layout(shape, st, &real_base, None);
                ctx.case(|| format!("[R2 real FS, creation order {}] chain {} styles [{}]\n{}", order, shape, style_names(st), render(&l)).replace(&env.scratch, "<scratch>"), || judge_real_split(&env, &b, &l, k, order, 0));
            }
        });
    }
    // R3: glob fans whose members include further files
    for shape in ["E[E|E[E]|E]E", "[E[E]|E|E[E]E]", "[E|E|E|E|E|E]", "E[[E|E|E]E]E"] {
        let depth = shape_depth(shape);
        let multi = line_multi(shape);
        let cuts = cut_mask(shape);
        for_each_styles(&multi, |st| {
            for order in 0..2 {
                n_r += 1;
                real_tally.add(depth, st, cuts);
                if !ctx.next_is_mine() {
                    ctx.skip_cases(1);
                    continue;
                }
                let l = layout(shape, st, &real_base, None);
                let (g, s) = creation_scrambled(&l);
                ctx.case(|| format!("[R3 real FS, creation order {}] fan {} styles [{}]\n{}", order, shape, style_names(st), render(&l)).replace(&env.scratch, "<scratch>"), || judge_real_split(&env, &b, &l, depth, order, 0));
                ctx.count("real_glob_groups_of_3_or_more", g);
                ctx.count("real_glob_groups_of_3_or_more_created_in_scrambled_order", s);
            }
        });
    }
    // R4 (thorough): every 2-line shape x uniform style families x 2 creation orders
    if max_depth >= 3 {
        for (shape, _) in all_shapes.iter().filter(|s| s.1 == 2) {
            let depth = shape_depth(shape);
            let multi = line_multi(shape);
            let cuts = cut_mask(shape);
            for u in ALL {
                let st = uniform_styles(&multi, u);
                for order in 0..2 {
                    n_r += 1;
                    real_tally.add(depth, &st, cuts);
                    if !ctx.next_is_mine() {
                        ctx.skip_cases(1);
                        continue;
                    }
                    let l = layout(shape, &st, &real_base, None);
                    ctx.case(|| format!("[R4 real FS, creation order {}] shape {} styles [{}]\n{}", order, shape, style_names(&st), render(&l)).replace(&env.scratch, "<scratch>"), || judge_real_split(&env, &b, &l, depth, order, 0));
                }
            }
        }
    }
    let _ = (grp3, grp3_scrambled);
    // RS: symbolic links (real FS): chain depth 1..2 x linked level x 7 kinds of link
    let mut n_rs = 0u64;
    for k in 1..=2usize {
        for lvl in 1..=k {
            for sym in SYMS {
                if matches!(sym, Sym::RootAliasSameDir | Sym::RootLinkElsewhere) && lvl != 1 {
                    continue;
                }
                n_rs += 1;
                if !ctx.next_is_mine() {
                    ctx.skip_cases(1);
                    continue;
                }
                let c = layout_symlink(&real_base, k, lvl, sym);
                let rs_class = std::cell::RefCell::new(String::new());
                ctx.case(
                    || {
                        let links: Vec<String> = c.links.iter().map(|(a, t)| format!("=== {} -> {} (symlink) ===\n", a, t)).collect();
                        format!("[RS real FS] chain depth {}, level {} reached through {:?}; root given as {}\n{}{}", k, lvl, sym, c.root, render(&c.l), links.concat()).replace(&env.scratch, "<scratch>")
                    },
                    || {
                        let o = judge_symlink(&env, &b, &c, sym);
                        *rs_class.borrow_mut() = o.class.clone();
                        o
                    },
                );
                // the family is tiny: make its classes visible as counters as well
                let cl = rs_class.borrow().clone();
                if !cl.is_empty() {
                    ctx.count(&format!("RS {}", cl), 1);
                }
            }
        }
    }
    ctx.fact("family_RS_cases", n_rs);
    // RE: refused ledgers on the real FS (loader, report::process, CLI): every 1-line shape whose line has one child
    let mut n_re = 0u64;
    for (what, texts) in &faulty {
        for (shape, lines) in &shapes_by_len[&texts.len()] {
            let multi = line_multi(shape);
            if *lines != 1 || multi[0] {
                continue;
            }
            n_re += 1;
            if !ctx.next_is_mine() {
                ctx.skip_cases(1);
                continue;
            }
            let st = vec![Same];
            let l = layout_texts(shape, &st, &real_base, None, FMT_DEFAULT, Some(texts));
            ctx.case(
                || format!("[RE real FS] faults: {}; shape {} styles [Same]\n{}", what, shape, render(&l)).replace(&env.scratch, "<scratch>"),
                || {
                    materialise(&l, &real_base, 0);
                    judge_fault("real", &l, texts, &b, Some(&env))
                },
            );
        }
    }
    ctx.fact("family_RE_cases", n_re);
    // RK: scale on the real FS (loader + CLI)
    let mut n_rk = 0u64;
    for n in WIDTHS {
        for naming in NAMINGS {
            for order in 0..2 {
                n_rk += 1;
                if !ctx.next_is_mine() {
                    ctx.skip_cases(1);
                    continue;
                }
                let k = layout_wide(&real_base, n, naming);
                ctx.case(
                    || format!("[RK real FS, creation order {}] one wildcard matching {} files, names {:?}\n{}", order, n, naming, render_short(&k.l)).replace(&env.scratch, "<scratch>"),
                    || {
                        materialise(&k.l, &real_base, order);
                        judge_k("real", "one-glob", n, &k, &b, Some(&env), 0)
                    },
                );
            }
        }
    }
    for d in 1..=MAX_CHAIN {
        for link in LINKS {
            n_rk += 1;
            if !ctx.next_is_mine() {
                ctx.skip_cases(1);
                continue;
            }
            let k = layout_deep(&real_base, d, link);
            ctx.case(
                || format!("[RK real FS] include chain of depth {}, links {:?}\n{}", d, link, render_short(&k.l)).replace(&env.scratch, "<scratch>"),
                || {
                    materialise(&k.l, &real_base, 0);
                    judge_k("real", "chain", d, &k, &b, Some(&env), 0)
                },
            );
        }
    }
    ctx.fact("family_RK_cases", n_rk);
    // RW: textual forms on the real FS: every 1-line tree x literal style (prefix glob for groups) x
    // {LF, CRLF on include lines, CRLF} x {as generated, one line end, unterminated} without blank lines between items
    let mut n_rw = 0u64;
    for (shape, _) in all_shapes.iter().filter(|s| s.1 == 1) {
        let depth = shape_depth(shape);
        let multi = line_multi(shape);
        let st = uniform_styles(&multi, Same);
        for fmt in plain_forms.iter().filter(|f| !f.gap) {
            n_rw += 1;
            if !ctx.next_is_mine() {
                ctx.skip_cases(1);
                continue;
            }
            let l = layout_fmt(shape, &st, &real_base, None, *fmt);
            ctx.case(
                || format!("[RW real FS] shape {} styles [{}] form: {}\n{}", shape, style_names(&st), fmt.describe(), render(&l)).replace(&env.scratch, "<scratch>"),
                || relabel_fmt(&b, fmt, judge_real_split(&env, &b, &l, depth, 0, 0)),
            );
        }
    }
    ctx.fact("family_RW_cases", n_rw);
    // RT: family T on the real FS (loader + CLI), creation order 0; quick: only the twin shapes in which all entries
    // sit in the leaf files (root and year files hold include lines only), thorough: all twin shapes
    let mut n_rt = 0u64;
    let leaves_only = |shape: &str| -> bool {
        // no E at nesting depth 0 or 1
        let mut d = 0;
        for c in shape.bytes() {
            match c {
                b'[' => d += 1,
                b']' => d -= 1,
                b'E' if d < 2 => return false,
                _ => {}
            }
        }
        true
    };
    for (shape, _k, _g, single) in twin_shapes.iter().filter(|t| max_depth >= 3 || leaves_only(t.0)) {
        for kind in INNERS {
            if !kind.is_glob() && !single {
                continue;
            }
            n_rt += 1;
            if !ctx.next_is_mine() {
                ctx.skip_cases(1);
                continue;
            }
            let l = layout_fixed(shape, kind, true, &real_base);
            ctx.case(|| format!("[RT real FS] twin shape {} inner text {:?}\n{}", shape, kind, render(&l)).replace(&env.scratch, "<scratch>"), || judge_real_split(&env, &b, &l, 2, 0, 0));
        }
    }
    for k in 2..=3usize {
        for kind in INNERS_SUB {
            n_rt += 1;
            if !ctx.next_is_mine() {
                ctx.skip_cases(1);
                continue;
            }
            let l = layout_fixed(chain_shape(k), kind, false, &real_base);
            ctx.case(|| format!("[RT real FS] chain {} every line says {:?}\n{}", chain_shape(k), kind, render(&l)).replace(&env.scratch, "<scratch>"), || judge_real_split(&env, &b, &l, k, 0, 0));
        }
    }
    ctx.fact("family_RT_cases", n_rt);
    // RG: the other glob metacharacters on the real FS: every 1-line tree x 8 meta styles x 2 creation orders;
    // (thorough) every 2-line shape x 8 uniform meta styles
    for (shape, lines) in all_shapes.iter().filter(|s| s.1 == 1 || (max_depth >= 3 && s.1 == 2)) {
        let depth = shape_depth(shape);
        let multi = line_multi(shape);
        let cuts = cut_mask(shape);
        for u in META {
            if u == CaseLit && multi.iter().all(|m| *m) {
                continue;
            }
            let st: Vec<Style> = multi.iter().map(|m| if *m { u.for_group() } else { u }).collect();
            let _ = lines;
            for order in 0..2 {
                n_r += 1;
                real_tally.add(depth, &st, cuts);
                if !ctx.next_is_mine() {
                    ctx.skip_cases(1);
                    continue;
                }
                let l = layout(shape, &st, &real_base, None);
                ctx.case(|| format!("[RG real FS, creation order {}] shape {} styles [{}]\n{}", order, shape, style_names(&st), render(&l)).replace(&env.scratch, "<scratch>"), || judge_real_split(&env, &b, &l, depth, order, 0));
            }
        }
        let _ = multi;
    }
    ctx.fact("family_R_cases", n_r);
    real_tally.emit(ctx, "real");

    // RN: no-match on the real FS: every 1-line tree x style
    let mut n_rn = 0u64;
    for (shape, _) in all_shapes.iter().filter(|s| s.1 == 1) {
        let multi = line_multi(shape);
        for_each_styles_in(&multi, &EVERY, &EVERY_GLOB, |st| {
            n_rn += 1;
            if !ctx.next_is_mine() {
                ctx.skip_cases(1);
                return;
            }
            let l = layout(shape, st, &real_base, Some(0));
            ctx.case(|| format!("[RN real FS, line 0 matches nothing] shape {} styles [{}]\n{}", shape, style_names(st), render(&l)).replace(&env.scratch, "<scratch>"), || judge_real_nomatch(&env, &b, &l));
        });
    }
    ctx.fact("family_RN_cases", n_rn);

    // RC: recursion on the real FS (loader and CLI)
    let mut n_rc = 0u64;
    for k in 0..=max_depth {
        for style in ALL {
            if k == 0 && style != Same {
                continue;
            }
            for to in 0..=k {
                for back in BACKS {
                    n_rc += 1;
                    if !ctx.next_is_mine() {
                        ctx.skip_cases(1);
                        continue;
                    }
                    let (l, t) = layout_back(&real_base, k, style, k, to, back);
                    ctx.case(
                        || format!("[RC real FS] chain depth {} style {:?}; file {} includes ancestor {} as `{}` ({:?})\n{}", k, style, k, to, t, back, render(&l)).replace(&env.scratch, "<scratch>"),
                        || {
                            materialise(&l, &real_base, 0);
                            let o = judge_recursive(&b, "real", &load::new_loader(PathBuf::from(&l.root)));
                            let outs = cli_outputs(&l.root);
                            if let Some(i) = outs.iter().position(|o| o.starts_with("EXIT 0")) {
                                return Outcome::dont_care(format!("recursive/real/cli-{}-succeeds", CLI_CMDS[i]));
                            }
                            o
                        },
                    );
                }
            }
        }
    }
    ctx.fact("family_RC_cases", n_rc);

    // RD: repeated non-recursive include on the real FS (loader; the CLI reports must not change: a comment has no effect)
    for variant in 0..2 {
        for style in ALL {
            for back in BACKS {
                if variant == 0 && back != Back::Rel {
                    continue;
                }
                if !ctx.next_is_mine() {
                    ctx.skip_cases(1);
                    continue;
                }
                let (l, twice, once) = layout_repeat(&real_base, variant, style, back);
                ctx.case(
                    || format!("[RD real FS] {} style {:?} back {:?}\n{}", if variant == 0 { "identical include line twice" } else { "diamond: two files include shared.dat" }, style, back, render(&l)).replace(&env.scratch, "<scratch>"),
                    || {
                        materialise(&l, &real_base, 0);
                        let (seen, res) = collect(&b.known, &load::new_loader(PathBuf::from(&l.root)));
                        let o = judge_repeat("real", &l, &twice, &once, &seen, &res, &real_norm);
                        if variant == 1 && matches!(o.verdict, crate::fw::Verdict::Pass) {
                            // the shared file holds only a comment: balance, register and accounts must be those of the unsplit ledger
                            let outs = cli_outputs(&l.root);
                            for i in [0usize, 1, 3] {
                                if outs[i] != env.cli_base[i] {
                                    return Outcome::violation(format!("repeated-include/real/cli-{}-differs", CLI_CMDS[i]), format!("--- unsplit ---\n{}--- diamond ---\n{}", env.cli_base[i], outs[i]));
                                }
                            }
                        }
                        o
                    },
                );
            }
        }
    }
    let _ = std::fs::remove_dir_all(&env.scratch);
}
