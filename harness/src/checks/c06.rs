//! C06 — every input yields output or a diagnostic: no crash, no hang.
//!
//! Verdicts come from the worker isolation of the framework: a panic is caught (crash/...), a worker
//! that dies (stack overflow, abort) or makes no progress for `hang_s` seconds is detected by the
//! driver (abort/... , hang). Families 1-3 run in-process; family 4 (pumping) and a slice of
//! family 3 run the real hooks-off binary as a sub-process.

use std::collections::BTreeMap;
use std::path::{Path, PathBuf};
use std::time::{Duration, Instant};

use okane_core::report;
use okane_core::report::query::{BalanceQuery, Conversion, ConversionStrategy, DateRange, PostingQuery};

use crate::fw::{CheckDef, Ctx, Outcome, Tier};
use crate::oka;

pub const DEF: CheckDef = CheckDef {
    id: "C06",
    run,
    technique: "bounded-exhaustive input enumeration under process isolation with a hang watchdog: all token strings up to a length bound, every truncation of every valid ledger, all include graphs on up to 3 files, and pumping of every nestable/repeatable construct, through parse, format, load, balance, register, accounts and conversion",
    rule: "case = one input. Family 1: ALL sequences of <= 4 (thorough 5) tokens over a 30-token ledger alphabet. Family 2: every prefix cut at every character and at every byte of every .ledger file in the repository and of a kitchen-sink document. Family 3: all directed include graphs on <= 3 files with <= 2 include lines each (self loops, cycles, diamonds, missing targets, globs matching the includer) on the in-memory file system, the smallest also on the real file system through the real binary. Family 4: every nestable or repeatable construct pumped to n in {1,10,100,1000,10000,100000} through the real binary, plus all 1-2 posting transactions containing a zero (amount, rate, total, price-db rate) through balance / register / conversion. Oracle: terminates within the watchdog, no panic, process not killed by a signal, and a failure carries a non-empty message. states = distinct inputs, transitions = command executions",
    assumptions: &["numbers stay within the representable decimal range (the pumping of literal digits checks that out-of-range literals are rejected, not that arithmetic on them is defined)", "hang threshold 20 s per case (normal cases take microseconds to milliseconds)"],
    shards: 128,
    hang_s: 20,
    single_worker: false,
};

const TOKENS: [&str; 30] = [
    "2024/01/01", " ", "  ", "\t", "\n", "\r\n", ";", "A:b", "1", "1,000.5", "-", ".", ",", "USD", "(", ")", "{", "}", "[", "]", "@", "@@", "=", "*", "!", ":", "include x", "account", "\u{e9}", "\u{65e5}",
];

/// Render an error and its whole source chain; rendering itself must not panic either.
fn chain_text(e: &dyn std::error::Error) -> String {
    let mut s = e.to_string();
    let mut cur = e.source();
    while let Some(c) = cur {
        s.push_str("\nCaused by ");
        s.push_str(&c.to_string());
        cur = c.source();
    }
    s
}

/// Run everything okane offers on one in-memory file tree. Returns a coarse outcome class or a violation.
pub fn exercise(files: &[(&str, &[u8])], root: &str) -> Outcome {
    let mut class = String::new();
    // format (parse + print) on the root text if it is UTF-8
    if let Some((_, bytes)) = files.iter().find(|(p, _)| *p == root) {
        let mut out: Vec<u8> = vec![];
        let mut r: &[u8] = bytes;
        match okane::format::format(&mut r, &mut out) {
            Ok(()) => {
                class.push_str("format-ok");
                // formatting the formatted text must not crash either
                let mut out2: Vec<u8> = vec![];
                let mut r2: &[u8] = &out;
                let _ = okane::format::format(&mut r2, &mut out2);
            }
            Err(e) => {
                if chain_text(&e).trim().is_empty() {
                    return Outcome::violation("format/error-without-message", "format failed with an empty message");
                }
                class.push_str("format-err");
            }
        }
    }
    let mk = || {
        let mut m: std::collections::HashMap<PathBuf, Vec<u8>> = std::collections::HashMap::new();
        for (p, b) in files {
            m.insert(PathBuf::from(p), b.to_vec());
        }
        okane_core::load::Loader::new(PathBuf::from(root), okane_core::load::FakeFileSystem::from(m)).with_error_renderer(annotate_snippets::Renderer::plain())
    };
    // accounts
    {
        let arena = bumpalo::Bump::new();
        let mut ctx = report::ReportContext::new(&arena);
        match report::accounts(&mut ctx, mk()) {
            Ok(a) => {
                let _ = a.iter().map(|x| x.as_str().len()).sum::<usize>();
                class.push_str("/accounts-ok");
            }
            Err(e) => {
                if chain_text(&e).trim().is_empty() {
                    return Outcome::violation("accounts/error-without-message", "accounts failed with an empty message");
                }
                class.push_str("/accounts-err");
            }
        }
    }
    // process + balance + register + conversions
    {
        let arena = bumpalo::Bump::new();
        let mut ctx = report::ReportContext::new(&arena);
        match report::process(&mut ctx, mk(), &report::ProcessOptions::default()) {
            Ok(mut l) => {
                class.push_str("/process-ok");
                let mut sink = 0usize;
                if let Ok(b) = l.balance(&ctx, &BalanceQuery::default()) {
                    for (a, amt) in b.into_owned().into_vec() {
                        sink += a.as_str().len() + format!("{}", amt.as_inline_display()).len();
                    }
                }
                let posts = l.postings(&ctx, &PostingQuery { account: None });
                let mut running = report::Amount::default();
                for p in posts {
                    running += p.amount.clone();
                    sink += format!("{} {}", p.amount.as_inline_display(), running.as_inline_display()).len();
                }
                // date ranges in every order (open, proper, empty, inverted) around the dates of the file
                {
                    let dates: Vec<chrono::NaiveDate> = l.transactions().map(|t| t.date).collect();
                    if let (Some(lo), Some(hi)) = (dates.iter().min().copied(), dates.iter().max().copied()) {
                        let mid = dates[dates.len() / 2];
                        let bounds = [None, Some(lo), Some(mid), hi.succ_opt()];
                        for s in bounds {
                            for e in bounds {
                                match l.balance(&ctx, &BalanceQuery { conversion: None, date_range: DateRange { start: s, end: e } }) {
                                    Ok(b) => sink += b.into_owned().into_vec().len(),
                                    Err(e) => {
                                        if chain_text(&e).trim().is_empty() {
                                            return Outcome::violation("balance-range/error-without-message", "range balance failed with an empty message");
                                        }
                                    }
                                }
                            }
                        }
                    }
                }
                let d = oka::date(2024, 6, 1);
                for name in ["USD", "\u{65e5}", "A:b"] {
                    if let Some(c) = ctx.commodity(name) {
                        for strategy in [ConversionStrategy::Historical, ConversionStrategy::UpToDate { now: d }] {
                            let q = BalanceQuery { conversion: Some(Conversion { strategy, target: c }), date_range: DateRange { start: Some(oka::date(2024, 1, 1)), end: None } };
                            match l.balance(&ctx, &q) {
                                Ok(b) => sink += b.into_owned().into_vec().len(),
                                Err(e) => {
                                    if chain_text(&e).trim().is_empty() {
                                        return Outcome::violation("balance-X/error-without-message", "conversion failed with an empty message");
                                    }
                                }
                            }
                        }
                    }
                }
                let _ = sink;
            }
            Err(e) => {
                if chain_text(&e).trim().is_empty() {
                    return Outcome::violation("process/error-without-message", "process failed with an empty message");
                }
                class.push_str("/process-err");
            }
        };
    }
    Outcome::pass(class)
}

const INCLUDED_X: &[u8] = b"2024/02/02 included\n  X:y  1 USD\n  X:z\n";

fn kitchen_sink() -> String {
    "; top comment\n# another\n\naccount Assets:Bank\n  note main account\n  alias bank\n  ; comment\n\ncommodity USD\n  note dollar\n  alias $\n  format 1,000.00 USD\n\napply tag trip\n\n2024/01/05=2024/01/07 * (C-1) Payee name ; inline: note\n  ; :tag1:tag2:\n  ; key: value\n  ; amt:: (1 + 2)\n  ! Assets:Bank  -1,234.50 USD = 10,000 USD ; posting note\n  Expenses:Food  (1,000 USD + 234.50 USD)\n\n2024-02-01 buy\n  Assets:Broker  10 AAPL {100 USD} [2024/01/01] (lot note) @ 110 USD\n  Assets:Broker  -5 AAPL {{500 USD}} @@ 550 USD\n  Assets:Bank  = 9,000 USD\n  Income:Gain\n\nend apply tag\n\ninclude x\n\n2024/03/01 \u{65e5}\u{672c}\u{8a9e} \u{306e} payee\n  \u{8cc7}\u{7523}:\u{9280}\u{884c}  1,000 JPY\n  bank  -10 USD\n  Equity\n".to_string()
}

fn corpus() -> Vec<(String, String)> {
    let mut v = vec![("<kitchen-sink>".to_string(), kitchen_sink())];
    let mut files: Vec<PathBuf> = vec![];
    fn walk(d: &Path, out: &mut Vec<PathBuf>) {
        if let Ok(rd) = std::fs::read_dir(d) {
            let mut es: Vec<PathBuf> = rd.flatten().map(|e| e.path()).collect();
            es.sort();
            for p in es {
                if p.is_dir() {
                    if p.file_name().map(|n| n == "target" || n == ".git").unwrap_or(false) {
                        continue;
                    }
                    walk(&p, out);
                } else if p.extension().map(|e| e == "ledger").unwrap_or(false) {
                    out.push(p);
                }
            }
        }
    }
    walk(Path::new("/repo/testdata"), &mut files);
    walk(Path::new("/repo/cli/tests/testdata"), &mut files);
    walk(Path::new("/repo/core/tests"), &mut files);
    for f in files {
        if let Ok(s) = std::fs::read_to_string(&f) {
            v.push((f.to_string_lossy().to_string(), s));
        }
    }
    v
}

// ---------------------------------------------------------------------------------------------
// family 3: include graphs

const INC_TARGETS: [&str; 5] = ["f0.ledger", "f1.ledger", "f2.ledger", "missing.ledger", "*.ledger"];

/// includes of one file: 0, 1 or 2 include lines over INC_TARGETS (index into a flat enumeration of 31 options)
fn include_option(k: usize) -> Vec<&'static str> {
    match k {
        0 => vec![],
        1..=5 => vec![INC_TARGETS[k - 1]],
        _ => {
            let j = k - 6;
            vec![INC_TARGETS[j / 5], INC_TARGETS[j % 5]]
        }
    }
}

fn graph_files(nfiles: usize, opts: &[usize]) -> Vec<(String, String)> {
    (0..nfiles)
        .map(|i| {
            let mut t = format!("2024/01/0{} t{}\n  A{}  1 USD\n  B\n\n", i + 1, i, i);
            for inc in include_option(opts[i]) {
                t.push_str(&format!("include {}\n", inc));
            }
            t.push_str(&format!("\n2024/02/0{} u{}\n  C{}  2 USD\n  D\n", i + 1, i, i));
            (format!("/v/f{}.ledger", i), t)
        })
        .collect()
}

/// Is there a cycle reachable from f0 (following literal and glob includes among existing files)?
fn has_cycle(nfiles: usize, opts: &[usize]) -> (bool, bool) {
    // returns (cycle reachable, missing target reachable before any cycle is certain) — coarse, used only for classes
    let succ = |i: usize| -> Vec<Option<usize>> {
        let mut v = vec![];
        for inc in include_option(opts[i]) {
            match inc {
                "*.ledger" => {
                    for j in 0..nfiles {
                        v.push(Some(j));
                    }
                }
                "missing.ledger" => v.push(None),
                f => {
                    let j: usize = f[1..2].parse().unwrap();
                    v.push(if j < nfiles { Some(j) } else { None });
                }
            }
        }
        v
    };
    fn dfs(i: usize, stack: &mut Vec<usize>, succ: &dyn Fn(usize) -> Vec<Option<usize>>, cyc: &mut bool, miss: &mut bool) {
        if stack.contains(&i) {
            *cyc = true;
            return;
        }
        stack.push(i);
        for s in succ(i) {
            match s {
                None => *miss = true,
                Some(j) => dfs(j, stack, succ, cyc, miss),
            }
            if *cyc {
                break;
            }
        }
        stack.pop();
    }
    let (mut cyc, mut miss) = (false, false);
    dfs(0, &mut vec![], &succ, &mut cyc, &mut miss);
    (cyc, miss)
}

// ---------------------------------------------------------------------------------------------
// family 4: pumping through the real binary

fn run_binary(args: &[&str], timeout: Duration, tick: &dyn Fn()) -> (String, usize, usize) {
    let mut child = std::process::Command::new(super::c13::OFF_BINARY).args(args).env_remove("RUST_LOG").stdout(std::process::Stdio::piped()).stderr(std::process::Stdio::piped()).spawn().expect("spawn okane");
    // drain pipes in threads so that a large output cannot block the child
    let mut so = child.stdout.take().unwrap();
    let mut se = child.stderr.take().unwrap();
    let t1 = std::thread::spawn(move || {
        let mut b = vec![];
        std::io::Read::read_to_end(&mut so, &mut b).ok();
        b.len()
    });
    let t2 = std::thread::spawn(move || {
        let mut b = vec![];
        std::io::Read::read_to_end(&mut se, &mut b).ok();
        b.len()
    });
    let t0 = Instant::now();
    let status = loop {
        match child.try_wait().expect("wait") {
            Some(st) => break Some(st),
            None => {
                if t0.elapsed() > timeout {
                    let _ = child.kill();
                    let _ = child.wait();
                    break None;
                }
                tick();
                std::thread::sleep(Duration::from_millis(5));
            }
        }
    };
    let (o, e) = (t1.join().unwrap_or(0), t2.join().unwrap_or(0));
    use std::os::unix::process::ExitStatusExt;
    let kind = match status {
        None => "hang".to_string(),
        Some(st) => match (st.code(), st.signal()) {
            (Some(c), _) => format!("exit-{}", c),
            (None, Some(s)) => format!("signal-{}", s),
            _ => "unknown".to_string(),
        },
    };
    (kind, o, e)
}

fn pump(kind: &str, n: usize) -> Option<String> {
    let rep = |s: &str, n: usize| s.repeat(n);
    Some(match kind {
        "nested-parens-amount" => format!("2024/01/01 x\n  A  {}1 USD{}\n  B\n", rep("(", n), rep(")", n)),
        "nested-parens-cost" => format!("2024/01/01 x\n  A  1 EUR @ {}1 USD{}\n  B\n", rep("(", n), rep(")", n)),
        "nested-parens-assertion" => format!("2024/01/01 x\n  A  1 USD = {}1 USD{}\n  B\n", rep("(", n), rep(")", n)),
        "unary-minus-chain" => format!("2024/01/01 x\n  A  ({}1 USD{})\n  B\n", rep("-(", n), rep(")", n)),
        "long-sum" => format!("2024/01/01 x\n  A  (1 USD{})\n  B\n", rep(" + 1 USD", n)),
        "long-sum-of-parenthesised-operands" => format!("2024/01/01 x\n  A  (1 USD{})\n  B\n", rep(" + (1 USD)", n)),
        "long-product-of-negated-operands" => format!("2024/01/01 x\n  A  (1 USD{})\n  B\n", rep(" * -(1)", n)),
        "run-of-minus-signs" => format!("2024/01/01 x\n  A  ({}1 USD)\n  B\n", rep("-", n)),
        "run-of-minus-signs-in-operand" => format!("2024/01/01 x\n  A  (1 USD + {}1 USD)\n  B\n", rep("-", n)),
        "long-sum-in-assertion" => format!("2024/01/01 x\n  A  1 USD = (1 USD{})\n  B\n", rep(" - (0 USD)", n)),
        "many-commodities-in-one-amount" => {
            let mut s = String::from("2024/01/01 x\n  A  (1 C0");
            for i in 1..n {
                s.push_str(&format!(" + 1 C{}", letters(i)));
            }
            s.push_str(")\n  B\n");
            s
        }
        "many-postings" => format!("2024/01/01 x\n{}  B\n", rep("  A  1 USD\n", n)),
        "many-transactions" => rep("2024/01/01 x\n  A  1 USD\n  B\n\n", n),
        "many-metadata-lines" => format!("2024/01/01 x\n{}  A  1 USD\n  B\n", rep("  ; k: v\n", n)),
        "many-blank-lines" => format!("{}2024/01/01 x\n  A  1 USD\n  B\n", rep("\n", n)),
        "many-comment-lines" => format!("{}2024/01/01 x\n  A  1 USD\n  B\n", rep("; c\n", n)),
        "long-account-name" => format!("2024/01/01 x\n  {}  1 USD\n  B\n", rep("a", n)),
        "long-payee" => format!("2024/01/01 {}\n  A  1 USD\n  B\n", rep("p", n)),
        "long-commodity" => format!("2024/01/01 x\n  A  1 {}\n  B\n", rep("U", n)),
        "literal-digits" => format!("2024/01/01 x\n  A  {} USD\n  B\n", rep("9", n)),
        "literal-fraction-digits" => format!("2024/01/01 x\n  A  0.{}1 USD\n  B\n", rep("0", n)),
        "many-accounts" => {
            let mut s = String::from("2024/01/01 x\n");
            for i in 0..n {
                s.push_str(&format!("  A{}  1 USD\n", i));
            }
            s.push_str("  B\n");
            s
        }
        "many-aliases" => {
            let mut s = String::from("account A\n");
            for i in 0..n {
                s.push_str(&format!("  alias a{}\n", i));
            }
            s.push_str("\n2024/01/01 x\n  a0  1 USD\n  B\n");
            s
        }
        "big-product" => format!("2024/01/01 x\n  A  (1 USD{})\n  B\n", rep(" * 10", n.min(27))),
        _ => return None,
    })
}

fn letters(mut i: usize) -> String {
    // commodity names cannot contain digits
    let mut s = String::new();
    loop {
        s.push((b'a' + (i % 26) as u8) as char);
        i /= 26;
        if i == 0 {
            break;
        }
    }
    s
}

const PUMP_KINDS: [&str; 24] = [
    "nested-parens-amount", "nested-parens-cost", "nested-parens-assertion", "unary-minus-chain", "run-of-minus-signs", "run-of-minus-signs-in-operand", "long-sum", "long-sum-of-parenthesised-operands", "long-product-of-negated-operands", "long-sum-in-assertion", "many-commodities-in-one-amount", "many-postings", "many-transactions", "many-metadata-lines", "many-blank-lines", "many-comment-lines", "long-account-name", "long-payee", "long-commodity", "literal-digits", "literal-fraction-digits", "many-accounts", "many-aliases", "big-product",
];

fn judge_binary(kind: &str, e_len: usize) -> Option<Outcome> {
    match kind {
        "exit-0" => None,
        "exit-1" => {
            if e_len == 0 {
                Some(Outcome::violation("binary/failure-without-message", "exit status 1 with empty stderr"))
            } else {
                None
            }
        }
        "hang" => Some(Outcome::violation("binary/hang", "the okane process did not finish within the time limit and was killed")),
        k if k.starts_with("signal-") => Some(Outcome::violation(format!("binary/killed-by-{}", k), "the okane process was killed by a signal (stack overflow / abort)")),
        k => Some(Outcome::violation(format!("binary/unexpected-{}", k), "unexpected exit status (a panic exits with 101)")),
    }
}

fn run(ctx: &mut Ctx) {
    let dir = oka::scratch_dir("c06");
    // ---------------- family 1: raw token strings
    let maxlen = ctx.tier.pick(4u32, 5u32);
    let nt = TOKENS.len() as u64;
    for len in 1..=maxlen {
        let total = nt.pow(len);
        for k in 0..total {
            if !ctx.next_is_mine() {
                ctx.skip_cases(1);
                continue;
            }
            let mut text = String::new();
            let mut x = k;
            for _ in 0..len {
                text.push_str(TOKENS[(x % nt) as usize]);
                x /= nt;
            }
            ctx.case(|| format!("{:?}", text), || exercise(&[(oka::ROOT, text.as_bytes()), ("/v/x", INCLUDED_X)], oka::ROOT));
        }
    }
    // a second pass with a valid header in front, so that the tokens are met in posting position as well
    let maxlen2 = ctx.tier.pick(3u32, 4u32);
    for len in 1..=maxlen2 {
        let total = nt.pow(len);
        for k in 0..total {
            if !ctx.next_is_mine() {
                ctx.skip_cases(1);
                continue;
            }
            let mut text = String::from("2024/01/01 p\n  A  1 USD\n  B");
            let mut x = k;
            for _ in 0..len {
                text.push_str(TOKENS[(x % nt) as usize]);
                x /= nt;
            }
            ctx.case(|| format!("{:?}", text), || exercise(&[(oka::ROOT, text.as_bytes()), ("/v/x", INCLUDED_X)], oka::ROOT));
        }
    }
    // ---------------- family 2: truncations
    let corpus = corpus();
    ctx.fact("truncation_corpus_files", corpus.len() as u64);
    ctx.fact("truncation_corpus_bytes", corpus.iter().map(|(_, s)| s.len() as u64).sum::<u64>());
    for (name, text) in &corpus {
        let bytes = text.as_bytes();
        for cut in 0..=bytes.len() {
            if !ctx.next_is_mine() {
                ctx.skip_cases(1);
                continue;
            }
            let is_char = text.is_char_boundary(cut);
            ctx.case(
                || format!("prefix of {} cut at byte {} ({}):\n{}", name, cut, if is_char { "character boundary" } else { "inside a multi-byte character" }, String::from_utf8_lossy(&bytes[..cut])),
                || exercise(&[(oka::ROOT, &bytes[..cut]), ("/v/x", INCLUDED_X)], oka::ROOT),
            );
        }
    }
    // ---------------- family 2m: marks in front of the file x refused entries x the character before each line break
    // a byte order mark (or another invisible character) before the first entry, an entry that book-keeping or the parser
    // refuses, and a 1-, 2-, 3- or 4-byte character as the last character of every line of it: whatever okane makes of the
    // mark, the diagnostic must be built without a crash
    {
        let marks = ["", "\u{feff}", "\u{feff}\u{feff}", "\u{200b}", "\u{feff}\n", "\u{feff}; c\n", " \u{feff}"];
        let faults = [
            "2024/01/01 p{E}\n  A:a{E}\n  B:b{E}\n\n",
            "2024/01/01 p{E}\n  A  1 X = 5 X ; c{E}\n  B:b{E}\n\n",
            "2024/01/01 p{E}\n  A  1 X ; c{E}\n  B  2 X ; c{E}\n\n",
            "2024/01/01 fine{E}\n  A  1 X ; c{E}\n  B:b{E}\n\n2024/01/02 bad{E}\n  A  1 X\n  B  1 X ; c{E}\n",
            "; c{E}\n2024/01/01 p{E}\n  A  1 X @ 0 Y ; c{E}\n  B:b{E}\n\n",
            "account A:a{E}\n  alias Z{E}\n\naccount Z\n  ; c{E}\n\n",
            "2024/01/01 p{E}\n  A  1 X ; c{E}\n  B  (1 X + ; c{E}\n",
            "2024/01/01 fine{E}\n  A  1 X\n  B:b{E}\n",
        ];
        let ends = ["", "x", "\u{e9}", "\u{65e5}", "\u{1f600}", "\u{65e5}\u{672c}"];
        for mark in marks {
            for fault in faults {
                for end in ends {
                    for crlf in [false, true] {
                        for final_newline in [true, false] {
                            if !ctx.next_is_mine() {
                                ctx.skip_cases(1);
                                continue;
                            }
                            let mut body = fault.replace("{E}", end);
                            if !final_newline {
                                body = body.trim_end_matches('\n').to_string();
                            }
                            if crlf {
                                body = body.replace('\n', "\r\n");
                            }
                            let text = format!("{}{}", mark, body);
                            ctx.case(|| format!("mark {:?} in front of:\n{}", mark, text.escape_debug()), || exercise(&[(oka::ROOT, text.as_bytes()), ("/v/x", INCLUDED_X)], oka::ROOT));
                        }
                    }
                }
            }
        }
    }
    // ---------------- family 3: include graphs (in-memory)
    let mut graphs: Vec<(usize, Vec<usize>)> = vec![];
    for a in 0..31 {
        graphs.push((1, vec![a]));
    }
    for a in 0..31 {
        for b in 0..31 {
            graphs.push((2, vec![a, b]));
        }
    }
    let per3 = ctx.tier.pick(6usize, 31usize); // quick: <= 1 include line per file for 3-file graphs
    for a in 0..per3 {
        for b in 0..per3 {
            for c in 0..per3 {
                graphs.push((3, vec![a, b, c]));
            }
        }
    }
    ctx.fact("include_graphs", graphs.len() as u64);
    for (n, opts) in &graphs {
        if !ctx.next_is_mine() {
            ctx.skip_cases(1);
            continue;
        }
        let files = graph_files(*n, opts);
        ctx.case(
            || files.iter().map(|(p, t)| format!("== {} ==\n{}", p, t)).collect::<Vec<_>>().join("\n"),
            || {
                let fr: Vec<(&str, &[u8])> = files.iter().map(|(p, t)| (p.as_str(), t.as_bytes())).collect();
                let o = exercise(&fr, "/v/f0.ledger");
                let (cyc, miss) = has_cycle(*n, opts);
                match o.verdict {
                    crate::fw::Verdict::Pass => {
                        if cyc && o.class.contains("process-ok") {
                            return Outcome::violation("include-cycle-accepted", "the include graph is cyclic but loading succeeded (it cannot have terminated faithfully)");
                        }
                        Outcome::pass(format!("include-graph/{}{}/{}", if cyc { "cyclic" } else { "acyclic" }, if miss { "+missing" } else { "" }, o.class))
                    }
                    _ => o,
                }
            },
        );
    }
    // ---------------- family 3b: include graphs across directories, every edge written through `..`
    // files a/f0, b/f1, a/f2; per file 0..=k include lines; each include names its target either as
    // `../<dir>/<file>` or redundantly as `../<own dir>/../<dir>/<file>` (same file, different spelling), so a
    // loader that recognises a revisited file by the path as written (not by the file it denotes) is exposed.
    {
        const DIRS: [&str; 3] = ["a", "b", "a"];
        let spell = |from: usize, to: usize, style: usize| -> String {
            match style {
                0 => format!("../{}/f{}.ledger", DIRS[to], to),
                _ => format!("../{}/../{}/f{}.ledger", DIRS[from], DIRS[to], to),
            }
        };
        // an include option of file i: list of (target, style); targets 0..3, styles 0..2 -> 6 single edges, or none, or two edges
        let mut opts_of: Vec<Vec<(usize, usize)>> = vec![vec![]];
        for t in 0..3 {
            for st in 0..2 {
                opts_of.push(vec![(t, st)]);
            }
        }
        if ctx.tier == Tier::Thorough {
            for t1 in 0..3 {
                for t2 in 0..3 {
                    for st in 0..2 {
                        opts_of.push(vec![(t1, st), (t2, 1 - st)]);
                    }
                }
            }
        }
        let k = opts_of.len();
        ctx.fact("include_graphs_across_directories", (k * k * k) as u64);
        for a in 0..k {
            for b in 0..k {
                for c in 0..k {
                    if !ctx.next_is_mine() {
                        ctx.skip_cases(1);
                        continue;
                    }
                    let sel = [&opts_of[a], &opts_of[b], &opts_of[c]];
                    let files: Vec<(String, String)> = (0..3)
                        .map(|i| {
                            let mut t = format!("2024/01/0{} t{}\n  A{}  1 USD\n  B\n\n", i + 1, i, i);
                            for (to, st) in sel[i].iter() {
                                t.push_str(&format!("include {}\n", spell(i, *to, *st)));
                            }
                            (format!("/v/{}/f{}.ledger", DIRS[i], i), t)
                        })
                        .collect();
                    // cycle reachable from f0?
                    let mut cyc = false;
                    fn dfs(i: usize, stack: &mut Vec<usize>, sel: &[&Vec<(usize, usize)>; 3], cyc: &mut bool) {
                        if stack.contains(&i) {
                            *cyc = true;
                            return;
                        }
                        stack.push(i);
                        for (to, _) in sel[i].iter() {
                            dfs(*to, stack, sel, cyc);
                            if *cyc {
                                break;
                            }
                        }
                        stack.pop();
                    }
                    dfs(0, &mut vec![], &sel, &mut cyc);
                    let tick_ctx: *const Ctx = ctx;
                    let tick = move || unsafe { (*tick_ctx).tick() };
                    let gdir = dir.join(format!("dgraph-{}", ctx.shard));
                    ctx.case(
                        || format!("[real file system, real binary: balance a/f0.ledger]\n{}", files.iter().map(|(p, t)| format!("== {} ==\n{}", p, t)).collect::<Vec<_>>().join("\n")),
                        || {
                            // (the in-memory FakeFileSystem does not resolve `..` when matching include patterns, so this
                            // family needs real directories)
                            let _ = std::fs::remove_dir_all(&gdir);
                            for (p, t) in &files {
                                let f = gdir.join(p.trim_start_matches("/v/"));
                                std::fs::create_dir_all(f.parent().unwrap()).expect("mkdir");
                                std::fs::write(&f, t).expect("write");
                            }
                            let root = gdir.join("a/f0.ledger");
                            let (kind, _o, e) = run_binary(&["balance", &root.to_string_lossy()], Duration::from_secs(15), &tick);
                            if let Some(v) = judge_binary(&kind, e) {
                                return match v.verdict {
                                    crate::fw::Verdict::Violation { sig, detail } => Outcome::violation(format!("{}/include-graph-across-directories/{}", sig, if cyc { "cyclic" } else { "acyclic" }), detail),
                                    _ => v,
                                };
                            }
                            if cyc && kind == "exit-0" {
                                return Outcome::violation("include-cycle-accepted/across-directories", "the include graph is cyclic but loading succeeded (it cannot have terminated faithfully)");
                            }
                            if !cyc && kind != "exit-0" {
                                return Outcome::violation("acyclic-include-graph-rejected/across-directories", "every include names an existing file and there is no cycle, but okane balance failed");
                            }
                            Outcome::pass(format!("include-graph-dirs/{}/{}", if cyc { "cyclic" } else { "acyclic" }, kind))
                        },
                    );
                }
            }
        }
    }
    // real file system through the real binary: the 1- and 2-file graphs (thorough) / a slice (quick)
    let real_graphs: Vec<(usize, Vec<usize>)> = graphs.iter().filter(|(n, o)| *n == 1 || (*n == 2 && (ctx.tier == Tier::Thorough || (o[0] * 31 + o[1]) % 23 == 0))).cloned().collect();
    for (n, opts) in &real_graphs {
        if !ctx.next_is_mine() {
            ctx.skip_cases(1);
            continue;
        }
        let files = graph_files(*n, opts);
        let tick_ctx: *const Ctx = ctx;
        let tick = move || unsafe { (*tick_ctx).tick() };
        let gdir = dir.join(format!("graph-{}", ctx.shard));
        ctx.case(
            || format!("[real file system, real binary: balance f0.ledger]\n{}", files.iter().map(|(p, t)| format!("== {} ==\n{}", p, t)).collect::<Vec<_>>().join("\n")),
            || {
                let _ = std::fs::remove_dir_all(&gdir);
                std::fs::create_dir_all(&gdir).expect("mkdir");
                for (p, t) in &files {
                    std::fs::write(gdir.join(p.trim_start_matches("/v/")), t).expect("write");
                }
                let root = gdir.join("f0.ledger");
                for cmd in ["balance", "accounts"] {
                    let (kind, _o, e) = run_binary(&[cmd, &root.to_string_lossy()], Duration::from_secs(15), &tick);
                    if let Some(v) = judge_binary(&kind, e) {
                        return v;
                    }
                }
                Outcome::pass("include-graph/real-fs")
            },
        );
    }
    // ---------------- family 4: pumping through the real binary
    let sizes: &[usize] = ctx.tier.pick(&[1usize, 10, 100, 1000, 10000][..], &[1usize, 10, 100, 1000, 10000, 100000][..]);
    for kind in PUMP_KINDS {
        let expression_shaped = kind.starts_with("nested-parens") || (kind.starts_with("long-") && !matches!(kind, "long-account-name" | "long-payee" | "long-commodity")) || kind == "unary-minus-chain" || kind.starts_with("run-of-minus");
        let deep: &[usize] = ctx.tier.pick(&[1usize, 10, 100, 1000, 10000, 100000][..], &[1usize, 10, 100, 1000, 10000, 100000, 1000000][..]);
        // whole-file constructs also at 10^5 in the quick tier (0.2 s on the unchanged tree): work that grows with the SQUARE of the
        // number of entries, lines or postings stays invisible at 10^4
        let linear_scale = matches!(kind, "many-transactions" | "many-postings" | "many-metadata-lines" | "many-blank-lines" | "many-comment-lines" | "many-accounts" | "many-aliases");
        let whole_file: &[usize] = &[1usize, 10, 100, 1000, 10000, 100000];
        for &n in if expression_shaped { deep } else if linear_scale { whole_file } else { sizes } {
            if !ctx.next_is_mine() {
                ctx.skip_cases(1);
                continue;
            }
            let tick_ctx: *const Ctx = ctx;
            let tick = move || unsafe { (*tick_ctx).tick() };
            let path = dir.join(format!("pump-{}.ledger", ctx.shard));
            ctx.case(
                || format!("[real binary: balance, register, format, accounts] construct {} pumped to n = {}", kind, n),
                || {
                    let text = pump(kind, n).expect("known kind");
                    std::fs::write(&path, &text).expect("write");
                    let p = path.to_string_lossy().to_string();
                    for cmd in ["balance", "register", "format", "accounts"] {
                        let (k, _o, e) = run_binary(&[cmd, &p], Duration::from_secs(15), &tick);
                        if let Some(v) = judge_binary(&k, e) {
                            return match v.verdict {
                                crate::fw::Verdict::Violation { sig, detail } => Outcome::violation(format!("{}/{}/{}", sig, cmd, kind), detail),
                                _ => v,
                            };
                        }
                    }
                    Outcome::pass(format!("pump/{}", kind))
                },
            );
        }
    }
    // price graphs through `balance -X` / `primitive eval -X`: a run of n tied "diamonds" (H0 -> A0|B0 -> H1 -> A1|B1 -> ...,
    // every quote on the same day, both branches with the same rates 2 x 0.5, so that values stay in range: 2^n equally ranked chains), a chain of n commodities,
    // a star of n commodities around the target, a complete graph on n commodities
    for kind in ["tied-diamonds", "long-chain", "star", "complete-graph"] {
        let ns: &[usize] = match kind {
            "complete-graph" => ctx.tier.pick(&[2usize, 5, 10, 20][..], &[2usize, 5, 10, 20, 40][..]),
            _ => ctx.tier.pick(&[1usize, 5, 10, 20, 40, 100][..], &[1usize, 5, 10, 20, 40, 100, 400][..]),
        };
        for &n in ns {
            if !ctx.next_is_mine() {
                ctx.skip_cases(1);
                continue;
            }
            let tick_ctx: *const Ctx = ctx;
            let tick = move || unsafe { (*tick_ctx).tick() };
            let path = dir.join(format!("prices-{}.ledger", ctx.shard));
            let dbpath = dir.join(format!("prices-{}.db", ctx.shard));
            ctx.case(
                || format!("[real binary: balance -X, balance -X --historical, primitive eval -X] price graph {} with n = {}", kind, n),
                || {
                    let name = |p: &str, i: usize| format!("{}{}", p, letters(i));
                    let mut db = String::new();
                    let (hold, target): (String, String) = match kind {
                        "tied-diamonds" => {
                            for i in 0..n {
                                db.push_str(&format!("P 2024/01/01 {} 2 {}\nP 2024/01/01 {} 2 {}\nP 2024/01/01 {} 0.5 {}\nP 2024/01/01 {} 0.5 {}\n", name("H", i), name("A", i), name("H", i), name("B", i), name("A", i), name("H", i + 1), name("B", i), name("H", i + 1)));
                            }
                            (name("H", 0), name("H", n))
                        }
                        "long-chain" => {
                            for i in 0..n {
                                db.push_str(&format!("P 2024/01/01 {} 1.01 {}\n", name("H", i), name("H", i + 1)));
                            }
                            (name("H", 0), name("H", n))
                        }
                        "star" => {
                            for i in 1..=n {
                                db.push_str(&format!("P 2024/01/01 {} 2 {}\n", name("H", i), name("H", 0)));
                            }
                            (name("H", n), name("H", 1))
                        }
                        _ => {
                            for i in 0..n {
                                for j in i + 1..n {
                                    db.push_str(&format!("P 2024/01/01 {} 2 {}\n", name("H", i), name("H", j)));
                                }
                            }
                            (name("H", 0), name("H", n - 1))
                        }
                    };
                    let text = format!("2024/01/02 hold\n  Assets  10 {}\n  Equity\n", hold);
                    std::fs::write(&path, &text).expect("write");
                    std::fs::write(&dbpath, &db).expect("write");
                    let (p, d) = (path.to_string_lossy().to_string(), dbpath.to_string_lossy().to_string());
                    let amount = format!("1 {}", hold);
                    let cmds: [Vec<&str>; 3] = [
                        vec!["balance", "-X", &target, "--price-db", &d, "--now", "2024-02-01", &p],
                        vec!["balance", "-X", &target, "--historical", "--price-db", &d, "--now", "2024-02-01", &p],
                        vec!["primitive", "eval", "--date", "2024-02-01", "-X", &target, "--price-db", &d, "-f", &p, &amount],
                    ];
                    for cmd in cmds.iter() {
                        let (k, _o, e) = run_binary(cmd, Duration::from_secs(15), &tick);
                        if let Some(v) = judge_binary(&k, e) {
                            return match v.verdict {
                                crate::fw::Verdict::Violation { sig, detail } => Outcome::violation(format!("{}/{}/price-graph-{}", sig, cmd[0], kind), detail),
                                _ => v,
                            };
                        }
                    }
                    Outcome::pass(format!("price-graph/{}", kind))
                },
            );
        }
    }
    // include chain of depth n on the real file system
    for &n in ctx.tier.pick(&[1usize, 10, 100][..], &[1usize, 10, 100, 1000][..]) {
        if !ctx.next_is_mine() {
            ctx.skip_cases(1);
            continue;
        }
        let tick_ctx: *const Ctx = ctx;
        let tick = move || unsafe { (*tick_ctx).tick() };
        let cdir = dir.join(format!("chain-{}", ctx.shard));
        ctx.case(
            || format!("[real binary: balance] chain of {} files, each including the next", n),
            || {
                let _ = std::fs::remove_dir_all(&cdir);
                std::fs::create_dir_all(&cdir).expect("mkdir");
                for i in 0..n {
                    let mut t = format!("2024/01/01 t{}\n  A  1 USD\n  B\n", i);
                    if i + 1 < n {
                        t.push_str(&format!("include c{}.ledger\n", i + 1));
                    }
                    std::fs::write(cdir.join(format!("c{}.ledger", i)), t).expect("write");
                }
                let (k, _o, e) = run_binary(&["balance", &cdir.join("c0.ledger").to_string_lossy()], Duration::from_secs(15), &tick);
                let r = judge_binary(&k, e).unwrap_or_else(|| Outcome::pass("pump/include-chain"));
                let _ = std::fs::remove_dir_all(&cdir);
                r
            },
        );
    }
    // ---------------- column arithmetic of the formatter: every account width 1..=70 x number shapes x posting shapes
    // through parse / format / process (the padding is computed by subtraction: it must never go below zero)
    {
        let numbers = ["1", "1000", "-1,234.56", "1234567890", "0.001"];
        for w in 1..=70usize {
            let name = if w <= 2 { "Ab"[..w].to_string() } else { format!("A:{}", "b".repeat(w - 2)) };
            for num in numbers {
                for shape in 0..4 {
                    if !ctx.next_is_mine() {
                        ctx.skip_cases(1);
                        continue;
                    }
                    let rest = match shape {
                        0 => format!("  {} JPY", num),
                        1 => "  = 0".to_string(),
                        2 => format!("  = {} JPY", num),
                        _ => format!("  {} JPY = {} JPY", num, num),
                    };
                    let text = format!("2024/01/01 p\n  {}{}\n  B\n", name, rest);
                    ctx.case(|| format!("[formatter column arithmetic]\n{}", text), || exercise(&[(oka::ROOT, text.as_bytes())], oka::ROOT));
                }
            }
        }
    }
    // ---------------- arithmetic on user-supplied zeros (in-process; C01's alphabet restricted to shapes with a zero)
    let alpha = super::c01::alphabet();
    let zeroish: Vec<&crate::refledger::P> = alpha
        .iter()
        .filter(|p| match &p.amt {
            Some((v, _)) => *v == "0" || matches!(p.ann, crate::refledger::Ann::Rate("0", _)),
            None => false,
        })
        .collect();
    ctx.fact("zero_shapes", zeroish.len() as u64);
    let dbpath = dir.join(format!("zero-db-{}.txt", ctx.shard));
    let dbs = ["", "P 2024/01/13 X 0 Y\n", "P 2024/01/13 X 0 Y\nP 2024/01/14 Y 0 X\n", "P 2024/01/13 X 0.0 X\n"];
    for (di, db) in dbs.iter().enumerate() {
        for a in &zeroish {
            for b in alpha.iter() {
                if !ctx.next_is_mine() {
                    ctx.skip_cases(1);
                    continue;
                }
                let mut pa = (*a).clone();
                pa.acct = "P1";
                let mut pb = b.clone();
                pb.acct = "P2";
                let text = format!("2024/01/01 z\n{}\n{}\n", pa.render("P1"), pb.render("P2"));
                ctx.case(
                    || format!("{}-- price db --\n{}", text, db),
                    || {
                        let dbp = if db.is_empty() {
                            None
                        } else {
                            std::fs::write(&dbpath, db).expect("write db");
                            Some(dbpath.as_path())
                        };
                        oka::with_ledger(&[(oka::ROOT, text.as_str())], oka::ROOT, dbp, |r| match r {
                            Err(e) => {
                                if e.rendered.trim().is_empty() && e.chain.is_empty() {
                                    Outcome::violation("zero/error-without-message", "empty error")
                                } else {
                                    Outcome::pass(format!("zero/db{}/rejected/{}", di, e.variant))
                                }
                            }
                            Ok((l, ctx2)) => {
                                let d = oka::date(2024, 2, 1);
                                let mut fails = 0;
                                for name in ["X", "Y", "Z"] {
                                    if let Some(c) = ctx2.commodity(name) {
                                        for strategy in [ConversionStrategy::Historical, ConversionStrategy::UpToDate { now: d }] {
                                            if l.balance(ctx2, &BalanceQuery { conversion: Some(Conversion { strategy, target: c }), date_range: DateRange::default() }).is_err() {
                                                fails += 1;
                                            }
                                        }
                                    }
                                }
                                Outcome::pass(format!("zero/db{}/accepted/{}", di, if fails > 0 { "some-conversions-fail" } else { "all-conversions-ok" }))
                            }
                        })
                    },
                );
            }
        }
    }
    // ---------------- residues that vanish only after rounding to a declared precision (in-process)
    // all 2-posting transactions over C01's full alphabet (values 0.005 / -0.015 next to other commodities, zero rates, ...)
    // under each declared-precision context: process + every conversion must return a value or an error, never panic
    {
        let precs: Vec<crate::refledger::Prec> = vec![[("X", 2u32)].into_iter().collect(), [("X", 0u32)].into_iter().collect(), [("X", 2u32), ("Y", 0u32)].into_iter().collect()];
        for (pi, prec) in precs.iter().enumerate() {
            let header = crate::refledger::prec_header(prec);
            for a in alpha.iter() {
                for b in alpha.iter() {
                    if !ctx.next_is_mine() {
                        ctx.skip_cases(1);
                        continue;
                    }
                    let text = format!("{}2024/01/01 z\n{}\n{}\n", header, a.render("P1"), b.render("P2"));
                    ctx.case(
                        || text.clone(),
                        || {
                            oka::with_ledger(&[(oka::ROOT, text.as_str())], oka::ROOT, None, |r| match r {
                                Err(e) => {
                                    if e.rendered.trim().is_empty() && e.chain.is_empty() {
                                        Outcome::violation("precision/error-without-message", "empty error")
                                    } else {
                                        Outcome::pass(format!("precision{}/rejected/{}", pi, e.variant))
                                    }
                                }
                                Ok((l, ctx2)) => {
                                    let d = oka::date(2024, 2, 1);
                                    for name in ["X", "Y", "Z"] {
                                        if let Some(c) = ctx2.commodity(name) {
                                            for strategy in [ConversionStrategy::Historical, ConversionStrategy::UpToDate { now: d }] {
                                                let _ = l.balance(ctx2, &BalanceQuery { conversion: Some(Conversion { strategy, target: c }), date_range: DateRange::default() });
                                            }
                                        }
                                    }
                                    Outcome::pass(format!("precision{}/accepted", pi))
                                }
                            })
                        },
                    );
                }
            }
        }
    }
    let _ = std::fs::remove_file(&dbpath);
    let _: BTreeMap<u8, u8> = BTreeMap::new();
}
