//! C05 — documented syntax is read; formatting preserves meaning and is idempotent.
//!
//! Family S (slots): a document generator that *is* `doc/syntax.md`. A base document (top comment, account
//! declaration, apply tag, rich transaction, end apply tag, commodity declaration, include, lot transaction,
//! minimal transaction) has one *slot* per grammar position where the document allows a choice; every slot has an
//! ordered list of alternative spellings (index 0 = the base spelling). ALL documents with <= d slots off their
//! default are generated (d = 2 over the full alphabets; thorough adds d = 3 over the first CORE_ALTS alternatives
//! of every slot).
//! Family R (raw): ALL sequences of <= 4 tokens over a 26-token alphabet, alone / behind / inside a valid
//! transaction; acceptance is never judged there, clauses (2)(3) are whenever the text parses.
//!
//! Oracle: (1) a text made of documented spellings only must parse; (2) for every text t that parses,
//! canon(parse(format(t))) == canon(parse(t)) entry by entry; (3) format(format(t)) == format(t) bytewise.

use okane_core::format::FormatOptions;
use okane_core::parse::{parse_ledger, ParseOptions};
use okane_core::syntax::{
    self, expr, plain,
    pretty_decimal::{Format, PrettyDecimal},
};
use rust_decimal::Decimal;

use crate::fw::{CheckDef, Ctx, Outcome, Tier};

pub const DEF: CheckDef = CheckDef {
    id: "C05",
    run,
    technique: "bounded-exhaustive enumeration of a slot-based generator that transcribes doc/syntax.md (all documents with at most d slots off their default spelling) plus all short token strings around a valid transaction; each text goes through the real parser and formatter and is compared with a field-by-field canonical projection of the syntax tree",
    rule: "case = one text. Family S: every document with <= 2 deviating slots over the full slot alphabets (thorough: additionally every document with exactly 3 deviating slots over the first 3 alternatives of every slot). Family R: every sequence of <= 4 tokens (quick: <= 3 in the `alone` and `inside` contexts) over a 26-token alphabet alone, behind and inside a valid transaction. Oracle: (1) documented text parses, (2) canon(parse(format(t))) == canon(parse(t)) entry by entry, (3) format(format(t)) == format(t) bytewise. states = distinct texts executed, transitions = texts, validated = texts on which at least one clause had a definite expectation",
    assumptions: &[
        "reading of doc/syntax.md: metadata lines under a transaction header / posting are `sp+ metadata new-line` (the document omits the indentation and, at transaction level, the new-line); `commodity` is one or more of the listed characters",
        "acceptance is DON'T-CARE (clauses 2 and 3 still apply when the text parses) for spellings the document does not clearly contain: `; text` with a single `;`, a sign outside parentheses (`-5 USD`), `format` sub-directive (named but not defined), trailing blanks after an alias, one-digit month/day, a lot price that is an expression, single space + tab after the account, unindented metadata lines",
        "canon compares every field of syntax::plain::LedgerEntry exactly (numbers as mantissa + scale) except that a number's grouping style only counts when |integer part| >= 1000, and Plain == unformatted",
    ],
    shards: 64,
    hang_s: 20,
    single_worker: false,
};

// ---------------------------------------------------------------------------------------------
// canon: a flat (path, value) projection of one entry. Every struct is destructured exhaustively so that a new
// field in okane's syntax tree is a compile error here rather than a silently ignored difference.

type Flat = Vec<(String, String)>;

fn q(s: &str) -> String {
    format!("{:?}", s)
}

fn canon_num(v: &PrettyDecimal) -> String {
    let d = v.value;
    let mut s = format!("{}e-{}", d.mantissa(), d.scale());
    if d.abs().trunc() >= Decimal::from(1000) {
        s.push_str(match v.format {
            Some(Format::Comma3Dot) => "/grouped",
            Some(Format::Plain) | None => "/plain",
            Some(_) => "/other-format",
        });
    }
    s
}

fn canon_amount(a: &expr::Amount<'_>) -> String {
    let expr::Amount { value, commodity } = a;
    format!("amount({}, {})", canon_num(value), q(commodity))
}

fn canon_value_expr(v: &expr::ValueExpr<'_>) -> String {
    match v {
        expr::ValueExpr::Paren(e) => format!("paren({})", canon_expr(e)),
        expr::ValueExpr::Amount(a) => canon_amount(a),
    }
}

fn canon_expr(e: &expr::Expr<'_>) -> String {
    match e {
        expr::Expr::Unary(expr::UnaryOpExpr { op, expr }) => format!("unary({:?}, {})", op, canon_expr(expr)),
        expr::Expr::Binary(expr::BinaryOpExpr { op, lhs, rhs }) => format!("binary({:?}, {}, {})", op, canon_expr(lhs), canon_expr(rhs)),
        expr::Expr::Value(v) => format!("value({})", canon_value_expr(v)),
    }
}

fn canon_exchange(x: &syntax::Exchange<'_>) -> String {
    match x {
        syntax::Exchange::Total(v) => format!("total({})", canon_value_expr(v)),
        syntax::Exchange::Rate(v) => format!("rate({})", canon_value_expr(v)),
    }
}

fn canon_clear(c: &syntax::ClearState) -> String {
    format!("{:?}", c)
}

fn canon_meta_value(v: &syntax::MetadataValue<'_>) -> String {
    match v {
        syntax::MetadataValue::Text(t) => format!("text({})", q(t)),
        syntax::MetadataValue::Expr(t) => format!("expr({})", q(t)),
    }
}

fn flat_metadata(path: &str, ms: &[syntax::Metadata<'_>], o: &mut Flat) {
    o.push((format!("{}.len", path), ms.len().to_string()));
    for (i, m) in ms.iter().enumerate() {
        let v = match m {
            syntax::Metadata::Comment(c) => format!("comment({})", q(c)),
            syntax::Metadata::WordTags(ts) => format!("tags({})", ts.iter().map(|t| q(t)).collect::<Vec<_>>().join(", ")),
            syntax::Metadata::KeyValueTag { key, value } => format!("kv({}, {})", q(key), canon_meta_value(value)),
        };
        o.push((format!("{}[{}]", path, i), v));
    }
}

fn opt<T>(x: &Option<T>, f: impl Fn(&T) -> String) -> String {
    match x {
        None => "none".to_string(),
        Some(v) => format!("some({})", f(v)),
    }
}

fn flat_entry(e: &plain::LedgerEntry<'_>, o: &mut Flat) {
    use syntax::LedgerEntry as L;
    match e {
        L::Txn(t) => {
            let syntax::Transaction { date, effective_date, clear_state, code, payee, posts, metadata } = t;
            o.push(("kind".into(), "txn".into()));
            o.push(("txn.date".into(), date.to_string()));
            o.push(("txn.effective_date".into(), opt(effective_date, |d| d.to_string())));
            o.push(("txn.clear_state".into(), canon_clear(clear_state)));
            o.push(("txn.code".into(), opt(code, |c| q(c))));
            o.push(("txn.payee".into(), q(payee)));
            flat_metadata("txn.metadata", metadata, o);
            o.push(("txn.posts.len".into(), posts.len().to_string()));
            for (i, p) in posts.iter().enumerate() {
                let syntax::Posting { account, clear_state, amount, balance, metadata } = p;
                let pre = format!("txn.posts[{}]", i);
                o.push((format!("{}.account", pre), q(account)));
                o.push((format!("{}.clear_state", pre), canon_clear(clear_state)));
                match amount {
                    None => o.push((format!("{}.amount", pre), "none".into())),
                    Some(pa) => {
                        let syntax::PostingAmount { amount, cost, lot } = pa;
                        let syntax::Lot { price, date, note } = lot;
                        o.push((format!("{}.amount", pre), format!("some({})", canon_value_expr(amount))));
                        o.push((format!("{}.lot.price", pre), opt(price, canon_exchange)));
                        o.push((format!("{}.lot.date", pre), opt(date, |d| d.to_string())));
                        o.push((format!("{}.lot.note", pre), opt(note, |n| q(n))));
                        o.push((format!("{}.cost", pre), opt(cost, canon_exchange)));
                    }
                }
                o.push((format!("{}.balance", pre), opt(balance, canon_value_expr)));
                flat_metadata(&format!("{}.metadata", pre), metadata, o);
            }
        }
        L::Comment(syntax::TopLevelComment(c)) => {
            o.push(("kind".into(), "comment".into()));
            o.push(("comment.text".into(), q(c)));
        }
        L::ApplyTag(syntax::ApplyTag { key, value }) => {
            o.push(("kind".into(), "apply-tag".into()));
            o.push(("apply-tag.key".into(), q(key)));
            o.push(("apply-tag.value".into(), opt(value, canon_meta_value)));
        }
        L::EndApplyTag => o.push(("kind".into(), "end-apply-tag".into())),
        L::Include(syntax::IncludeFile(p)) => {
            o.push(("kind".into(), "include".into()));
            o.push(("include.path".into(), q(p)));
        }
        L::Account(syntax::AccountDeclaration { name, details }) => {
            o.push(("kind".into(), "account".into()));
            o.push(("account.name".into(), q(name)));
            o.push(("account.details.len".into(), details.len().to_string()));
            for (i, d) in details.iter().enumerate() {
                let v = match d {
                    syntax::AccountDetail::Comment(c) => format!("comment({})", q(c)),
                    syntax::AccountDetail::Note(c) => format!("note({})", q(c)),
                    syntax::AccountDetail::Alias(c) => format!("alias({})", q(c)),
                };
                o.push((format!("account.details[{}]", i), v));
            }
        }
        L::Commodity(syntax::CommodityDeclaration { name, details }) => {
            o.push(("kind".into(), "commodity".into()));
            o.push(("commodity.name".into(), q(name)));
            o.push(("commodity.details.len".into(), details.len().to_string()));
            for (i, d) in details.iter().enumerate() {
                let v = match d {
                    syntax::CommodityDetail::Comment(c) => format!("comment({})", q(c)),
                    syntax::CommodityDetail::Note(c) => format!("note({})", q(c)),
                    syntax::CommodityDetail::Alias(c) => format!("alias({})", q(c)),
                    syntax::CommodityDetail::Format(a) => format!("format({})", canon_amount(a)),
                };
                o.push((format!("commodity.details[{}]", i), v));
            }
        }
    }
}

fn canon(e: &plain::LedgerEntry<'_>) -> Flat {
    let mut o = vec![];
    flat_entry(e, &mut o);
    o
}

fn kind_of(f: &Flat) -> &str {
    f.first().map(|x| x.1.as_str()).unwrap_or("?")
}

/// `txn.posts[1].amount` -> `txn.posts.amount`
fn strip_indices(p: &str) -> String {
    let mut out = String::new();
    let mut skip = false;
    for c in p.chars() {
        match c {
            '[' => skip = true,
            ']' => skip = false,
            _ if !skip => out.push(c),
            _ => {}
        }
    }
    out
}

// ---------------------------------------------------------------------------------------------
// the real code

fn parse_all(text: &str) -> Result<Vec<plain::LedgerEntry<'_>>, String> {
    let mut v = vec![];
    for r in parse_ledger(&ParseOptions::default(), text) {
        match r {
            Ok((_, e)) => v.push(e),
            Err(e) => return Err(e.to_string()),
        }
    }
    Ok(v)
}

fn format_text(text: &str) -> Result<String, String> {
    let mut out: Vec<u8> = vec![];
    let mut r = text.as_bytes();
    match FormatOptions::new().format(&mut r, &mut out) {
        Ok(()) => String::from_utf8(out).map_err(|e| format!("formatter wrote invalid UTF-8: {}", e)),
        Err(e) => {
            use std::error::Error;
            let mut s = e.to_string();
            let mut cur = e.source();
            while let Some(c) = cur {
                s.push_str(": ");
                s.push_str(&c.to_string());
                cur = c.source();
            }
            Err(s)
        }
    }
}

thread_local! {
    /// counter increments requested by the case that is running (flushed into ctx.count after the case)
    static TALLY: std::cell::RefCell<Vec<String>> = const { std::cell::RefCell::new(Vec::new()) };
}
fn tally(k: impl Into<String>) {
    TALLY.with(|t| t.borrow_mut().push(k.into()));
}
fn flush_tally(ctx: &mut Ctx) {
    let v: Vec<String> = TALLY.with(|t| std::mem::take(&mut *t.borrow_mut()));
    for k in v {
        ctx.count(&k, 1);
    }
}

/// Result of running the three clauses on one text.
enum Judged {
    /// the text does not parse (message)
    Rejected(String),
    /// parses, and clauses 2 and 3 hold; kinds of the entries, and whether formatting changed the text
    Holds { kinds: Vec<String>, changed: bool },
    /// parses, a clause fails: (clause + shape, detail)
    Fails(String, String),
}

fn first_line_diff(a: &str, b: &str) -> String {
    let (mut la, mut lb) = (a.split('\n'), b.split('\n'));
    let mut n = 1;
    loop {
        match (la.next(), lb.next()) {
            (Some(x), Some(y)) if x == y => n += 1,
            (x, y) => return format!("line {}: {:?} vs {:?}", n, x.unwrap_or("<end>"), y.unwrap_or("<end>")),
        }
    }
}

fn judge_text(text: &str) -> Judged {
    let e0 = match parse_all(text) {
        Ok(v) => v,
        Err(m) => return Judged::Rejected(m),
    };
    let c0: Vec<Flat> = e0.iter().map(canon).collect();
    let kinds: Vec<String> = c0.iter().map(|f| kind_of(f).to_string()).collect();
    let f1 = match format_text(text) {
        Ok(s) => s,
        Err(m) => return Judged::Fails("format-fails-on-parsable-text".into(), format!("parse_ledger accepts the text but FormatOptions::format fails: {}", m)),
    };
    let e1 = match parse_all(&f1) {
        Ok(v) => v,
        Err(m) => {
            let k = kinds.first().cloned().unwrap_or_default();
            return Judged::Fails(format!("formatted-text-unparsable/{}", if kinds.len() == 1 { k } else { "document".into() }), format!("the formatted text does not parse.\nformatted: {:?}\nerror: {}", f1, m.lines().take(6).collect::<Vec<_>>().join(" | ")));
        }
    };
    let c1: Vec<Flat> = e1.iter().map(canon).collect();
    for (i, (a, b)) in c0.iter().zip(c1.iter()).enumerate() {
        if a != b {
            // first differing (path, value)
            let mut path = "length".to_string();
            let mut va = String::new();
            let mut vb = String::new();
            for (x, y) in a.iter().zip(b.iter()) {
                if x != y {
                    path = if x.0 == y.0 { x.0.clone() } else { format!("{}|{}", x.0, y.0) };
                    va = x.1.clone();
                    vb = y.1.clone();
                    break;
                }
            }
            return Judged::Fails(
                format!("meaning-changed/{}/{}", kind_of(a), strip_indices(&path)),
                format!("entry #{} ({}) re-reads differently after formatting: {} was {} and is {} after format.\nformatted: {:?}", i, kind_of(a), path, va, vb, f1),
            );
        }
    }
    if c0.len() != c1.len() {
        return Judged::Fails(
            "meaning-changed/entry-count".into(),
            format!("the text has {} entries ({}), the formatted text has {} ({}).\nformatted: {:?}", c0.len(), kinds.join(","), c1.len(), c1.iter().map(|f| kind_of(f).to_string()).collect::<Vec<_>>().join(","), f1),
        );
    }
    let f2 = match format_text(&f1) {
        Ok(s) => s,
        Err(m) => return Judged::Fails("format-fails-on-formatted-text".into(), format!("formatting the formatted text fails: {}", m)),
    };
    if f2 != f1 {
        // which entry differs: formatted entries are separated by blank lines in the same order
        let mut kind = "document".to_string();
        let e2 = parse_all(&f2).ok();
        if let Some(e2) = &e2 {
            for (i, (a, b)) in e1.iter().zip(e2.iter()).enumerate() {
                let ctx = syntax::display::DisplayContext::default();
                if format!("{}", ctx.as_display(a)) != format!("{}", ctx.as_display(b)) {
                    kind = kinds.get(i).cloned().unwrap_or_default();
                    break;
                }
            }
        }
        return Judged::Fails(format!("not-idempotent/{}", kind), format!("format(format(t)) != format(t): {}\nformat(t):         {:?}\nformat(format(t)): {:?}", first_line_diff(&f1, &f2), f1, f2));
    }
    Judged::Holds { kinds, changed: f1 != text }
}

// ---------------------------------------------------------------------------------------------
// Family S: the slot generator

#[derive(Clone, Debug)]
struct Alt {
    /// short stable name used in violation signatures
    label: &'static str,
    text: String,
    /// Some(reason): the document does not clearly contain this spelling; acceptance is DON'T-CARE
    dc: Option<&'static str>,
}

fn m(label: &'static str, text: &str) -> Alt {
    Alt { label, text: text.to_string(), dc: None }
}
fn d(label: &'static str, text: &str, why: &'static str) -> Alt {
    Alt { label, text: text.to_string(), dc: Some(why) }
}

struct Slot {
    name: String,
    /// grammar position, used in signatures and outcome classes
    class: &'static str,
    alts: Vec<Alt>,
    /// (other slot, alternatives of it): this slot is not rendered meaningfully when the other slot has one of them
    inactive_when: Option<(usize, Vec<usize>)>,
}

enum Piece {
    Lit(String),
    Slot(usize),
}

struct Gen {
    slots: Vec<Slot>,
    /// (kind, pieces); the pieces render to the full text of the entry including its last new-line
    entries: Vec<(&'static str, Vec<Piece>)>,
    lead: usize,
    gaps: Vec<usize>,
    tail: usize,
    order: usize,
    nl: usize,
    fin: usize,
}

/// `default` first, then every element of `alphabet` with a different text
fn with_default(default: Alt, alphabet: Vec<Alt>) -> Vec<Alt> {
    let mut v = vec![default];
    for a in alphabet {
        if a.text != v[0].text {
            v.push(a);
        }
    }
    v
}

const WHY_PLAIN: &str = "metadata-comment is documented as `;;`; one `;` followed by free text matches no metadata production";
const WHY_SIGN: &str = "comma-decimal has no sign; `-` is only documented inside parentheses";
const WHY_UNINDENTED: &str = "an unindented metadata line cannot be told from a top-level comment";
const WHY_FORMAT: &str = "commodity-format is named in the document but not defined";
const WHY_DATE: &str = "date is documented as yyyy/mm/dd";

/// metadata bodies (start with `;`)
fn meta_alphabet() -> Vec<Alt> {
    vec![
        m("kv", "; key: value"),
        m("tags", "; :tag1:tag2:"),
        m("comment2", ";; comment text"),
        m("kv-expr", "; amt:: (1 + 2)"),
        m("kv-tight", ";key:value"),
        m("tags-tight", ";:t:"),
        m("kv-spaced", ";  key  :  spaced value  "),
        m("comment2-empty", ";;"),
        m("kv-empty", "; key:"),
        m("kv-unicode", "; \u{9375}: \u{5024} \u{3067}\u{3059}"),
        m("tags-unicode", "; :\u{65e5}\u{672c}:tag:"),
        // horizontal white space after the last colon of a tag line, before the line ends
        m("tags-trailing-blank", "; :trip:food: "),
        m("tags-trailing-tab", "; :trip:food:\t"),
        m("kv-trailing-blanks", "; key: value  "),
        m("kv-punct-value", "; url: http://x.y/z;w :a:"),
        m("kv-expr-tight", ";amt::10 USD"),
        d("plain", "; plain text", WHY_PLAIN),
        d("plain-bare", ";", WHY_PLAIN),
        d("plain-colon", "; see note: here", WHY_PLAIN),
        d("tags-then-text", "; :a: rest", "metadata-tag-words does not allow text after the last `:`"),
    ]
}

fn relabel(a: &Alt, text: String) -> Alt {
    Alt { label: a.label, text, dc: a.dc }
}

/// inline metadata after a header / posting value: "" = none
fn inline_alphabet() -> Vec<Alt> {
    let mut v = vec![m("none", "")];
    for a in meta_alphabet() {
        v.push(relabel(&a, format!(" {}", a.text)));
    }
    v.push(m("kv-nosp", ";key: value"));
    v.push(m("comment2-tab", "\t;; c"));
    v.push(m("kv-widesp", "   ; key: value"));
    v
}

/// metadata lines following a header / posting line: "" = none
fn follow_alphabet() -> Vec<Alt> {
    let mut v = vec![m("none", "")];
    for a in meta_alphabet() {
        v.push(relabel(&a, format!("    {}\n", a.text)));
    }
    v.push(m("two-lines", "    ; key: value\n    ; :tag1:tag2:\n"));
    v.push(m("tab-indent", "\t; key: value\n"));
    v.push(m("one-space-indent", " ;; c\n"));
    v.push(m("three-lines", "  ;; a\n  ;; b\n  ; k:: 1\n"));
    v.push(d("unindented", ";; c\n", WHY_UNINDENTED));
    v
}

fn amount_alphabet() -> Vec<Alt> {
    vec![
        m("int", "10 USD"),
        m("grouped-dec", "1,234.50 USD"),
        m("plain-thousands", "1234.50 USD"),
        m("paren-add", "(1 USD + 2 USD)"),
        m("absent", ""),
        m("dec", "10.5 USD"),
        m("tight", "10USD"),
        m("wide-sp", "10   USD"),
        m("tab-sp", "10\tUSD"),
        m("bare-zero", "0"),
        m("bare", "10"),
        m("zero-dec", "0.00 USD"),
        m("small-dec", "0.001 USD"),
        m("million", "1,234,567.891 USD"),
        m("unicode-numeric-commodity", "10 CO\u{2082}"),
        m("superscript-commodity", "120.5 m\u{b2}"),
        m("twenty-digits", "10.000000000000000000 USD"),
        m("grouped-twenty-digits", "25,000,000,000,000,000,000 USD"),
        m("twenty-eight-digits", "1234567890123456789012345678 USD"),
        m("twenty-eight-decimals", "0.1234567890123456789012345678 USD"),
        m("plain-million", "1234567 USD"),
        m("trailing-dot", "12. USD"),
        m("grouped-int", "12,345 USD"),
        m("leading-zeros", "007 USD"),
        m("grouped-leading-zero", "0,123 USD"),
        m("sym", "10 $"),
        m("cjk", "10 \u{65e5}\u{672c}\u{5186}"),
        m("paren-tight", "(1 USD+2 USD)"),
        m("paren-spaced", "( 1 USD * 2 )"),
        m("paren-neg", "(-10 * 2.1 USD)"),
        m("paren-nested", "((1 USD + 2 USD) * 3)"),
        m("paren-prec", "(1 USD - 2 USD / 4)"),
        m("paren-negparen", "(-(1 USD))"),
        m("paren-single", "(10 USD)"),
        m("paren-grouped", "(1,000 USD * 1.5)"),
        m("paren-right-nested", "(1 USD - (2 USD - 3 USD))"),
        m("paren-sub-neg", "(1 USD - -2 USD)"),
        m("paren-minus-nosp", "(3-1 USD)"),
        // paren-expr ::= "(" sp* add-expr sp* ")": blanks before the closing parenthesis, after a commodity and after an inner `)`
        m("paren-blank-before-close", "(10 USD )"),
        m("paren-blanks-both-sides", "( 1 USD + 2 USD  )"),
        m("paren-tab-before-close", "(10 USD\t)"),
        m("paren-nested-blank-before-close", "((1 USD) )"),
        m("paren-nested-blanks-everywhere", "( ( 1 USD ) * 2 )"),
        d("neg", "-10 USD", WHY_SIGN),
        d("neg-grouped", "-1,234.50 USD", WHY_SIGN),
    ]
}

fn lot_alphabet() -> Vec<Alt> {
    let p = "{100 USD}";
    let dt = "[2024/01/01]";
    let n = "(n)";
    vec![
        m("none", ""),
        m("rate", " {100 USD}"),
        m("total", " {{1,000 USD}}"),
        m("date", " [2024/01/01]"),
        m("note", " (lot note)"),
        m("rate-tight", "{100 USD}"),
        m("rate-inner-sp", " { 100 USD }"),
        m("rate-grouped", " {1,000.5 USD}"),
        m("rate-nocommodity", " {100}"),
        m("total-inner-sp", " {{ 1000 USD }}"),
        m("date-hyphen-sp", " [ 2024-01-01 ]"),
        m("note-empty", " ()"),
        m("price-date-note", &format!(" {} {} {}", p, dt, n)),
        m("price-note-date", &format!(" {} {} {}", p, n, dt)),
        m("date-price-note", &format!(" {} {} {}", dt, p, n)),
        m("date-note-price", &format!(" {} {} {}", dt, n, p)),
        m("note-price-date", &format!(" {} {} {}", n, p, dt)),
        m("note-date-price", &format!(" {} {} {}", n, dt, p)),
        m("price-date", &format!(" {} {}", p, dt)),
        m("date-price", &format!(" {} {}", dt, p)),
        m("note-date", &format!(" {} {}", n, dt)),
        m("all-tight", &format!("{}{}{}", p, dt, n)),
        d("rate-expr", " {(1 USD + 1 USD)}", "lot-price is documented as amount-expr only"),
    ]
}

fn cost_alphabet() -> Vec<Alt> {
    vec![
        m("none", ""),
        m("rate", " @ 110 USD"),
        m("total", " @@ 1,100 USD"),
        m("rate-expr", " @ (1 USD + 1 USD)"),
        m("rate-tight", "@110 USD"),
        m("total-tight", " @@1100 USD"),
        m("rate-wide", " @   110 USD"),
        m("total-expr", " @@ (100 USD * 11)"),
        m("rate-nocommodity", " @ 110"),
        m("rate-dec-sym", " @ 1.10 $"),
    ]
}

fn balance_alphabet() -> Vec<Alt> {
    vec![
        m("none", ""),
        m("grouped", " = 9,000 USD"),
        m("zero", " = 0"),
        m("expr", " = (1 USD + 2 USD)"),
        m("no-sp-before", "= 9,000 USD"),
        m("no-sp-after", " =9,000 USD"),
        m("zero-tight", "=0"),
        m("plain-dec", " = 9000.00 USD"),
        m("wide", " =   10 USD"),
        d("neg", " = -5 USD", WHY_SIGN),
    ]
}

const LONG_ACCOUNT: &str = "Assets:Very:Long:Account:Name:That:Exceeds:The:Amount:Column:By:Far";

fn account_alphabet() -> Vec<Alt> {
    vec![
        m("plain", "Expenses:Food"),
        m("inner-space", "Assets:My Bank"),
        m("cjk", "\u{8cc7}\u{7523}:\u{9280}\u{884c}"),
        m("one-char", "A"),
        m("punct", "Expenses:Food&Drink(2024)"),
        m("digit-first", "401k:Plan"),
        m("long", LONG_ACCOUNT),
    ]
}

fn indent_alphabet() -> Vec<Alt> {
    vec![m("four", "    "), m("one", " "), m("tab", "\t"), m("two", "  "), m("space-tab", " \t"), m("eight", "        ")]
}

fn sep_alphabet() -> Vec<Alt> {
    vec![
        m("two", "  "),
        m("tab", "\t"),
        m("three", "   "),
        m("two-tab", "  \t"),
        m("tab-space", "\t "),
        m("tab-tab", "\t\t"),
        d("space-tab", " \t", "posting-value must start with two spaces or a tab right after the account"),
    ]
}

fn clear_alphabet() -> Vec<Alt> {
    vec![m("none", ""), m("cleared", "* "), m("pending", "! "), m("cleared-tight", "*"), m("pending-tight", "!"), m("cleared-wide", "*  "), m("pending-tab", "!\t")]
}

fn trail_alphabet() -> Vec<Alt> {
    vec![m("none", ""), m("space", " "), m("two", "  "), m("tab", "\t")]
}

fn code_alphabet() -> Vec<Alt> {
    vec![
        m("none", ""),
        m("code", "(C-1) "),
        m("code-tight", "(C-1)"),
        m("empty", "() "),
        m("inner-sp", "( C-1 ) "),
        m("words", "(a b) "),
        m("cjk", "(\u{30b3}\u{30fc}\u{30c9}) "),
        m("code-wide", "(C-1)  "),
        m("punct", "(#1/2:x) "),
    ]
}

fn payee_alphabet() -> Vec<Alt> {
    vec![
        m("words", "Payee name"),
        m("empty", ""),
        m("cjk", "\u{65e5}\u{672c}\u{8a9e} \u{306e} payee"),
        m("double-space", "a  b"),
        m("trailing-sp", "Payee name  "),
        m("digits", "7-Eleven #12"),
        m("punct", "x (y) = z @ w"),
        m("one-char", "P"),
    ]
}

struct B {
    g: Gen,
    cur: Vec<Piece>,
}

impl B {
    fn slot(&mut self, name: &str, class: &'static str, alts: Vec<Alt>) -> usize {
        assert!(alts.len() >= 2, "harness bug: slot {} has no alternative", name);
        self.g.slots.push(Slot { name: name.to_string(), class, alts, inactive_when: None });
        self.g.slots.len() - 1
    }
    fn put(&mut self, name: &str, class: &'static str, alts: Vec<Alt>) -> usize {
        let i = self.slot(name, class, alts);
        self.cur.push(Piece::Slot(i));
        i
    }
    fn lit(&mut self, s: &str) {
        self.cur.push(Piece::Lit(s.to_string()));
    }
    fn end_entry(&mut self, kind: &'static str) {
        let p = std::mem::take(&mut self.cur);
        self.g.entries.push((kind, p));
    }

    fn header(&mut self, pre: &str, date: (&str, &str), edate: &str, clear: &str, code: &str, payee: &str) {
        let (dslash, dhyphen) = date;
        self.put(&format!("{}.date", pre), "date", vec![m("default", dslash), m("other-separator", dhyphen), d("short", "2024/1/5", WHY_DATE)]);
        self.put(&format!("{}.edate", pre), "effective-date", with_default(m("default", edate), vec![m("none", ""), m("slash", "=2024/01/07"), m("hyphen", "=2024-01-07")]));
        self.put(&format!("{}.hsp", pre), "header-space", vec![m("one", " "), m("two", "  "), m("tab", "\t"), m("mixed", " \t ")]);
        self.put(&format!("{}.clear", pre), "txn-clear-state", with_default(m("default", clear), clear_alphabet()));
        self.put(&format!("{}.code", pre), "code", with_default(m("default", code), code_alphabet()));
        self.put(&format!("{}.payee", pre), "payee", with_default(m("default", payee), payee_alphabet()));
        self.put(&format!("{}.hterm", pre), "header-metadata", inline_alphabet());
        self.lit("\n");
    }

    /// full posting: indent clear account sep amount lot cost balance trail inline NL follow
    #[allow(clippy::too_many_arguments)]
    fn posting(&mut self, pre: &str, account: &str, amount: Option<&str>, lot: &str, cost: &str, bal: &str, follow: &str) {
        self.put(&format!("{}.indent", pre), "indent", indent_alphabet());
        self.put(&format!("{}.clear", pre), "posting-clear-state", clear_alphabet());
        self.put(&format!("{}.account", pre), "account", with_default(m("default", account), account_alphabet()));
        self.put(&format!("{}.sep", pre), "separator", sep_alphabet());
        if let Some(a) = amount {
            let alts = with_default(m("default", a), amount_alphabet());
            let absent: Vec<usize> = alts.iter().enumerate().filter(|(_, x)| x.text.is_empty()).map(|(i, _)| i).collect();
            let ai = self.put(&format!("{}.amount", pre), "amount", alts);
            let li = self.put(&format!("{}.lot", pre), "lot", with_default(m("default", lot), lot_alphabet()));
            let ci = self.put(&format!("{}.cost", pre), "cost", with_default(m("default", cost), cost_alphabet()));
            self.g.slots[li].inactive_when = Some((ai, absent.clone()));
            self.g.slots[ci].inactive_when = Some((ai, absent));
        }
        self.put(&format!("{}.balance", pre), "balance", with_default(m("default", bal), balance_alphabet()));
        self.put(&format!("{}.trail", pre), "trailing-blanks", trail_alphabet());
        self.put(&format!("{}.inline", pre), "posting-inline-metadata", inline_alphabet());
        self.lit("\n");
        self.put(&format!("{}.follow", pre), "posting-metadata-lines", with_default(m("default", follow), follow_alphabet()));
    }

    /// posting without a value: one slot with whole-line spellings
    fn bare_posting(&mut self, pre: &str, acc: &str) {
        let f = |s: &str| s.replace("ACC", acc);
        self.put(
            &format!("{}.line", pre),
            "bare-posting",
            vec![
                m("default", &f("    ACC\n")),
                m("absent", ""),
                m("tab-indent", &f("\tACC\n")),
                m("pending", &f("    ! ACC\n")),
                m("cleared-tight", &f("  *ACC\n")),
                m("inner-space", "    Assets:My Bank\n"),
                m("cjk", "    \u{8cc7}\u{7523}:\u{9280}\u{884c}\n"),
                m("trailing-two-sp", &f("    ACC  \n")),
                m("trailing-tab", &f("    ACC\t\n")),
                m("inline-kv", &f("    ACC  ; key: value\n")),
                m("inline-comment2-tab", &f("    ACC\t;; c\n")),
                m("follow-kv", &f("    ACC\n    ; key: value\n")),
                m("follow-two", &f("    ACC\n    ;; c\n    ; :t:\n")),
                m("balance-only", &f("    ACC  = 0\n")),
                d("inline-one-space", &f("    ACC ; key: value\n"), "a single space between account and `;` is neither part of the account nor a posting-value"),
                d("trailing-one-sp", &f("    ACC \n"), "a single trailing space is neither part of the account nor a posting-value"),
            ],
        );
    }
}

fn sub_comment_alphabet() -> Vec<Alt> {
    vec![
        m("none", ""),
        m("comment-line", "    ; comment\n"),
        m("comment-line", "    ;comment\n"),
        m("comment-line", "  # c\n"),
        m("comment-line", "    ; a\n    ; b\n"),
        m("comment-line", "  % c\n"),
        m("comment-line", "  | c\n"),
        m("comment-line", "  * c\n"),
        m("comment-line", "\t;; c\n"),
        m("comment-line", "    ;\n"),
    ]
}

const GAP_WS: &str = "ws-only-line";

fn build() -> Gen {
    let mut b = B { g: Gen { slots: vec![], entries: vec![], lead: 0, gaps: vec![], tail: 0, order: 0, nl: 0, fin: 0 }, cur: vec![] };

    // E0 top comment
    b.put(
        "comment.body",
        "top-comment",
        vec![
            m("semi", "; top comment"),
            m("hash", "#hash"),
            m("multi-prefix", "; a\n# b\n% c"),
            m("star", "*star"),
            m("percent", "%pct"),
            m("bar", "|bar"),
            m("empty", ";"),
            m("double", ";;double"),
            m("tight", ";no space"),
            m("trailing-sp", "; trailing sp  "),
            m("tab", ";\ttab"),
            m("cjk", "; \u{65e5}\u{672c}\u{8a9e}"),
            m("empty-middle", "; line1\n;\n; line3"),
        ],
    );
    b.lit("\n");
    b.end_entry("comment");

    // E1 account declaration
    b.lit("account");
    b.put("account.kwsp", "directive-space", vec![m("one", " "), m("two", "  "), m("tab", "\t")]);
    b.put("account.name", "declared-account", vec![m("plain", "Assets:Bank"), m("inner-space", "Assets:My Bank"), m("cjk", "\u{8cc7}\u{7523}:\u{9280}\u{884c}"), m("one-char", "A")]);
    b.put("account.trail", "directive-trailing-blanks", vec![m("none", ""), m("space", " "), m("tab-space", "\t ")]);
    b.lit("\n");
    b.put("account.comment-before", "sub-comment", sub_comment_alphabet());
    b.put(
        "account.note",
        "sub-note",
        vec![
            m("default", "    note main account\n"),
            m("absent", ""),
            m("one-space-indent", " note x\n"),
            m("two-notes", "    note a\n    note b\n"),
            m("inner-spaces", "\tnote  two  spaces \n"),
            m("cjk", "    note \u{65e5}\u{672c}\u{8a9e}\n"),
            m("tab-after-keyword", "    note\tx\n"),
            m("empty", "    note \n"),
        ],
    );
    b.put(
        "account.alias",
        "sub-alias",
        vec![
            m("default", "    alias bank\n"),
            m("absent", ""),
            m("inner-space", "  alias  My Bank\n"),
            m("two-aliases", "    alias b1\n    alias b2\n"),
            m("cjk-tab", "\talias \u{9280}\u{884c}\n"),
            d("trailing-sp", "    alias bank  \n", "account-alias does not allow blanks after the account"),
        ],
    );
    b.put("account.comment-after", "sub-comment", sub_comment_alphabet());
    b.end_entry("account");

    // E2 apply tag
    b.put(
        "apply-tag.line",
        "apply-tag",
        vec![
            m("key", "apply tag trip"),
            m("key-value", "apply tag key: value"),
            m("key-expr", "apply tag key:: 10 USD"),
            m("wide", "apply  tag\ttrip"),
            m("key-trailing-sp", "apply tag trip  "),
            m("key-value-tight", "apply tag key:value"),
            m("key-value-spaced", "apply tag key : value"),
            m("cjk", "apply tag \u{65e5}\u{672c}"),
            m("key-empty-value", "apply tag key:"),
        ],
    );
    b.lit("\n");
    b.end_entry("apply-tag");

    // E3 rich transaction
    b.header("t1", ("2024/01/05", "2024-01-05"), "=2024/01/07", "* ", "(C-1) ", "Payee name");
    b.put("t1.meta", "txn-metadata-lines", with_default(m("default", "    ; :tag1:tag2:\n"), follow_alphabet()));
    b.posting("t1.p1", "Expenses:Food", Some("1,234.50 USD"), "", "", "", "    ; key: value\n");
    b.bare_posting("t1.p2", "Assets:Bank");
    b.end_entry("txn");

    // E4 end apply tag
    b.put("end-apply-tag.line", "end-apply-tag", vec![m("plain", "end apply tag"), m("wide", "end  apply\ttag"), m("trailing-sp", "end apply tag  ")]);
    b.lit("\n");
    b.end_entry("end-apply-tag");

    // E5 commodity declaration
    b.lit("commodity");
    b.put("commodity.kwsp", "directive-space", vec![m("one", " "), m("two", "  "), m("tab", "\t")]);
    b.put("commodity.name", "declared-commodity", vec![m("ascii", "USD"), m("sym", "$"), m("cjk", "\u{65e5}\u{672c}\u{5186}"), m("subscript-digit", "CO\u{2082}"), m("superscript-digit", "m\u{b2}"), m("vulgar-fraction", "\u{bd}oz"), m("fullwidth-digit", "\u{ff13}D"), m("accented", "\u{20ac}\u{e9}")]);
    b.put("commodity.trail", "directive-trailing-blanks", vec![m("none", ""), m("space", " "), m("tab-space", "\t ")]);
    b.lit("\n");
    b.put("commodity.comment-before", "sub-comment", sub_comment_alphabet());
    b.put("commodity.note", "sub-note", vec![m("default", "    note dollar\n"), m("absent", ""), m("one-space-indent", " note x\n"), m("two-notes", "    note a\n    note b\n"), m("empty", "    note \n")]);
    b.put(
        "commodity.alias",
        "sub-alias",
        vec![m("default", "    alias $\n"), m("absent", ""), m("cjk-tab", "\talias \u{7c73}\u{30c9}\u{30eb}\n"), m("two-aliases", "    alias $\n    alias US$\n"), d("trailing-sp", "    alias $  \n", "commodity-alias does not allow blanks after the commodity")],
    );
    b.put("commodity.format", "sub-format", vec![m("absent", ""), d("grouped", "    format 1,000.00 USD\n", WHY_FORMAT), d("tight", "  format  1000.00USD\n", WHY_FORMAT)]);
    b.put("commodity.comment-after", "sub-comment", sub_comment_alphabet());
    b.end_entry("commodity");

    // E6 include
    b.put(
        "include.line",
        "include",
        vec![
            m("path", "include path/to/other.ledger"),
            m("wide", "include  x.ledger"),
            m("tab", "include\tx.ledger"),
            m("inner-space", "include a b.ledger"),
            m("trailing-sp", "include x.ledger  "),
            m("cjk", "include \u{65e5}\u{672c}.ledger"),
            m("glob", "include ../*.ledger"),
        ],
    );
    b.lit("\n");
    b.end_entry("include");

    // E7 lot transaction
    b.header("t2", ("2024-02-01", "2024/02/01"), "=2024-02-03", "", "", "buy");
    b.put("t2.meta", "txn-metadata-lines", follow_alphabet());
    b.posting("t2.p1", "Assets:Broker", Some("10 AAPL"), " {100 USD}", " @ 110 USD", "", "");
    b.posting("t2.p2", "Assets:Bank", None, "", "", " = 9,000 USD", "");
    b.bare_posting("t2.p3", "Income:Gain");
    b.end_entry("txn");

    // E8 minimal transaction
    b.put("t3.date", "date", vec![m("default", "2024/03/01"), m("other-separator", "2024-03-01")]);
    b.put(
        "t3.tail",
        "minimal-header",
        vec![
            m("none", ""),
            m("metadata-directly-after-date", ";;note"),
            m("payee", " p"),
            m("space", " "),
            m("metadata-directly-after-date", ";k: v"),
            m("metadata-directly-after-date", ";:t:"),
            m("space-comment2", " ;; note"),
            m("effective-date", "=2024/03/02"),
            m("metadata-directly-after-effective-date", "=2024/03/02;;note"),
            m("clear-only", " *"),
            m("code-only", " (c)"),
            m("tab-payee", "\tp"),
        ],
    );
    b.lit("\n");
    b.put("t3.meta", "txn-metadata-lines", follow_alphabet());
    b.put("t3.posts", "minimal-postings", vec![m("none", ""), m("one-bare", "    A\n"), m("two", "\tA  1 USD\n    B\n")]);
    b.end_entry("txn");

    // blank lines
    let ws = |l: &'static str, t: &str| m(l, t);
    b.g.lead = b.slot("lead", "blank-lines", vec![m("none", ""), m("one-blank", "\n"), ws(GAP_WS, "  \n"), m("three-blank", "\n\n\n"), ws(GAP_WS, "\t\n")]);
    let n = b.g.entries.len();
    for i in 0..n - 1 {
        let s = b.slot(&format!("gap{}", i), "blank-lines", vec![m("one-blank", "\n"), m("no-blank", ""), ws(GAP_WS, "  \n"), m("three-blank", "\n\n\n"), ws(GAP_WS, "\t\n"), ws(GAP_WS, " \n\n")]);
        b.g.gaps.push(s);
    }
    b.g.tail = b.slot("tail", "blank-lines", vec![m("none", ""), m("one-blank", "\n"), ws(GAP_WS, "  \n"), m("two-blank", "\n\n"), ws("ws-only-line-at-eof", "  ")]);
    // rotation r starts the file with entry r and ends it with entry r-1: every entry kind is met first and last
    let rots: Vec<Alt> = (0..n)
        .map(|r| {
            let label: &'static str = Box::leak(format!("first={},last={}", b.g.entries[r].0, b.g.entries[(r + n - 1) % n].0).into_boxed_str());
            Alt { label, text: r.to_string(), dc: None }
        })
        .collect();
    b.g.order = b.slot("order", "entry-order", rots);
    b.g.nl = b.slot("new-line", "new-line", vec![m("lf", "\n"), m("crlf", "\r\n")]);
    b.g.fin = b.slot("final-new-line", "final-new-line", vec![m("present", "1"), m("absent", "0")]);
    b.g
}

impl Gen {
    fn render(&self, ch: &[usize]) -> String {
        let mut t = String::new();
        // a slot that depends on another one (lot and cost on the amount) renders as nothing while that one is absent
        let pick = |s: usize| -> &str {
            match &self.slots[s].inactive_when {
                Some((other, alts)) if alts.contains(&ch[*other]) => "",
                _ => &self.slots[s].alts[ch[s]].text,
            }
        };
        t.push_str(pick(self.lead));
        let n = self.entries.len();
        let rot = ch[self.order];
        for pos in 0..n {
            let (_, pieces) = &self.entries[(pos + rot) % n];
            for p in pieces {
                match p {
                    Piece::Lit(s) => t.push_str(s),
                    Piece::Slot(s) => t.push_str(pick(*s)),
                }
            }
            if pos + 1 < n {
                t.push_str(pick(self.gaps[pos]));
            }
        }
        t.push_str(pick(self.tail));
        if ch[self.fin] == 1 && t.ends_with('\n') {
            t.pop();
        }
        if ch[self.nl] == 1 {
            t = t.replace('\n', "\r\n");
        }
        t
    }

    /// every non-default slot is active
    fn consistent(&self, ch: &[usize]) -> bool {
        for (i, s) in self.slots.iter().enumerate() {
            if ch[i] != 0 {
                if let Some((other, alts)) = &s.inactive_when {
                    if alts.contains(&ch[*other]) {
                        return false;
                    }
                }
            }
        }
        true
    }

    fn dont_care(&self, ch: &[usize]) -> Option<&'static str> {
        for (i, s) in self.slots.iter().enumerate() {
            if let Some(w) = s.alts[ch[i]].dc {
                return Some(w);
            }
        }
        None
    }

    fn devs(&self, ch: &[usize]) -> Vec<(usize, usize)> {
        ch.iter().enumerate().filter(|(_, a)| **a != 0).map(|(i, a)| (i, *a)).collect()
    }

    fn dev_name(&self, d: &(usize, usize)) -> String {
        format!("{}:{}", self.slots[d.0].class, self.slots[d.0].alts[d.1].label)
    }

    fn describe(&self, ch: &[usize]) -> String {
        let devs = self.devs(ch);
        let mut s = String::from("slot document; deviations from the base document:");
        if devs.is_empty() {
            s.push_str(" none");
        }
        for dv in &devs {
            s.push_str(&format!("\n  {} = [{}] {:?}{}", self.slots[dv.0].name, self.slots[dv.0].alts[dv.1].label, self.slots[dv.0].alts[dv.1].text, if self.slots[dv.0].alts[dv.1].dc.is_some() { "  (not clearly documented)" } else { "" }));
        }
        let t = self.render(ch);
        s.push_str(&format!("\ntext (escaped): {:?}\ntext:\n{}", t, t));
        s
    }
}

// ---------------------------------------------------------------------------------------------
// judging one slot document

/// (base signature, detail) of the first failing clause, or None
fn slot_failure(g: &Gen, ch: &[usize]) -> Option<(String, String)> {
    let text = g.render(ch);
    match judge_text(&text) {
        Judged::Rejected(msg) => {
            if g.dont_care(ch).is_some() {
                None
            } else {
                Some(("documented-text-rejected".to_string(), format!("every spelling in this text is in doc/syntax.md, but parse_ledger rejects it: {}", msg.lines().take(8).collect::<Vec<_>>().join(" | "))))
            }
        }
        Judged::Holds { .. } => None,
        Judged::Fails(sig, detail) => Some((sig, detail)),
    }
}

/// smallest subset of the deviations that alone shows the same failure (singles, then pairs, else all)
fn culprits(g: &Gen, ch: &[usize], base_sig: &str) -> Vec<(usize, usize)> {
    let devs = g.devs(ch);
    if devs.len() <= 1 {
        return devs;
    }
    let try_subset = |sub: &[(usize, usize)]| -> bool {
        let mut c = vec![0usize; ch.len()];
        for (s, a) in sub {
            c[*s] = *a;
        }
        g.consistent(&c) && matches!(slot_failure(g, &c), Some((s, _)) if s == base_sig)
    };
    // the base document itself (then the deviations are irrelevant)
    if try_subset(&[]) {
        return vec![];
    }
    for dv in &devs {
        if try_subset(&[*dv]) {
            return vec![*dv];
        }
    }
    if devs.len() > 2 {
        for i in 0..devs.len() {
            for j in i + 1..devs.len() {
                if try_subset(&[devs[i], devs[j]]) {
                    return vec![devs[i], devs[j]];
                }
            }
        }
    }
    devs
}

fn judge_slot_doc(g: &Gen, ch: &[usize]) -> Outcome {
    let devs = g.devs(ch);
    let first_class = devs.first().map(|dv| g.slots[dv.0].class).unwrap_or("base");
    let text = g.render(ch);
    let dc = g.dont_care(ch);
    match judge_text(&text) {
        Judged::Rejected(_) if dc.is_some() => Outcome::dont_care(format!("S/undocumented-rejected/{}", first_class)),
        Judged::Holds { changed, kinds } => {
            tally(if dc.is_some() { "S_clause1_dont_care_accepted" } else { "S_clause1_must_accepted" });
            tally("S_clause2_and_3_hold");
            tally(if changed { "S_text_changed_by_format" } else { "S_text_already_formatted" });
            for _ in &kinds {
                tally("entries_compared");
            }
            Outcome::pass(format!("S/{}/{}", if dc.is_some() { "undocumented-accepted" } else { "accepted" }, first_class))
        }
        _ => {
            let (base, detail) = match slot_failure(g, ch) {
                Some(x) => x,
                // the same text was just judged differently by the same process: okane's reading depends on what it
                // read before. Reported as a violation of its own; the framework replays it in a fresh process.
                None => return Outcome::violation("verdict-changed-on-immediate-re-run-in-the-same-process", "judging the same text twice in a row gave a failure, then no failure"),
            };
            let cs = culprits(g, ch, &base);
            let names: Vec<String> = cs.iter().map(|c| g.dev_name(c)).collect();
            let sig = if names.is_empty() { format!("{}/base-document", base) } else { format!("{}/{}", base, names.join("+")) };
            Outcome::violation(sig, detail)
        }
    }
}

// ---------------------------------------------------------------------------------------------
// Family R: raw token strings

const TOKENS: [&str; 26] = [
    "2024/01/01", " ", "  ", "\t", "\n", ";", ":", "A:b", "1", "1,000.5", "-", ".", "USD", "(", ")", "{", "}", "[", "]", "@", "@@", "=", "*", "+", "\u{65e5}", "account",
];

/// (name, prefix, suffix)
const CONTEXTS: [(&str, &str, &str); 4] = [
    ("behind", "2024/01/01 p\n  A  1 USD\n  B", ""),
    ("inside", "2024/01/01 p\n  A  1 USD", "\n  B  -1 USD\n"),
    ("value", "2024/01/01 p\n  A  ", "\n  B\n"),
    ("alone", "", "\n"),
];

fn judge_raw(ctxname: &str, text: &str) -> Outcome {
    match judge_text(text) {
        Judged::Rejected(_) => {
            tally(format!("R_{}_rejected", ctxname));
            Outcome::dont_care(format!("R/{}/rejected", ctxname))
        }
        Judged::Holds { mut kinds, changed } => {
            tally(format!("R_{}_parsed_clause2_and_3_hold", ctxname));
            tally(if changed { "R_text_changed_by_format" } else { "R_text_already_formatted" });
            for _ in &kinds {
                tally("entries_compared");
            }
            kinds.sort();
            kinds.dedup();
            Outcome::pass(format!("R/{}/parsed/{}", ctxname, kinds.join("+")))
        }
        Judged::Fails(sig, detail) => Outcome::violation(format!("{}/raw-text", sig), detail),
    }
}

// ---------------------------------------------------------------------------------------------

/// number of alternatives (besides the default) of every slot that take part in the d = 3 exploration
const CORE_ALTS: usize = 3;

fn run(ctx: &mut Ctx) {
    let g = build();
    let ns = g.slots.len();
    let nondefault: u64 = g.slots.iter().map(|s| (s.alts.len() - 1) as u64).sum();
    let dc_alts: u64 = g.slots.iter().map(|s| s.alts.iter().filter(|a| a.dc.is_some()).count() as u64).sum();
    let core: u64 = g.slots.iter().map(|s| (s.alts.len() - 1).min(CORE_ALTS) as u64).sum();
    ctx.fact("S_slots", ns as u64);
    ctx.fact("S_alternatives_total", nondefault + ns as u64);
    ctx.fact("S_nondefault_alternatives", nondefault);
    ctx.fact("S_nondefault_alternatives_not_clearly_documented", dc_alts);
    ctx.fact("S_core_nondefault_alternatives_for_d3", core);
    ctx.fact("S_base_document_entries", g.entries.len() as u64);
    // (the base document itself is case d = 0 below: if okane stops reading it, that is a verdict, not a harness bug)
    let mut docs = [0u64; 4];
    let mut must_accept = 0u64;
    let mut dc_accept = 0u64;
    let mut skipped_inactive = 0u64;
    let mut emit = |ctx: &mut Ctx, ch: &[usize], dn: usize| {
        if !g.consistent(ch) {
            skipped_inactive += 1;
            return;
        }
        docs[dn] += 1;
        if g.dont_care(ch).is_some() {
            dc_accept += 1;
        } else {
            must_accept += 1;
        }
        if !ctx.next_is_mine() {
            ctx.skip_cases(1);
            return;
        }
        ctx.case(|| g.describe(ch), || judge_slot_doc(&g, ch));
        flush_tally(ctx);
    };
    let mut ch = vec![0usize; ns];
    // d = 0
    emit(ctx, &ch, 0);
    // d = 1
    for i in 0..ns {
        for a in 1..g.slots[i].alts.len() {
            ch[i] = a;
            emit(ctx, &ch, 1);
        }
        ch[i] = 0;
    }
    // d = 2
    for i in 0..ns {
        for a in 1..g.slots[i].alts.len() {
            ch[i] = a;
            for j in i + 1..ns {
                for b in 1..g.slots[j].alts.len() {
                    ch[j] = b;
                    emit(ctx, &ch, 2);
                }
                ch[j] = 0;
            }
        }
        ch[i] = 0;
    }
    // d = 3 over the core alternatives (thorough)
    if ctx.tier == Tier::Thorough {
        let lim = |s: &Slot| (s.alts.len() - 1).min(CORE_ALTS);
        for i in 0..ns {
            for a in 1..=lim(&g.slots[i]) {
                ch[i] = a;
                for j in i + 1..ns {
                    for b in 1..=lim(&g.slots[j]) {
                        ch[j] = b;
                        for k in j + 1..ns {
                            for c in 1..=lim(&g.slots[k]) {
                                ch[k] = c;
                                emit(ctx, &ch, 3);
                            }
                            ch[k] = 0;
                        }
                    }
                    ch[j] = 0;
                }
            }
            ch[i] = 0;
        }
    }
    ctx.fact("S_documents_d0", docs[0]);
    ctx.fact("S_documents_d1", docs[1]);
    ctx.fact("S_documents_d2", docs[2]);
    ctx.fact("S_documents_d3_core", docs[3]);
    ctx.fact("S_documents_acceptance_MUST", must_accept);
    ctx.fact("S_documents_acceptance_DONT_CARE", dc_accept);
    ctx.fact("S_combinations_skipped_inactive_slot", skipped_inactive);

    // Family R
    let nt = TOKENS.len() as u64;
    let mut raw_total = 0u64;
    for (cname, pre, suf) in CONTEXTS {
        let maxlen: u32 = match (ctx.tier, cname) {
            (Tier::Quick, "behind") => 4,
            (Tier::Quick, _) => 3,
            (Tier::Thorough, _) => 4,
        };
        for len in 1..=maxlen {
            let total = nt.pow(len);
            raw_total += total;
            for k in 0..total {
                if !ctx.next_is_mine() {
                    ctx.skip_cases(1);
                    continue;
                }
                let mut text = String::from(pre);
                let mut x = k;
                for _ in 0..len {
                    text.push_str(TOKENS[(x % nt) as usize]);
                    x /= nt;
                }
                text.push_str(suf);
                ctx.case(|| format!("raw token text ({}): {:?}\n{}", cname, text, text), || judge_raw(cname, &text));
                flush_tally(ctx);
            }
        }
    }
    // Family W: the amount-column boundary. The printer pads the account to a column; exactly at the boundary the
    // two blanks that separate an account from what follows are what keeps the meaning (one blank glues the amount
    // into the account name). Every account display width 1..=64 (ASCII, and names with wide characters) x
    // number spellings of different widths x {amount, assertion only, amount + assertion} x clear mark.
    {
        let numbers = ["1", "12.50", "-1,234.56", "1234567", "0.001"];
        let mut names: Vec<String> = vec![];
        for w in 1..=64usize {
            // ASCII name of exactly w columns
            names.push(if w <= 2 { "Ab"[..w].to_string() } else { format!("A:{}", "b".repeat(w - 2)) });
        }
        for n in 1..=24usize {
            // wide characters: 2 columns each (w = 2n, and 2n + 2 with an ASCII prefix)
            names.push("\u{8cc7}".repeat(n));
            names.push(format!("A:{}", "\u{9280}".repeat(n)));
        }
        ctx.fact("W_account_names", names.len() as u64);
        let mut n_w = 0u64;
        for name in &names {
            for num in numbers {
                for shape in 0..3 {
                    for mark in ["", "* "] {
                        n_w += 1;
                        if !ctx.next_is_mine() {
                            ctx.skip_cases(1);
                            continue;
                        }
                        let rest = match shape {
                            0 => format!("  {} USD", num),
                            1 => format!("  = {} USD", num),
                            _ => format!("  {} USD = {} USD", num, num),
                        };
                        let text = format!("2024/01/01 p\n  {}{}{}\n  B\n", mark, name, rest);
                        ctx.case(
                            || format!("column boundary:\n{}", text),
                            || match judge_text(&text) {
                                Judged::Rejected(e) => Outcome::violation("documented-text-rejected/column-boundary", e),
                                Judged::Holds { .. } => {
                                    tally("W_clause2_and_3_hold");
                                    Outcome::pass(format!("W/{}", ["amount", "assertion-only", "amount+assertion"][shape]))
                                }
                                Judged::Fails(sig, detail) => Outcome::violation(format!("{}/column-boundary", sig), detail),
                            },
                        );
                        flush_tally(ctx);
                    }
                }
            }
        }
        ctx.fact("W_texts", n_w);
    }
    // Family H: history independence. Reading a text must not depend on what the same process read before
    // (parser state that leaks from one entry or one call to the next shows up only after many entries). Each text is
    // parsed and formatted 1 500 times in a row, and as ONE file holding 1 500 copies: every result must equal the first.
    {
        let texts: Vec<String> = vec![
            g.render(&vec![0; ns]),
            "2024/01/01 p\n  A  (1 USD + 2 USD)\n  B\n".to_string(),
            "2024/01/01 p\n  A  (1.20 + 2 * 3.1 USD)\n  B  (-(1 USD) - 2 USD * 3)\n".to_string(),
            "2024/01/01 p\n  A  1 USD @ (1 EUR * 2) = ((3 USD))\n  B\n".to_string(),
            "2024/01/01 * (c) p ; note\n  ; k:: (1 + 2)\n  A  (((1 USD)))\n  B\n".to_string(),
            "account A\n  alias a\n\ncommodity USD\n  format 1,000.00 USD\n".to_string(),
        ];
        ctx.fact("H_texts", texts.len() as u64);
        for text in &texts {
            for whole_file in [false, true] {
                if !ctx.next_is_mine() {
                    ctx.skip_cases(1);
                    continue;
                }
                ctx.case(
                    || format!("history independence ({}):\n{}", if whole_file { "one file with 1500 copies" } else { "1500 calls" }, text),
                    || {
                        let first = match format_text(text) {
                            Ok(f) => f,
                            Err(e) => return Outcome::violation("documented-text-rejected/history-family", e),
                        };
                        if whole_file {
                            let big = format!("{}\n", text).repeat(1500);
                            return match format_text(&big) {
                                Ok(out) => {
                                    if out == first.repeat(1500) {
                                        Outcome::pass("H/one-file-1500-copies")
                                    } else {
                                        Outcome::violation("reading-depends-on-earlier-entries/formatted-output-differs", "the formatted output of 1500 copies is not 1500 times the formatted output of one copy")
                                    }
                                }
                                Err(e) => Outcome::violation("reading-depends-on-earlier-entries/rejected", format!("one copy is read, 1500 copies in one file are rejected: {}", e)),
                            };
                        }
                        for i in 0..1500 {
                            match format_text(text) {
                                Ok(f) if f == first => {}
                                Ok(_) => return Outcome::violation("reading-depends-on-earlier-calls/formatted-output-differs", format!("call {} formats the same text differently", i + 2)),
                                Err(e) => return Outcome::violation("reading-depends-on-earlier-calls/rejected", format!("call {} rejects the text that call 1 read: {}", i + 2, e)),
                            }
                        }
                        Outcome::pass("H/1500-calls")
                    },
                );
            }
        }
    }
    // Family L: large files made almost entirely of multi-byte characters (3-byte CJK, 4-byte emoji, 2-byte accented
    // letters), shifted by 0..=24 bytes of ASCII padding (longer than any ASCII run of the text) so that a multi-byte character lies across EVERY byte offset that
    // is a multiple of 512 (and therefore of every usual buffer size) in one of the shifts. Sizes 5 KiB .. 160 KiB.
    {
        let mut n_l = 0u64;
        for copies in [20usize, 40, 100, 700] {
            for shift in 0..=24usize {
                n_l += 1;
                if !ctx.next_is_mine() {
                    ctx.skip_cases(1);
                    continue;
                }
                let mut text = format!("; {}\n\n", "p".repeat(shift));
                for i in 0..copies {
                    text.push_str(&format!(
                        "2024/01/{:02} * \u{65e5}\u{672c}\u{8a9e}\u{306e}\u{5e97}\u{1f600}\u{1f4b0}\u{e9}\u{e8}\u{65e5}\u{672c}\u{8a9e}\u{306e}\u{5e97}\u{1f600}\u{1f4b0}\n    ; \u{30e1}\u{30e2}\u{1f600}\u{e9}\u{30e1}\u{30e2}\u{30e1}\u{30e2}\u{1f4b0}\u{30e1}\u{30e2}\n    \u{8cc7}\u{7523}:\u{9280}\u{884c}\u{1f3e6}:\u{666e}\u{901a}\u{9810}\u{91d1}    {} \u{5186}\n    \u{8cbb}\u{7528}:\u{98df}\u{8cbb}\u{e9}\n\n",
                        1 + i % 28,
                        1000 + i
                    ));
                }
                ctx.case(
                    || format!("large multi-byte file: {} transactions, {} bytes, shifted by {} bytes", copies, text.len(), shift),
                    || match judge_text(&text) {
                        Judged::Rejected(e) => Outcome::violation("documented-text-rejected/large-multibyte-file", e),
                        Judged::Holds { .. } => {
                            tally("L_clause2_and_3_hold");
                            Outcome::pass(format!("L/{}-transactions", copies))
                        }
                        Judged::Fails(sig, detail) => Outcome::violation(format!("{}/large-multibyte-file", sig), detail.chars().take(600).collect::<String>()),
                    },
                );
                flush_tally(ctx);
            }
        }
        ctx.fact("L_texts", n_l);
    }
    // Family D: every calendar day of 2019..=2027 (all positions of 1 January in the week, two leap days, every year
    // boundary) as transaction date, effective date and lot date, in both date spellings
    {
        let mut n_d = 0u64;
        let mut d = chrono::NaiveDate::from_ymd_opt(2019, 1, 1).unwrap();
        let end = chrono::NaiveDate::from_ymd_opt(2028, 1, 1).unwrap();
        while d < end {
            n_d += 1;
            let day = d;
            d = d.succ_opt().unwrap();
            if !ctx.next_is_mine() {
                ctx.skip_cases(1);
                continue;
            }
            let a = day.format("%Y/%m/%d").to_string();
            let b = day.format("%Y-%m-%d").to_string();
            let text = format!("{}={} p\n    A    1 X {{2 Y}} [{}]\n    B\n\n{} q\n    A    1 X [{}]\n    B\n", a, b, a, b, b);
            ctx.case(
                || format!("calendar day:\n{}", text),
                || match judge_text(&text) {
                    Judged::Rejected(e) => Outcome::violation("documented-text-rejected/calendar-day", e),
                    Judged::Holds { .. } => {
                        tally("D_clause2_and_3_hold");
                        Outcome::pass("D/calendar-day")
                    }
                    Judged::Fails(sig, detail) => Outcome::violation(format!("{}/calendar-day", sig), detail),
                },
            );
            flush_tally(ctx);
        }
        ctx.fact("D_days", n_d);
    }
    ctx.fact("R_tokens", nt);
    ctx.fact("R_texts", raw_total);
}
