//! C20 — the golden-file helper compares faithfully and only writes when told to.
//!
//! Engine: explicit-state search over the reference `RefGolden`
//!   state K = (golden file: absent | content i, UPDATE_GOLDEN: unset | "" | "1" | "0" | non-UTF-8,
//!              handle: none | Golden created when the file was absent / had content j)
//!   actions = set the variable (5), write / delete the file from outside (C+1),
//!             `Golden::new(path)`, `handle.assert(got)` for each of the C strings.
//! A case is an edge (history, action) whose action is `new` or `assert`; it is executed by replaying
//! the history on the REAL `okane_golden::Golden` in a fresh private directory and then performing the
//! action under observation (panic / no panic, Ok / Err, file bytes, file mtime, directory listing and
//! directory mtime before and after; file and directory are aged to 2001 first so that any write shows).
//!  family A: BFS with state de-duplication to the fixpoint (every reachable K x every action)
//!  family B: every raw action sequence up to a depth bound (history-independence; no de-duplication)
//!
//! UPDATE_GOLDEN is process-global: `single_worker: true`, everything runs sequentially.

use std::collections::BTreeMap;
use std::path::{Path, PathBuf};
use std::time::{Duration, SystemTime};

use okane_golden::Golden;

use crate::bfs;
use crate::fw::{self, CheckDef, Ctx, Outcome};
use crate::oka;

pub const DEF: CheckDef = CheckDef {
    id: "C20",
    run,
    technique: "explicit-state BFS over (golden file content | absent, UPDATE_GOLDEN value, handle snapshot) to the fixpoint plus all raw action sequences up to a depth bound; every edge replays its history on the real okane_golden::Golden in a private directory and observes panic/no panic, Ok/Err, file bytes, mtimes and the directory listing",
    rule: "case = (history, action) with action in {Golden::new, handle.assert(got)}; states = distinct reference states K reached (family A) resp. distinct histories (family B); transitions = edges executed on the real helper; a case is non-trivial (MUST) when RefGolden fixes the outcome: new Ok/Err, assert panic/no panic, file untouched (bytes + mtime + directory) without a non-empty UPDATE_GOLDEN, file == got exactly with it",
    assumptions: &[
        "CRLF normalisation is one left-to-right pass (`\\r\\r\\n` -> `\\r\\n`); contents for which a repeated pass would differ are DON'T-CARE where it matters",
        "'the golden file's content' is DON'T-CARE between the reading 'as read by Golden::new' and 'as on disk now' whenever the two differ in verdict (file changed, deleted or created after `new`)",
        "with a non-empty UPDATE_GOLDEN: `new` on a missing file must succeed; `assert` must leave file == got; whether it panics is judged only when got equals the old content and contains no CRLF (every reading agrees it succeeds)",
        "a non-UTF-8 value of UPDATE_GOLDEN is executed but not judged",
    ],
    shards: 1,
    hang_s: 30,
    single_worker: true,
};

const VAR: &str = "UPDATE_GOLDEN";

const CONTENTS: [&str; 14] = ["", "a", "a\n", "a\r\n", "a\r\nb\n", "a\nb\r\n", "\u{feff}a\n", "b", "é\n", "a\r", "\r\n", "a\r\r\n", "日本\r\nb", "a\n\n"];

#[derive(Clone, Copy, PartialEq, Eq, PartialOrd, Ord, Debug)]
enum Env {
    Unset,
    Empty,
    One,
    Zero,
    NonUtf8,
}
const ENVS: [Env; 5] = [Env::Unset, Env::Empty, Env::One, Env::Zero, Env::NonUtf8];

#[derive(Clone, Copy, PartialEq, Eq, Debug)]
enum Mode {
    NoUpdate,
    Update,
    Unknown,
}
impl Env {
    fn mode(self) -> Mode {
        match self {
            Env::Unset | Env::Empty => Mode::NoUpdate,
            Env::One | Env::Zero => Mode::Update,
            Env::NonUtf8 => Mode::Unknown,
        }
    }
    fn name(self) -> &'static str {
        match self {
            Env::Unset => "unset",
            Env::Empty => "empty",
            Env::One => "1",
            Env::Zero => "0",
            Env::NonUtf8 => "non-utf8",
        }
    }
    fn apply(self) {
        use std::os::unix::ffi::OsStrExt;
        match self {
            Env::Unset => std::env::remove_var(VAR),
            Env::Empty => std::env::set_var(VAR, ""),
            Env::One => std::env::set_var(VAR, "1"),
            Env::Zero => std::env::set_var(VAR, "0"),
            Env::NonUtf8 => std::env::set_var(VAR, std::ffi::OsStr::from_bytes(&[0xff, b'1'])),
        }
    }
}

/// Reference state K.
#[derive(Clone, PartialEq, Eq, PartialOrd, Ord, Debug)]
struct St {
    /// index into CONTENTS, None = absent
    file: Option<u8>,
    env: Env,
    /// None = no handle; Some(x) = handle created when the file state was x
    handle: Option<Option<u8>>,
}

#[derive(Clone, Copy, PartialEq, Eq, Debug)]
enum Act {
    SetEnv(Env),
    Write(u8),
    Delete,
    New,
    Assert(u8),
}

struct Alphabet {
    nc: usize,
    envs: Vec<Env>,
}
impl Alphabet {
    fn nactions(&self) -> usize {
        self.envs.len() + self.nc + 1 + 1 + self.nc
    }
    fn action(&self, i: usize) -> Act {
        let ne = self.envs.len();
        if i < ne {
            Act::SetEnv(self.envs[i])
        } else if i < ne + self.nc {
            Act::Write((i - ne) as u8)
        } else if i == ne + self.nc {
            Act::Delete
        } else if i == ne + self.nc + 1 {
            Act::New
        } else {
            Act::Assert((i - ne - self.nc - 2) as u8)
        }
    }
}

fn show_act(a: Act) -> String {
    match a {
        Act::SetEnv(Env::Unset) => format!("unset {}", VAR),
        Act::SetEnv(Env::NonUtf8) => format!("{}=<bytes ff 31>", VAR),
        Act::SetEnv(e) => format!("{}={:?}", VAR, match e {
            Env::Empty => "",
            Env::One => "1",
            _ => "0",
        }),
        Act::Write(c) => format!("write golden file := {:?}", CONTENTS[c as usize]),
        Act::Delete => "delete golden file".to_string(),
        Act::New => "g = Golden::new(path)".to_string(),
        Act::Assert(c) => format!("g.assert({:?})", CONTENTS[c as usize]),
    }
}

fn norm1(s: &str) -> String {
    s.replace("\r\n", "\n")
}
fn norm_fix(s: &str) -> String {
    let mut cur = s.to_string();
    loop {
        let n = norm1(&cur);
        if n == cur {
            return cur;
        }
        cur = n;
    }
}

/// RefGolden: successor state if the implementation complies. None = action not enabled / not predictable.
fn step(st: &St, a: Act) -> Option<St> {
    let mut n = st.clone();
    match a {
        Act::SetEnv(e) => n.env = e,
        Act::Write(c) => n.file = Some(c),
        Act::Delete => n.file = None,
        Act::New => match (st.file, st.env.mode()) {
            (_, Mode::Unknown) => return None,
            (Some(c), _) => n.handle = Some(Some(c)),
            (None, Mode::Update) => n.handle = Some(None),
            (None, _) => n.handle = None,
        },
        Act::Assert(g) => {
            st.handle?;
            match st.env.mode() {
                Mode::Unknown => return None,
                Mode::Update => n.file = Some(g),
                Mode::NoUpdate => {}
            }
        }
    }
    Some(n)
}

/// Is (state, action) a case (an execution of okane code that the statement talks about)?
fn is_case(st: &St, a: Act) -> bool {
    match a {
        Act::New => true,
        Act::Assert(_) => st.handle.is_some(),
        _ => false,
    }
}

// ------------------------------------------------------------------------------------------------
// the real world

struct World {
    dir: PathBuf,
    path: PathBuf,
    handle: Option<Golden>,
}

#[derive(PartialEq, Eq, Debug, Clone)]
struct Obs {
    listing: Vec<String>,
    bytes: Option<Vec<u8>>,
    mtime: Option<SystemTime>,
    dir_mtime: SystemTime,
}

fn old_time() -> SystemTime {
    SystemTime::UNIX_EPOCH + Duration::from_secs(978_307_200) // 2001-01-01
}

/// path numbers for the families that do not number their cases themselves
fn fresh_serial() -> u64 {
    static NEXT: std::sync::atomic::AtomicU64 = std::sync::atomic::AtomicU64::new(1 << 40);
    NEXT.fetch_add(1, std::sync::atomic::Ordering::Relaxed)
}

impl World {
    /// one private directory per worker process, emptied before every case
    fn new(root: &Path, n: u64) -> World {
        let dir = root.join("w");
        std::fs::create_dir_all(&dir).expect("harness bug: cannot create scratch dir");
        for e in std::fs::read_dir(&dir).expect("harness bug: read_dir") {
            let p = e.expect("harness bug: dir entry").path();
            if p.is_dir() {
                std::fs::remove_dir_all(&p).expect("harness bug: cleanup");
            } else {
                std::fs::remove_file(&p).expect("harness bug: cleanup");
            }
        }
        // a path of its own for every case: nothing a previous case left behind inside the process can be keyed by it
        let path = dir.join(format!("golden-{}.txt", n));
        World { dir, path, handle: None }
    }
    fn observe(&self) -> Obs {
        let mut listing: Vec<String> = std::fs::read_dir(&self.dir).expect("harness bug: read_dir").map(|e| e.unwrap().file_name().to_string_lossy().to_string()).collect();
        listing.sort();
        let bytes = std::fs::read(&self.path).ok();
        let mtime = std::fs::metadata(&self.path).ok().map(|m| m.modified().unwrap());
        let dir_mtime = std::fs::metadata(&self.dir).unwrap().modified().unwrap();
        Obs { listing, bytes, mtime, dir_mtime }
    }
    /// make every later write visible: file and directory get an mtime in 2001
    fn age(&self) {
        if let Ok(f) = std::fs::OpenOptions::new().write(true).open(&self.path) {
            f.set_modified(old_time()).expect("harness bug: set_modified(file)");
        }
        std::fs::File::open(&self.dir).and_then(|d| d.set_modified(old_time())).expect("harness bug: set_modified(dir)");
    }
    /// harness-side actions and un-observed replay of okane actions
    fn apply(&mut self, a: Act) {
        match a {
            Act::SetEnv(e) => e.apply(),
            Act::Write(c) => std::fs::write(&self.path, CONTENTS[c as usize].as_bytes()).expect("harness bug: write"),
            Act::Delete => {
                let _ = std::fs::remove_file(&self.path);
            }
            Act::New => {
                let p = self.path.clone();
                self.handle = fw::guarded(move || Golden::new(p)).ok().and_then(|r| r.ok());
            }
            Act::Assert(g) => {
                if let Some(h) = &self.handle {
                    let _ = fw::guarded(|| h.assert(CONTENTS[g as usize]));
                }
            }
        }
    }
    /// does the real world look like the reference state?
    fn matches(&self, st: &St) -> bool {
        let bytes = std::fs::read(&self.path).ok();
        let want = st.file.map(|c| CONTENTS[c as usize].as_bytes().to_vec());
        bytes == want && self.handle.is_some() == st.handle.is_some()
    }
}
impl Drop for World {
    fn drop(&mut self) {
        std::env::remove_var(VAR);
    }
}

fn touched(before: &Obs, after: &Obs) -> Option<&'static str> {
    if before.listing != after.listing {
        if before.bytes.is_none() && after.bytes.is_some() {
            return Some("golden-file-created");
        }
        if before.bytes.is_some() && after.bytes.is_none() {
            return Some("golden-file-deleted");
        }
        return Some("other-directory-entry-created-or-removed");
    }
    if before.bytes != after.bytes {
        return Some("golden-file-content-changed");
    }
    if before.mtime != after.mtime {
        return Some("golden-file-rewritten-with-same-content");
    }
    if before.dir_mtime != after.dir_mtime {
        return Some("directory-modified");
    }
    None
}

fn diff_class(content: &str, got: &str) -> &'static str {
    if norm_fix(content) == norm_fix(got) {
        "differs-only-in-line-endings"
    } else if norm_fix(content).trim_end_matches('\n') == norm_fix(got).trim_end_matches('\n') {
        "differs-only-in-trailing-newlines"
    } else {
        "differs-in-text"
    }
}

/// Execute history + action on the real helper and judge the action.
fn run_edge(root: &Path, serial: u64, init: &St, hist: &[Act], a: Act) -> Outcome {
    std::env::remove_var(VAR);
    let mut w = World::new(root, serial);
    let mut st = init.clone();
    for h in hist {
        w.apply(*h);
        st = match step(&st, *h) {
            Some(n) => n,
            None => panic!("harness bug: history contains a disabled action"),
        };
        if !w.matches(&st) {
            return Outcome::dont_care("prefix-diverged-from-reference(judged-at-the-diverging-edge)");
        }
    }
    let envn = st.env.name();
    let mode = st.env.mode();
    w.age();
    let before = w.observe();
    match a {
        Act::New => {
            let p = w.path.clone();
            let r = match fw::guarded(move || Golden::new(p)) {
                Ok(r) => r,
                Err(sig) => return Outcome::violation(format!("new/panicked/{}", sig), "Golden::new panicked"),
            };
            let after = w.observe();
            let t = touched(&before, &after);
            let present = if st.file.is_some() { "present" } else { "missing" };
            // result
            match (st.file, mode, &r) {
                (Some(_), _, Err(e)) => return Outcome::violation(format!("new/existing-file-rejected/env-{}", envn), format!("the golden file exists and is UTF-8, but Golden::new failed: {}", e)),
                (None, Mode::NoUpdate, Ok(_)) => return Outcome::violation(format!("new/missing-file-accepted/env-{}", envn), format!("the golden file does not exist and {} is {}, but Golden::new succeeded", VAR, envn)),
                (None, Mode::Update, Err(e)) => return Outcome::violation(format!("new/missing-file-rejected-in-update-mode/env-{}", envn), format!("{} is set to a non-empty value but Golden::new failed on the missing file: {}", VAR, e)),
                _ => {}
            }
            // side effects
            match (mode, t) {
                (Mode::NoUpdate, Some(t)) => Outcome::violation(format!("new/touched-files-without-update/{}/env-{}/file-{}", t, envn, present), format!("{} is {}, yet Golden::new changed the directory: {}", VAR, envn, t)),
                (Mode::Update, Some(t)) => Outcome::dont_care(format!("new/update-mode/{}", t)),
                (Mode::Unknown, _) => Outcome::dont_care(format!("new/env-non-utf8/file-{}/{}/{}", present, if r.is_ok() { "ok" } else { "err" }, t.unwrap_or("untouched"))),
                (_, None) => Outcome::pass(format!("new/{}/env-{}/file-{}/untouched", if r.is_ok() { "ok" } else { "err" }, envn, present)),
            }
        }
        Act::Assert(g) => {
            let got = CONTENTS[g as usize];
            let h = w.handle.take().expect("harness bug: assert without handle");
            let res = fw::guarded(|| h.assert(got));
            let panicked = res.is_err();
            let after = w.observe();
            let t = touched(&before, &after);
            let snap = st.handle.expect("harness bug: reference has no handle");
            let pn = if panicked { "panic" } else { "ok" };
            match mode {
                Mode::Unknown => Outcome::dont_care(format!("assert/env-non-utf8/{}/{}", pn, t.unwrap_or("untouched"))),
                Mode::Update => {
                    if after.bytes.as_deref() != Some(got.as_bytes()) {
                        let what = match (&before.bytes, &after.bytes) {
                            (_, None) => "file-missing",
                            (b, a2) if b == a2 => "file-not-written",
                            _ => "file-has-other-bytes",
                        };
                        return Outcome::violation(
                            format!("assert/update-mode/{}/env-{}/got-{}", what, envn, if got.contains("\r\n") { "with-crlf" } else if got.is_empty() { "empty" } else { "plain" }),
                            format!("{} is {:?}-ish (non-empty) and got = {:?}, but afterwards the golden file holds {:?}", VAR, envn, got, after.bytes.as_ref().map(|b| String::from_utf8_lossy(b).to_string())),
                        );
                    }
                    if after.listing != vec!["golden.txt".to_string()] {
                        return Outcome::dont_care("assert/update-mode/extra-directory-entries");
                    }
                    let all_readings_succeed = !got.contains("\r\n") && snap.map(|c| norm1(CONTENTS[c as usize]) == got && norm_fix(CONTENTS[c as usize]) == got).unwrap_or(false);
                    if all_readings_succeed && panicked {
                        return Outcome::violation(format!("assert/update-mode/panicked-on-equal-content/env-{}", envn), format!("got = {:?} equals the golden content before and after the update, but assert panicked", got));
                    }
                    Outcome::pass(format!("assert/update-mode/env-{}/file==got/{}{}", envn, pn, if all_readings_succeed { "(must)" } else { "(not-judged)" }))
                }
                Mode::NoUpdate => {
                    if let Some(t) = t {
                        return Outcome::violation(
                            format!("assert/wrote-without-update/{}/env-{}/{}", t, envn, pn),
                            format!("{} is {}, yet assert({:?}) changed the directory: {} (before {:?}, after {:?})", VAR, envn, got, t, before.bytes.as_ref().map(|b| String::from_utf8_lossy(b).to_string()), after.bytes.as_ref().map(|b| String::from_utf8_lossy(b).to_string())),
                        );
                    }
                    // expected verdict under both readings of "the golden file's content"
                    let verdict = |c: Option<u8>| -> Option<bool> {
                        let c = CONTENTS[c? as usize];
                        let v1 = norm1(c) == got;
                        let v2 = norm_fix(c) == got;
                        if v1 == v2 {
                            Some(v1)
                        } else {
                            None
                        }
                    };
                    let (vs, vf) = (verdict(snap), verdict(st.file));
                    let fresh = snap == st.file;
                    let expect = match (vs, vf) {
                        (Some(x), Some(y)) if x == y => Some(x),
                        _ => None,
                    };
                    match expect {
                        None => {
                            let why = if snap.is_none() || st.file.is_none() {
                                "golden-file-missing-now-or-at-new"
                            } else if vs.is_none() || vf.is_none() {
                                "nested-crlf-normalisation"
                            } else {
                                "file-changed-since-new"
                            };
                            Outcome::dont_care(format!("assert/no-update/{}/{}", why, pn))
                        }
                        Some(true) if panicked => {
                            let c = CONTENTS[snap.unwrap() as usize];
                            Outcome::violation(format!("assert/rejected-equal-content/env-{}/{}", envn, if c.contains("\r\n") { "content-with-crlf" } else { "content-without-crlf" }), format!("golden content {:?} normalises to got = {:?}, but assert panicked: {}", c, got, res.unwrap_err()))
                        }
                        Some(false) if !panicked => {
                            let c = CONTENTS[snap.unwrap() as usize];
                            Outcome::violation(format!("assert/accepted-different-content/env-{}/{}", envn, diff_class(&norm1(c), got)), format!("golden content {:?} (normalised {:?}) differs from got = {:?}, but assert succeeded", c, norm1(c), got))
                        }
                        Some(eq) => Outcome::pass(format!("assert/no-update/env-{}/{}/{}/untouched", envn, if eq { "equal->ok" } else { "different->panic" }, if fresh { "fresh-handle" } else { "stale-handle-same-verdict" })),
                    }
                }
            }
        }
        _ => panic!("harness bug: not a case action"),
    }
}

fn describe(init: &St, hist: &[Act], a: Act) -> String {
    let mut s = format!("start: golden file absent, {} unset, no handle (private directory)\n", VAR);
    let _ = init;
    for h in hist {
        s.push_str(&show_act(*h));
        s.push('\n');
    }
    s.push_str(&format!("JUDGED: {}\n", show_act(a)));
    s
}

fn run(ctx: &mut Ctx) {
    let thorough = ctx.tier == fw::Tier::Thorough;
    let init = St { file: None, env: Env::Unset, handle: None };
    let root: PathBuf = oka::scratch_dir("c20");
    let mut serial = 0u64;

    // family A: BFS to the fixpoint with de-duplication on K
    let alpha_a = Alphabet { nc: if thorough { CONTENTS.len() } else { 10 }, envs: ENVS.to_vec() };
    let na = alpha_a.nactions();
    let mut depth_hist: BTreeMap<usize, u64> = BTreeMap::new();
    let b = bfs::bfs(
        init.clone(),
        64,
        na,
        |s, ai| step(s, alpha_a.action(ai)),
        |hist, s, ai, _succ| {
            let a = alpha_a.action(ai);
            if !is_case(s, a) {
                return;
            }
            *depth_hist.entry(hist.len()).or_default() += 1;
            let hist_a: Vec<Act> = hist.iter().map(|i| alpha_a.action(*i)).collect();
            serial += 1;
            let n = serial;
            ctx.case(|| describe(&init, &hist_a, a), || run_edge(&root, n, &init, &hist_a, a));
        },
    );
    ctx.fact("states", b.states.len() as u64);
    ctx.fact("bfs_edges", b.edges);
    ctx.fact("bfs_max_depth", b.max_depth as u64);
    for (d, n) in &depth_hist {
        ctx.fact(&format!("family_a_cases_with_history_length_{}", d), *n);
    }
    let family_a_cases = serial;

    // family B: all raw sequences (no de-duplication) over the 7-content / 3-value alphabet
    let alpha_b = Alphabet { nc: if thorough { 9 } else { 4 }, envs: vec![Env::Unset, Env::Empty, Env::One] };
    // (depth 5 = four actions of history + the judged one: enough for write, new, write, new, assert - a second handle on
    // the same path must see the file as it is then, not as the first handle saw it)
    let depth_b = 5;
    let nb = alpha_b.nactions();
    let mut stack: Vec<(Vec<Act>, St)> = vec![(vec![], init.clone())];
    // depth-first, deterministic
    while let Some((hist, st)) = stack.pop() {
        for ai in 0..nb {
            let a = alpha_b.action(ai);
            if is_case(&st, a) {
                serial += 1;
                let n = serial;
                ctx.case(|| describe(&init, &hist, a), || run_edge(&root, n, &init, &hist, a));
            }
        }
        if hist.len() + 1 < depth_b {
            for ai in (0..nb).rev() {
                let a = alpha_b.action(ai);
                if let Some(n) = step(&st, a) {
                    let mut h = hist.clone();
                    h.push(a);
                    stack.push((h, n));
                }
            }
        }
    }
    // family C: a golden that cannot be read as text. `assert(got)` may succeed only when got EQUALS the file's content:
    // no string equals bytes that are not UTF-8 (or a directory), so without update mode either `new` fails or every
    // `assert` panics - and nothing on disk changes. In update mode the statement only fixes the file's content after a
    // successful assert.
    {
        let kinds: [(&str, Option<&[u8]>); 4] = [("invalid-utf8-bytes", Some(&[0xff, 0xfe, b'a', b'\n'])), ("latin1-text", Some(b"caf\xe9\n")), ("lone-continuation-byte", Some(&[b'a', 0x80])), ("path-is-a-directory", None)];
        let mut nc = 0u64;
        for (kname, bytes) in kinds {
            for env in ENVS {
                nc += 1;
                let root = root.clone();
                ctx.case(
                    || format!("golden file: {} ({:?}); UPDATE_GOLDEN {}; Golden::new, then assert(g) for every g in the content alphabet", kname, bytes, env.name()),
                    move || {
                        let w = World::new(&root, fresh_serial());
                        match bytes {
                            Some(b) => std::fs::write(&w.path, b).expect("harness bug: write"),
                            None => std::fs::create_dir_all(&w.path).expect("harness bug: mkdir"),
                        }
                        env.apply();
                        w.age();
                        let before = w.observe();
                        let p = w.path.clone();
                        let made = fw::guarded(move || Golden::new(p));
                        let out = match made {
                            Err(sig) => Outcome::violation(format!("unreadable-golden/new-panicked/{}", kname), sig),
                            Ok(Err(_)) => {
                                if w.observe() != before {
                                    Outcome::violation(format!("unreadable-golden/new-failed-but-touched-the-disk/{}", kname), "Golden::new returned an error and changed the directory")
                                } else {
                                    Outcome::pass(format!("unreadable-golden/{}/env-{}/new-fails", kname, env.name()))
                                }
                            }
                            Ok(Ok(g)) => {
                                let mut verdict = None;
                                for got in CONTENTS {
                                    let ok = fw::guarded(|| g.assert(got)).is_ok();
                                    match env.mode() {
                                        Mode::NoUpdate => {
                                            if ok {
                                                verdict = Some(Outcome::violation(format!("unreadable-golden/assert-succeeded/{}/env-{}", kname, env.name()), format!("assert({:?}) succeeded although the golden file holds no text at all", got)));
                                                break;
                                            }
                                            if w.observe() != before {
                                                verdict = Some(Outcome::violation(format!("unreadable-golden/wrote-without-update/{}/env-{}", kname, env.name()), "the golden file or its directory changed although UPDATE_GOLDEN is not set"));
                                                break;
                                            }
                                        }
                                        Mode::Update => {
                                            if ok && bytes.is_some() && std::fs::read(&w.path).ok().as_deref() != Some(got.as_bytes()) {
                                                verdict = Some(Outcome::violation(format!("unreadable-golden/update-mode/file-differs-from-got/{}", kname), format!("assert({:?}) succeeded in update mode but the file does not hold got", got)));
                                                break;
                                            }
                                        }
                                        Mode::Unknown => {}
                                    }
                                }
                                verdict.unwrap_or_else(|| match env.mode() {
                                    Mode::NoUpdate => Outcome::pass(format!("unreadable-golden/{}/env-{}/every-assert-panics", kname, env.name())),
                                    Mode::Update => Outcome::pass(format!("unreadable-golden/{}/env-{}/update", kname, env.name())),
                                    Mode::Unknown => Outcome::dont_care(format!("unreadable-golden/{}/env-non-utf8", kname)),
                                })
                            }
                        };
                        let _ = std::fs::remove_dir_all(&w.path);
                        let _ = std::fs::remove_file(&w.path);
                        std::env::remove_var(VAR);
                        out
                    },
                );
            }
        }
        ctx.fact("family_c_cases", nc);
    }
    // family D: a golden path that cannot be written (its directory does not exist; its "directory" is a regular file).
    // Whatever UPDATE_GOLDEN says, an `assert(got)` that RETURNS means the file now reads back as exactly `got`
    // (in update mode because it was written, otherwise because it already held it): a swallowed write error would let
    // a test pass with nothing recorded.
    {
        let mut nd = 0u64;
        for kname in ["parent-directory-missing", "parent-is-a-regular-file"] {
            for env in ENVS {
                nd += 1;
                let root = root.clone();
                ctx.case(
                    || format!("golden path that cannot be written ({}); UPDATE_GOLDEN {}; Golden::new, then assert(g) for every g in the content alphabet", kname, env.name()),
                    move || {
                        let w = World::new(&root, fresh_serial());
                        let parent = w.dir.join("sub");
                        if kname == "parent-is-a-regular-file" {
                            std::fs::write(&parent, b"not a directory\n").expect("harness bug: write");
                        }
                        let path = parent.join("golden.txt");
                        env.apply();
                        let p = path.clone();
                        let made = fw::guarded(move || Golden::new(p));
                        let out = match made {
                            Err(sig) => Outcome::violation(format!("unwritable-golden/new-panicked/{}", kname), sig),
                            Ok(Err(_)) => Outcome::pass(format!("unwritable-golden/{}/env-{}/new-fails", kname, env.name())),
                            Ok(Ok(g)) => {
                                let mut verdict = None;
                                let mut returned = 0;
                                for got in CONTENTS {
                                    let ok = fw::guarded(|| g.assert(got)).is_ok();
                                    if ok {
                                        returned += 1;
                                        if env.mode() != Mode::Unknown && std::fs::read(&path).ok().as_deref() != Some(got.as_bytes()) {
                                            verdict = Some(Outcome::violation(
                                                format!("unwritable-golden/assert-returned-but-file-does-not-hold-got/{}/env-{}", kname, env.name()),
                                                format!("assert({:?}) returned normally; reading {} afterwards gives {:?}", got, path.display(), std::fs::read(&path).map(|b| String::from_utf8_lossy(&b).to_string()).map_err(|e| e.to_string())),
                                            ));
                                            break;
                                        }
                                    }
                                }
                                verdict.unwrap_or_else(|| match env.mode() {
                                    Mode::Unknown => Outcome::dont_care(format!("unwritable-golden/{}/env-non-utf8", kname)),
                                    _ => Outcome::pass(format!("unwritable-golden/{}/env-{}/{}", kname, env.name(), if returned == 0 { "every-assert-panics" } else { "written" })),
                                })
                            }
                        };
                        std::env::remove_var(VAR);
                        out
                    },
                );
            }
        }
        ctx.fact("family_d_cases", nd);
    }
    // family E: large goldens (40 KiB, lines of 64 characters, some of them non-ASCII), written with LF and with CRLF, the
    // first line 0..=64 characters long so that a CR falls on the last byte before EVERY multiple of 4096 in one of the
    // shifts. `assert(got)` succeeds exactly for got = the LF text: not for a strict prefix (lost tail, lost final
    // newline, empty), not for an extension, not for a text that keeps one CRLF, not for one changed character near the
    // end. In update mode the file afterwards holds `got`.
    {
        let mut ne = 0u64;
        for crlf in [false, true] {
            for shift in 0..=64usize {
                for env in [Env::Unset, Env::One] {
                    ne += 1;
                    if !ctx.next_is_mine() {
                        ctx.skip_cases(1);
                        continue;
                    }
                    let root = root.clone();
                    ctx.case(
                        || format!("large golden ({} line ends, first line {} characters, 40 KiB); UPDATE_GOLDEN {}; assert for the exact text, prefixes, an extension, one kept CRLF, one changed character", if crlf { "CRLF" } else { "LF" }, shift, env.name()),
                        move || {
                            let mut lf = String::new();
                            lf.push_str(&"s".repeat(shift));
                            lf.push('\n');
                            let mut i = 0;
                            while lf.len() < 40 * 1024 {
                                i += 1;
                                lf.push_str(&format!("{:06} {}\n", i, if i % 7 == 0 { "\u{e9}".repeat(28) } else { "x".repeat(56) }));
                            }
                            let file_text = if crlf { lf.replace('\n', "\r\n") } else { lf.clone() };
                            let w = World::new(&root, fresh_serial());
                            let mut gots: Vec<(&str, String, bool)> = vec![("exact", lf.clone(), true), ("lost-final-newline", lf[..lf.len() - 1].to_string(), false), ("first-half", lf[..lf.len() / 2 - (0..4).find(|k| lf.is_char_boundary(lf.len() / 2 - k)).unwrap()].to_string(), false), ("empty", String::new(), false), ("extended", format!("{}x\n", lf), false)];
                            // one CRLF kept at the line end nearest to 8192 / 16384 (as bytes of the CRLF file)
                            for b in [8192usize, 16384] {
                                let cut = lf[..b.min(lf.len() - 1)].rfind('\n').unwrap();
                                gots.push(("one-crlf-kept", format!("{}\r\n{}", &lf[..cut], &lf[cut + 1..]), false));
                            }
                            let mut changed = lf.clone().into_bytes();
                            let n = changed.len();
                            changed[n - 3] = b'y';
                            gots.push(("one-character-changed-near-the-end", String::from_utf8(changed).unwrap(), false));
                            for (gname, got, equal) in &gots {
                                std::fs::write(&w.path, file_text.as_bytes()).expect("harness bug: write");
                                env.apply();
                                let p = w.path.clone();
                                let g = match fw::guarded(move || Golden::new(p)) {
                                    Ok(Ok(g)) => g,
                                    other => {
                                        std::env::remove_var(VAR);
                                        return Outcome::violation("large-golden/new-failed", format!("Golden::new on a readable 40 KiB file: {:?}", other.map(|r| r.map(|_| ()).map_err(|e| e.to_string()))));
                                    }
                                };
                                w.age();
                                let before = w.observe();
                                let ok = fw::guarded(|| g.assert(got)).is_ok();
                                let after_obs = w.observe();
                                let after = std::fs::read(&w.path).ok();
                                std::env::remove_var(VAR);
                                match env.mode() {
                                    Mode::NoUpdate => {
                                        if let Some(what) = touched(&before, &after_obs) {
                                            return Outcome::violation(format!("large-golden/wrote-without-update/{}/{}", what, gname), format!("UPDATE_GOLDEN {}: assert(got = {}) on a 40 KiB golden changed the directory: before {:?}, after {:?}", env.name(), gname, before.listing, after_obs.listing));
                                        }
                                        if ok != *equal {
                                            return Outcome::violation(format!("large-golden/{}/{}", if ok { "accepted-different-content" } else { "rejected-equal-content" }, gname), format!("golden of {} bytes ({}), got = {} ({} bytes): assert {}", file_text.len(), if crlf { "CRLF" } else { "LF" }, gname, got.len(), if ok { "returned" } else { "panicked" }));
                                        }
                                        if after.as_deref() != Some(file_text.as_bytes()) {
                                            return Outcome::violation("large-golden/wrote-without-update", "the golden file changed although UPDATE_GOLDEN is not set");
                                        }
                                    }
                                    _ => {
                                        if !ok || after.as_deref() != Some(got.as_bytes()) {
                                            return Outcome::violation(format!("large-golden/update-mode/{}", if ok { "file-differs-from-got" } else { "assert-panicked" }), format!("got = {} ({} bytes)", gname, got.len()));
                                        }
                                    }
                                }
                            }
                            Outcome::pass(format!("large-golden/{}/env-{}", if crlf { "crlf" } else { "lf" }, env.name()))
                        },
                    );
                }
            }
        }
        ctx.fact("family_e_cases", ne);
    }
    // family S: EVERY string of length <= 4 over {a, CR, LF} as the golden's content (121) x UPDATE_GOLDEN {unset, "", "1"};
    // inside a case every such string of length <= 3 (quick; <= 4 thorough) plus the content itself, raw and normalised, as `got`, each on a freshly written golden: assert returns exactly for
    // got == content with each CRLF pair replaced by LF (one pass: the statement's definition, CR CR LF -> CR LF),
    // nothing on disk changes without update mode, the file holds `got` with it
    {
        let mut all: Vec<String> = vec![String::new()];
        let mut layer: Vec<String> = vec![String::new()];
        for _ in 0..4 {
            let mut next = vec![];
            for s in &layer {
                for ch in ['a', '\r', '\n'] {
                    let mut t = s.clone();
                    t.push(ch);
                    next.push(t);
                }
            }
            all.extend(next.iter().cloned());
            layer = next;
        }
        let mut ns = 0u64;
        for content in &all {
            for env in [Env::Unset, Env::Empty, Env::One] {
                ns += 1;
                if !ctx.next_is_mine() {
                    ctx.skip_cases(1);
                    continue;
                }
                let root = root.clone();
                let all = &all;
                let full_gots = thorough;
                ctx.case(
                    || format!("golden content {:?}; UPDATE_GOLDEN {}; assert(got) for every string of length <= {} over {{a, CR, LF}} (and for the content itself, raw and normalised)", content, env.name(), if full_gots { 4 } else { 3 }),
                    move || {
                        let want = norm1(content);
                        let w = World::new(&root, fresh_serial());
                        // quick: every string of length <= 3, plus the normalised content and the raw content themselves
                        let gots: Vec<&String> = all.iter().filter(|g| full_gots || g.chars().count() <= 3 || **g == want || *g == content).collect();
                        for got in gots {
                            std::fs::write(&w.path, content.as_bytes()).expect("harness bug: write");
                            env.apply();
                            let p = w.path.clone();
                            let g = match fw::guarded(move || Golden::new(p)) {
                                Ok(Ok(g)) => g,
                                other => {
                                    std::env::remove_var(VAR);
                                    return Outcome::violation("short-strings/new-failed", format!("Golden::new on a readable file {:?}: {:?}", content, other.map(|r| r.map(|_| ()).map_err(|e| e.to_string()))));
                                }
                            };
                            w.age();
                            let before = w.observe();
                            let ok = fw::guarded(|| g.assert(got)).is_ok();
                            let after = w.observe();
                            std::env::remove_var(VAR);
                            match env.mode() {
                                Mode::NoUpdate => {
                                    if let Some(what) = touched(&before, &after) {
                                        return Outcome::violation(format!("short-strings/wrote-without-update/{}", what), format!("golden {:?}, got {:?}, UPDATE_GOLDEN {}", content, got, env.name()));
                                    }
                                    if ok != (*got == want) {
                                        return Outcome::violation(format!("short-strings/{}/{}", if ok { "accepted-different-content" } else { "rejected-equal-content" }, diff_class(content, got)), format!("golden bytes {:?} (CRLF-normalised: {:?}), got {:?}: assert {}", content, want, got, if ok { "returned" } else { "panicked" }));
                                    }
                                }
                                _ => {
                                    if !ok || after.bytes.as_deref() != Some(got.as_bytes()) {
                                        return Outcome::violation(format!("short-strings/update-mode/{}", if ok { "file-differs-from-got" } else { "assert-panicked" }), format!("golden {:?}, got {:?}: file afterwards {:?}", content, got, after.bytes.as_ref().map(|b| String::from_utf8_lossy(b).to_string())));
                                    }
                                }
                            }
                        }
                        Outcome::pass(format!("short-strings/env-{}/{}", env.name(), if content.contains("\r\n") { "with-crlf" } else if content.contains('\r') { "with-lone-cr" } else { "lf-only" }))
                    },
                );
                ctx.count("family_s_asserts", if thorough { all.len() as u64 } else { all.iter().filter(|g| g.chars().count() <= 3).count() as u64 });
            }
        }
        ctx.fact("family_s_cases", ns);
    }
    ctx.fact("family_a_cases", family_a_cases);
    ctx.fact("family_b_cases", serial - family_a_cases);
    ctx.fact("family_b_depth", depth_b as u64);
    let _ = std::fs::remove_dir_all(&root);
    std::env::remove_var(VAR);
}
