//! C10 — converted reports convert every amount or fail.

use chrono::NaiveDate;
use okane_core::report::query::{BalanceQuery, Conversion, ConversionStrategy, DateRange};

use super::c09::{refprice_q, GFact};
use crate::fw::{CheckDef, Ctx, Outcome};
use crate::oka::{self, Balances};
use crate::q::{qmap_add, qmap_show, QMap, Q};

pub const DEF: CheckDef = CheckDef {
    id: "C10",
    run,
    technique: "exhaustive enumeration of all ledgers of up to 3 transactions over an 8-transaction alphabet carrying holdings and price facts x target-precision contexts x targets x conversion strategies x report dates x date ranges; `Ledger::balance` with conversion runs on the real code and is compared with reference holdings converted by the brute-force price reference",
    rule: "case = (precision of T, sequence of <= 4 (thorough 5) transactions from a 9-transaction alphabet over accounts {P,Q}, commodities {A,B,T} with costs giving direct, reverse-only and two-hop price chains); inside a case every target {A,B,T} x strategy {up-to-date at d1, d2, d3+1; historical} x 9 date ranges is queried, and the whole ledger is also run with all amounts x3 (linearity). states = distinct ledgers, transitions = converted balance queries compared. MUST: expected = sum of holdings (up-to-date: per account/commodity in range, at `now`; historical: per posting at its transaction date) converted by RefPrices, rounded only to the target's declared precision; MUST-FAIL iff a non-zero needed amount has no rate",
    assumptions: &[
        "price chains in the alphabet are unique for every needed pair; a query whose reference accept-set has more than one rate is DON'T-CARE",
        "values compared with relative tolerance 1e-13 (reciprocal rates are 28-digit decimals; exact rational difference when it fits 128 bits); when the target has a declared precision the result must be a multiple of it within half a unit of the exact value",
    ],
    shards: 64,
    hang_s: 30,
    single_worker: false,
};

const NAMES: [&str; 3] = ["A", "B", "T"];
const D1: u32 = 10;
const D2: u32 = 15;
const D3: u32 = 20;

#[derive(Clone)]
struct Post {
    acct: &'static str,
    /// integer numerator over 1000 (so that scaling by 3 stays exact), commodity index
    milli: i64,
    com: usize,
    /// cost: (rate as text, rate as Q, commodity)
    cost: Option<(&'static str, usize)>,
    /// the cost is written as a total (`@@ |amount| * rate`) instead of per unit
    total: bool,
    /// the posting also carries a lot price equal to its cost, with a lot DATE (2024/01/02, before every transaction)
    /// and a lot note: the price it states is still the cost, on the day of the TRANSACTION
    dated_lot: bool,
}

#[derive(Clone)]
struct T {
    day: u32,
    /// secondary ("effective") date written after `=` in the header: must change nothing in any balance report
    eff: Option<u32>,
    ps: Vec<Post>,
}

fn p(acct: &'static str, milli: i64, com: usize) -> Post {
    Post { acct, milli, com, cost: None, total: false, dated_lot: false }
}
fn pc(acct: &'static str, milli: i64, com: usize, rate: &'static str, rc: usize) -> Post {
    Post { acct, milli, com, cost: Some((rate, rc)), total: false, dated_lot: false }
}
fn pt(acct: &'static str, milli: i64, com: usize, rate: &'static str, rc: usize) -> Post {
    Post { acct, milli, com, cost: Some((rate, rc)), total: true, dated_lot: false }
}
fn pl(acct: &'static str, milli: i64, com: usize, rate: &'static str, rc: usize) -> Post {
    Post { acct, milli, com, cost: Some((rate, rc)), total: false, dated_lot: true }
}

fn alphabet() -> Vec<T> {
    vec![
        T { eff: None, day: D1, ps: vec![p("P", 10_000, 0), p("Q", -10_000, 0)] },
        T { eff: None, day: D1, ps: vec![pc("P", 1_000, 0, "2", 2), p("Q", -2_000, 2)] },
        T { eff: None, day: D2, ps: vec![pc("P", 1_000, 0, "3", 2), p("Q", -3_000, 2)] },
        T { eff: None, day: D2, ps: vec![pc("P", 4_000, 1, "0.5", 0), p("Q", -2_000, 0)] },
        T { eff: None, day: D3, ps: vec![p("P", 2_000, 1), p("Q", -2_000, 1)] },
        T { eff: None, day: D1, ps: vec![p("P", 1_500, 2), p("Q", -1_500, 2)] },
        T { eff: None, day: D3, ps: vec![pc("Q", 3_000, 0, "1.255", 2), p("P", -3_765, 2)] },
        T { eff: None, day: D2, ps: vec![pc("P", 5_000, 1, "7", 2), p("Q", -35_000, 2)] },
        // a sale priced by its total: -2 B @@ 8 T states 1 B = 4 T
        T { eff: None, day: D3, ps: vec![pt("P", -2_000, 1, "4", 2), p("Q", 8_000, 2)] },
        // a purchase with a secondary date after every other price of B: `2024/01/10=2024/01/25`
        T { eff: Some(25), day: D1, ps: vec![pc("P", 2_000, 1, "6", 2), p("Q", -12_000, 2)] },
        // a sale out of a dated lot: `-1 B {5 T} [2024/01/02] (lot) @ 5 T` states 1 B = 5 T on the day of the sale
        T { eff: None, day: D3, ps: vec![pl("P", -1_000, 1, "5", 2), p("Q", 5_000, 2)] },
    ]
}

fn fmt_milli(m: i64) -> String {
    Q::new(m as i128, 1000).to_string()
}

fn render(tprec: Option<u32>, seq: &[&T], mult: i64) -> String {
    let mut s = String::new();
    // declare all commodities so that -X works even when one is never used
    s.push_str("commodity A\n\ncommodity B\n\ncommodity T\n");
    if let Some(dp) = tprec {
        let f = if dp == 0 { "1".to_string() } else { format!("1.{}", "0".repeat(dp as usize)) };
        s.push_str(&format!("  format {} T\n", f));
    }
    s.push('\n');
    for (i, t) in seq.iter().enumerate() {
        match t.eff {
            None => s.push_str(&format!("2024/01/{:02} t{}\n", t.day, i)),
            Some(e) => s.push_str(&format!("2024/01/{:02}=2024/01/{:02} t{}\n", t.day, e, i)),
        }
        for po in &t.ps {
            s.push_str(&format!("  {}  {} {}", po.acct, fmt_milli(po.milli * mult), NAMES[po.com]));
            if let (true, Some((r, rc))) = (po.dated_lot, po.cost) {
                s.push_str(&format!(" {{{} {}}} [2024/01/02] (lot)", r, NAMES[rc]));
            }
            if let Some((r, rc)) = po.cost {
                if po.total {
                    s.push_str(&format!(" @@ {} {}", Q::new((po.milli * mult).abs() as i128, 1000).mul(Q::parse(r)), NAMES[rc]));
                } else {
                    s.push_str(&format!(" @ {} {}", r, NAMES[rc]));
                }
            }
            s.push('\n');
        }
        s.push('\n');
    }
    s
}

fn day(d: u32) -> NaiveDate {
    oka::date(2024, 1, d)
}

type Range = (Option<u32>, Option<u32>);
fn ranges() -> Vec<Range> {
    vec![(None, None), (Some(D1), None), (Some(D2), None), (None, Some(D2)), (None, Some(D3)), (Some(D2), Some(D3)), (Some(D1), Some(D1)), (Some(D3), Some(D3 + 1)), (Some(D3 + 1), None)]
}
fn in_range(d: u32, r: Range) -> bool {
    r.0.map(|s| d >= s).unwrap_or(true) && r.1.map(|e| d < e).unwrap_or(true)
}

#[derive(Clone, Copy, Debug, PartialEq)]
enum Strat {
    UpToDate(u32),
    Historical,
}

enum Expect {
    Fail,
    Value(Balances),
    DontCare,
}

/// Reference result of `balance -X target`.
fn reference(seq: &[&T], mult: i64, target: usize, strat: Strat, range: Range, dbfacts: &[GFact]) -> Expect {
    let mut facts: Vec<GFact> = seq.iter().flat_map(|t| t.ps.iter().filter_map(move |po| po.cost.map(|(r, rc)| GFact { date: t.day, x: po.com, y: rc, rate: Q::parse(r), db: false }))).collect();
    facts.extend_from_slice(dbfacts);
    if dbfacts.iter().any(|f| f.rate.is_zero() && f.x == target) {
        // a report INTO a commodity the database prices at exactly zero: a zero price has no reciprocal, and whether an older
        // or a ledger-derived price of the pair may serve in that direction instead is not fixed by the statement
        return Expect::DontCare;
    }
    let mut tie = false;
    let mut convert = |com: usize, v: Q, at: u32| -> Option<Q> {
        if com == target {
            return Some(v);
        }
        // commodities 3 (U) and 4 (V) occur only in price-database lines
        let acc = refprice_q(5, &facts, com, target, at);
        if super::c09::zero_reverse_seen() {
            // a conversion INTO a commodity whose latest price is zero: open (see c09::ZERO_REVERSE_SEEN)
            tie = true;
            return Some(Q::ZERO);
        }
        let acc = acc?;
        if acc.len() > 1 {
            tie = true;
        }
        Some(v.mul(acc[0]))
    };
    let mut out = Balances::new();
    match strat {
        Strat::Historical => {
            for t in seq {
                if !in_range(t.day, range) {
                    continue;
                }
                for po in &t.ps {
                    let v = Q::new((po.milli * mult) as i128, 1000);
                    match convert(po.com, v, t.day) {
                        Some(c) => qmap_add(out.entry(po.acct.to_string()).or_default(), NAMES[target], c),
                        None => return Expect::Fail,
                    }
                }
            }
        }
        Strat::UpToDate(now) => {
            let mut hold: Balances = Balances::new();
            for t in seq {
                if !in_range(t.day, range) {
                    continue;
                }
                for po in &t.ps {
                    qmap_add(hold.entry(po.acct.to_string()).or_default(), NAMES[po.com], Q::new((po.milli * mult) as i128, 1000));
                }
            }
            for (acct, m) in &hold {
                for (c, v) in m {
                    if v.is_zero() {
                        continue;
                    }
                    let ci = NAMES.iter().position(|n| n == c).unwrap();
                    match convert(ci, *v, now) {
                        Some(x) => qmap_add(out.entry(acct.clone()).or_default(), NAMES[target], x),
                        None => return Expect::Fail,
                    }
                }
            }
        }
    }
    if tie {
        return Expect::DontCare;
    }
    Expect::Value(out)
}

fn close(exact: Q, got: Q, dp: Option<u32>) -> bool {
    let diff = exact.abs_diff_f64(got);
    let slack = exact.to_f64().abs() * 1e-13 + 1e-20;
    match dp {
        None => diff <= slack,
        Some(dp) => {
            if got.round_dp(dp).0 != got {
                return false;
            }
            diff <= 0.5 * 10f64.powi(-(dp as i32)) + slack
        }
    }
}

fn compare(exp: &Balances, got: &Balances, target: usize, dp: Option<u32>) -> Result<(), String> {
    let accts: std::collections::BTreeSet<&String> = exp.keys().chain(got.keys()).collect();
    for a in accts {
        let e = exp.get(a).cloned().unwrap_or_default();
        let g = got.get(a).cloned().unwrap_or_default();
        for (c, v) in &g {
            if c != NAMES[target] && !v.is_zero() {
                return Err(format!("account {} still shows {} {} (not converted into {})", a, v, c, NAMES[target]));
            }
        }
        let ev = e.get(NAMES[target]).copied().unwrap_or(Q::ZERO);
        let gv = g.get(NAMES[target]).copied().unwrap_or(Q::ZERO);
        if !close(ev, gv, dp) {
            return Err(format!("account {}: expected {} {} got {} {}", a, ev, NAMES[target], gv, NAMES[target]));
        }
    }
    Ok(())
}

/// Price databases (text, facts): a direct price for a pair the ledger may price too, a three-hop chain through
/// two commodities that occur only in the database (middle pair first / in chain order / last), two dates newest first.
fn price_dbs() -> Vec<(&'static str, Vec<GFact>)> {
    let f = |date: u32, x: usize, y: usize, rate: &str| GFact { date, x, y, rate: Q::parse(rate), db: true };
    let chain = vec![f(D1, 0, 3, "5"), f(D1, 3, 4, "2"), f(D1, 4, 2, "3")];
    vec![
        ("P 2024/01/10 A 5 T\n", vec![f(D1, 0, 2, "5")]),
        ("P 2024/01/10 U 2 V\nP 2024/01/10 A 5 U\nP 2024/01/10 V 3 T\n", chain.clone()),
        ("P 2024/01/10 A 5 U\nP 2024/01/10 U 2 V\nP 2024/01/10 V 3 T\n", chain.clone()),
        ("P 2024/01/10 V 3 T\nP 2024/01/10 A 5 U\nP 2024/01/10 U 2 V\n", chain),
        ("P 2024/01/15 B 4 T\nP 2024/01/10 B 2 T\n", vec![f(D2, 1, 2, "4"), f(D1, 1, 2, "2")]),
        // a quote of exactly zero is a quote: from day 15 on B is worth 0 T (and nothing can be converted INTO B through it)
        ("P 2024/01/10 B 2 T\nP 2024/01/15 B 0 T\n", vec![f(D1, 1, 2, "2"), f(D2, 1, 2, "0")]),
        ("P 2024/01/15 A 0 T\n", vec![f(D2, 0, 2, "0")]),
    ]
}

fn judge(tprec: Option<u32>, seq: &[&T], queries: &mut u64, must: &mut u64) -> Outcome {
    judge_db(tprec, seq, queries, must, None, &[])
}

fn judge_db(tprec: Option<u32>, seq: &[&T], queries: &mut u64, must: &mut u64, dbpath: Option<&std::path::Path>, dbfacts: &[GFact]) -> Outcome {
    let text1 = render(tprec, seq, 1);
    let text3 = render(tprec, seq, 3);
    let strategies = [Strat::UpToDate(D1), Strat::UpToDate(D2), Strat::UpToDate(D3 + 1), Strat::Historical];
    let mut classes = std::collections::BTreeSet::new();
    for (mult, text) in [(1i64, &text1), (3i64, &text3)] {
        let r = oka::with_ledger(&[(oka::ROOT, text.as_str())], oka::ROOT, dbpath, |r| {
            let (l, ctx) = match r {
                Ok(x) => x,
                Err(e) => return Some(Outcome::violation(format!("accepted-ledger-rejected/{}", e.variant), e.rendered)),
            };
            for target in 0..3 {
                let tc = ctx.commodity(NAMES[target]).expect("declared commodity");
                for strat in strategies {
                    for range in ranges() {
                        *queries += 1;
                        let q = BalanceQuery {
                            conversion: Some(Conversion {
                                strategy: match strat {
                                    Strat::Historical => ConversionStrategy::Historical,
                                    Strat::UpToDate(n) => ConversionStrategy::UpToDate { now: day(n) },
                                },
                                target: tc,
                            }),
                            date_range: DateRange { start: range.0.map(day), end: range.1.map(day) },
                        };
                        let got = l.balance(ctx, &q).map(|b| oka::balance_to_map(&b)).map_err(|e| e.to_string());
                        let exp = reference(seq, mult, target, strat, range, dbfacts);
                        let what = format!("amounts x{}: balance -X {} {:?} range {:?}", mult, NAMES[target], strat, range);
                        let dp = if target == 2 { tprec } else { None };
                        let kind = if matches!(strat, Strat::Historical) { "historical" } else { "up-to-date" };
                        match (&exp, &got) {
                            (Expect::DontCare, _) => {
                                classes.insert("tie-dontcare");
                            }
                            (Expect::Fail, Err(_)) => {
                                *must += 1;
                                classes.insert("fails-without-rate");
                            }
                            (Expect::Fail, Ok(g)) => return Some(Outcome::violation(format!("{}/converted-although-a-rate-is-missing", kind), format!("{}: some non-zero amount has no rate into {}, but the report succeeded: {:?}", what, NAMES[target], g))),
                            (Expect::Value(e), Err(er)) => return Some(Outcome::violation(format!("{}/failed-although-all-rates-exist", kind), format!("{}: expected {:?}, got error {}", what, e, er))),
                            (Expect::Value(e), Ok(g)) => {
                                *must += 1;
                                classes.insert("converted");
                                if let Err(m) = compare(e, g, target, dp) {
                                    let lin = if mult == 3 { "/scaled-x3" } else { "" };
                                    return Some(Outcome::violation(format!("{}/converted-value-differs{}{}", kind, if dp.is_some() { "/with-target-precision" } else { "" }, lin), format!("{}: {}\nexpected {}\ngot {}", what, m, show(e), show(g))));
                                }
                            }
                        }
                    }
                }
            }
            None
        });
        if let Some(o) = r {
            return o;
        }
    }
    Outcome::pass(format!("ok/txns{}/{}", seq.len(), classes.into_iter().collect::<Vec<_>>().join("+")))
}

fn show(b: &Balances) -> String {
    b.iter().map(|(a, m)| format!("{}: {}", a, qmap_show(m))).collect::<Vec<_>>().join("; ")
}

fn run(ctx: &mut Ctx) {
    let alpha = alphabet();
    let n = alpha.len() as u64;
    let maxlen = ctx.tier.pick(4u32, 5u32);
    for tprec in [None, Some(2u32), Some(0u32)] {
        for len in 1..=maxlen {
            for k in 0..n.pow(len) {
                if !ctx.next_is_mine() {
                    ctx.skip_cases(1);
                    continue;
                }
                let mut idx = vec![];
                let mut x = k;
                for _ in 0..len {
                    idx.push((x % n) as usize);
                    x /= n;
                }
                let seq: Vec<&T> = idx.iter().map(|i| &alpha[*i]).collect();
                let (mut q, mut m) = (0u64, 0u64);
                ctx.case(|| format!("[T precision {:?}]\n{}", tprec, render(tprec, &seq, 1)), || judge(tprec, &seq, &mut q, &mut m));
                ctx.count("transitions", q);
                ctx.count("validated", m);
                ctx.count("states", 1);
            }
        }
    }
    // with a price database: all ledgers of <= 2 (thorough <= 3) transactions x 5 databases
    let dir = oka::scratch_dir("c10");
    let dbpath = dir.join(format!("pricedb-{}.txt", ctx.shard));
    let dbs = price_dbs();
    ctx.fact("price_databases", dbs.len() as u64);
    let maxlen_db = ctx.tier.pick(2u32, 3u32);
    for (dbtext, dbfacts) in &dbs {
        for len in 1..=maxlen_db {
            for k in 0..n.pow(len) {
                if !ctx.next_is_mine() {
                    ctx.skip_cases(1);
                    continue;
                }
                let mut idx = vec![];
                let mut x = k;
                for _ in 0..len {
                    idx.push((x % n) as usize);
                    x /= n;
                }
                let seq: Vec<&T> = idx.iter().map(|i| &alpha[*i]).collect();
                let (mut q, mut m) = (0u64, 0u64);
                ctx.case(
                    || format!("{}-- price db --\n{}", render(None, &seq, 1), dbtext),
                    || {
                        std::fs::write(&dbpath, dbtext).expect("write price db");
                        let o = judge_db(None, &seq, &mut q, &mut m, Some(&dbpath), dbfacts);
                        match o.verdict {
                            crate::fw::Verdict::Pass => Outcome::pass(format!("pricedb/{}", o.class)),
                            crate::fw::Verdict::Violation { sig, detail } => Outcome::violation(format!("pricedb/{}", sig), detail),
                            _ => o,
                        }
                    },
                );
                ctx.count("transitions", q);
                ctx.count("validated", m);
                ctx.count("states", 1);
            }
        }
    }
    // diamonds in the database: A reaches T through U (5 x 3) and through V (2 x 7); each of the four quotes is dated d1, d2
    // or d3 (81 databases): every report must use the chain the ranking prefers (fewest steps tie, so the less stale one;
    // ties in staleness leave both values open). Ledgers of one transaction.
    {
        let ds = [D1, D2, D3];
        for code in 0..81u32 {
            let d = |i: u32| ds[((code / 3u32.pow(i)) % 3) as usize];
            let f = |date: u32, x: usize, y: usize, rate: &str| GFact { date, x, y, rate: Q::parse(rate), db: true };
            let dbfacts = vec![f(d(0), 0, 3, "5"), f(d(1), 3, 2, "3"), f(d(2), 0, 4, "2"), f(d(3), 4, 2, "7")];
            let dbtext = format!("P 2024/01/{:02} A 5 U\nP 2024/01/{:02} U 3 T\nP 2024/01/{:02} A 2 V\nP 2024/01/{:02} V 7 T\n", d(0), d(1), d(2), d(3));
            for k in 0..n {
                if !ctx.next_is_mine() {
                    ctx.skip_cases(1);
                    continue;
                }
                let seq: Vec<&T> = vec![&alpha[k as usize]];
                let (mut q, mut m) = (0u64, 0u64);
                ctx.case(
                    || format!("{}-- price db (diamond) --\n{}", render(None, &seq, 1), dbtext),
                    || {
                        std::fs::write(&dbpath, &dbtext).expect("write price db");
                        let o = judge_db(None, &seq, &mut q, &mut m, Some(&dbpath), &dbfacts);
                        match o.verdict {
                            crate::fw::Verdict::Pass => Outcome::pass(format!("pricedb-diamond/{}", o.class)),
                            crate::fw::Verdict::Violation { sig, detail } => Outcome::violation(format!("pricedb-diamond/{}", sig), detail),
                            _ => o,
                        }
                    },
                );
                ctx.count("transitions", q);
                ctx.count("validated", m);
                ctx.count("states", 1);
            }
        }
    }
    let _ = std::fs::remove_file(&dbpath);
    // the command line: `okane balance -X <target>` must fail exactly when the reference says a rate is missing - and
    // always when the target is a commodity that occurs nowhere (it must never print the amounts unconverted)
    let lpath = dir.join(format!("cli-{}.ledger", ctx.shard));
    for len in 1..=2u32 {
        for k in 0..n.pow(len) {
            let mut idx = vec![];
            let mut x = k;
            for _ in 0..len {
                idx.push((x % n) as usize);
                x /= n;
            }
            let seq: Vec<&T> = idx.iter().map(|i| &alpha[*i]).collect();
            for target in ["A", "B", "T", "ZZZ", "t"] {
                for historical in [false, true] {
                    if !ctx.next_is_mine() {
                        ctx.skip_cases(1);
                        continue;
                    }
                    let text = render(None, &seq, 1);
                    ctx.case(
                        || format!("$ okane balance -X {} --now 2024-01-21{} <file>\n{}", target, if historical { " --historical" } else { "" }, text),
                        || {
                            std::fs::write(&lpath, &text).expect("write ledger");
                            let mut args: Vec<String> = ["okane", "balance", "-X", target, "--now", "2024-01-21"].iter().map(|x| x.to_string()).collect();
                            if historical {
                                args.push("--historical".into());
                            }
                            args.push(lpath.to_string_lossy().to_string());
                            let out = super::c13::run_cli(&args);
                            let ok = out.starts_with("EXIT 0");
                            match NAMES.iter().position(|n| *n == target) {
                                None => {
                                    if ok {
                                        Outcome::violation("cli/unknown-target-commodity-accepted", format!("-X {} names a commodity that occurs nowhere, yet the command succeeded:\n{}", target, out))
                                    } else {
                                        Outcome::pass("cli/unknown-target/fails")
                                    }
                                }
                                Some(ti) => {
                                    let strat = if historical { Strat::Historical } else { Strat::UpToDate(D3 + 1) };
                                    match reference(&seq, 1, ti, strat, (None, None), &[]) {
                                        Expect::Fail if ok => Outcome::violation("cli/converted-although-a-rate-is-missing", out),
                                        Expect::Value(_) if !ok => Outcome::violation("cli/failed-although-all-rates-exist", out),
                                        Expect::DontCare => Outcome::dont_care("cli/tie"),
                                        Expect::Fail => Outcome::pass("cli/fails-without-rate"),
                                        Expect::Value(_) => Outcome::pass("cli/converted"),
                                    }
                                }
                            }
                        },
                    );
                }
            }
        }
    }
    let _ = std::fs::remove_file(&lpath);
    let _: QMap = QMap::new();
}
