//! C04 — reported balances equal the sum of the register, over any date range.

use std::collections::BTreeMap;

use chrono::NaiveDate;
use okane_core::report::query::{BalanceQuery, Conversion, ConversionStrategy, DateRange, PostingQuery};

use crate::fw::{CheckDef, Ctx, Outcome};
use crate::oka::{self, Balances};
use crate::q::{qmap_add, qmap_clean, qmap_show, QMap, Q};
use crate::refledger::{self as rl, Ann, Bal, Exp, Prec, State, P};

pub const DEF: CheckDef = CheckDef {
    id: "C04",
    run,
    technique: "exhaustive enumeration of all ledgers of up to 3-4 transactions over a 19-transaction alphabet (as histories, any file order) x precision contexts x ALL (start,end) date ranges; balance, range-recomputed balance and register are obtained from the real code and compared with each other and with the reference ledger's per-posting amounts",
    rule: "case = (precision context, sequence of <= 4 (thorough 5) transactions from a 19-transaction alphabet with three dates (and, for <= 2 transactions, four more calendars placing the dates around 1970-01-01, a leap day, a year boundary and 1900), repeated dates, multi-commodity, cancelling, inferred, assigned, priced and sub-precision postings); inside a case all 36 (start,end) pairs over {none, d1-1, d1, d2, d3, d3+1} (incl. start=end and start>end) are queried, additivity is checked for every split point, and a slice of cases is also run through the CLI (balance/register on real files). states = distinct ledgers, transitions = balance/register queries compared",
    assumptions: &[
        "RefLedger gives the per-posting amounts; sums are exact rationals; a range report may be rounded to the declared precision (any midpoint rule accepted), the whole-history report may be raw",
        "three dates, accounts {P,Q,R}, commodities {X,Y}",
    ],
    shards: 64,
    hang_s: 30,
    single_worker: false,
};

#[derive(Clone)]
struct T {
    day: u32,
    ps: Vec<P>,
}
/// transactions with this day are written `2024/01/<day>=2024/01/<EFF>`: the effective date is only a note,
/// reports place the transaction by its date
const WITH_EFFECTIVE_DATE: u32 = 12;
const EFF: u32 = 25;

const D1: u32 = 10;
const D2: u32 = 15;
const D3: u32 = 20;

fn alphabet() -> Vec<T> {
    let a = |acct, v, c| P::amt(acct, v, c);
    vec![
        T { day: D1, ps: vec![a("P", "1", "X"), a("Q", "-1", "X")] },
        T { day: D2, ps: vec![a("P", "2", "X"), P::omitted("Q")] },
        T { day: D3, ps: vec![a("P", "-1", "X"), a("Q", "1", "X")] },
        T { day: D1, ps: vec![a("P", "1", "Y"), a("R", "-1", "Y")] },
        T { day: D2, ps: vec![a("P", "1", "X"), a("P", "2", "Y"), P::omitted("R")] },
        T { day: D2, ps: vec![a("P", "-1", "X"), a("Q", "1", "X")] },
        T { day: D3, ps: vec![a("P", "1.005", "X"), a("Q", "-1.005", "X")] },
        T { day: D1, ps: vec![a("Q", "0.005", "X"), a("R", "-0.005", "X")] },
        T { day: D3, ps: vec![a("P", "1", "X").with_ann(Ann::Rate("2", "Y")), a("R", "-2", "Y")] },
        T { day: D2, ps: vec![a("R", "3", "Y"), a("P", "-3", "Y")] },
        T { day: D1, ps: vec![P::assign("P", Bal::Val("5", "X")), P::omitted("Q")] },
        T { day: D3, ps: vec![a("P", "1", "X"), a("P", "-1", "X")] },
        T { day: D2, ps: vec![a("P", "0.004", "X"), a("Q", "-0.004", "X")] },
        T { day: D3, ps: vec![a("Q", "2", "Y").with_ann(Ann::LotRate("3", "X")), a("R", "-6", "X")] },
        // dated between d1 and d2 with an effective date after d3
        T { day: WITH_EFFECTIVE_DATE, ps: vec![a("P", "7", "X"), a("Q", "-7", "X")] },
        // assignments to zero of one commodity (the account must stop showing it) and of the whole account
        T { day: D2, ps: vec![P::assign("P", Bal::Val("0", "X")), P::omitted("Q")] },
        T { day: D3, ps: vec![P::assign("Q", Bal::Val("0", "Y")), P::omitted("R")] },
        // an account whose name differs from P only in letter case: a different account
        T { day: D1, ps: vec![a("p", "3", "X"), a("Q", "-3", "X")] },
        // the smallest unit of an 18-decimal commodity: a total of 1e-18 is not zero
        T { day: D2, ps: vec![a("P", "0.000000000000000001", "Y"), a("Q", "-0.000000000000000001", "Y")] },
    ]
}

fn render(prec: &Prec, seq: &[&T]) -> String {
    let mut s = rl::prec_header(prec);
    for (i, t) in seq.iter().enumerate() {
        if t.day == WITH_EFFECTIVE_DATE {
            s.push_str(&format!("{}={} t{}\n", day(t.day).format("%Y/%m/%d"), day(EFF).format("%Y/%m/%d"), i));
        } else {
            s.push_str(&format!("{} t{}\n", day(t.day).format("%Y/%m/%d"), i));
        }
        for p in &t.ps {
            s.push_str(&p.render(p.acct));
            s.push('\n');
        }
        s.push('\n');
    }
    s
}

thread_local! {
    /// calendar: day number d stands for BASE + (d - 1) days (default 2024/01/01, so d is the day of January 2024)
    static BASE: std::cell::Cell<(i32, u32, u32)> = const { std::cell::Cell::new((2024, 1, 1)) };
}
fn day(d: u32) -> NaiveDate {
    let (y, m, dd) = BASE.with(|b| b.get());
    oka::date(y, m, dd) + chrono::Duration::days(d as i64 - 1)
}

fn bounds() -> Vec<Option<u32>> {
    vec![None, Some(D1 - 1), Some(D1), Some(D2), Some(D3), Some(D3 + 1)]
}

fn in_range(d: u32, s: Option<u32>, e: Option<u32>) -> bool {
    s.map(|s| d >= s).unwrap_or(true) && e.map(|e| d < e).unwrap_or(true)
}

/// got may be the exact sum, or the sum rounded to the declared precision (any midpoint rule)
fn agrees(exact: &QMap, got: &QMap, prec: &Prec) -> bool {
    let keys: std::collections::BTreeSet<&String> = exact.keys().chain(got.keys()).collect();
    for k in keys {
        let e = exact.get(k).copied().unwrap_or(Q::ZERO);
        let g = got.get(k).copied().unwrap_or(Q::ZERO);
        if e == g {
            continue;
        }
        match prec.get(k.as_str()) {
            None => return false,
            Some(dp) => {
                // g must be a multiple of 10^-dp within half a unit of e
                let unit = Q::new(1, 10i128.pow(*dp));
                if g.round_dp(*dp).0 != g {
                    return false;
                }
                let diff = e.sub(g).abs();
                if diff.cmp(&unit.div(Q::int(2))) == std::cmp::Ordering::Greater {
                    return false;
                }
            }
        }
    }
    true
}

fn sum_maps(a: &Balances, b: &Balances) -> Balances {
    let mut out = a.clone();
    for (acc, m) in b {
        let e = out.entry(acc.clone()).or_default();
        for (c, v) in m {
            qmap_add(e, c, *v);
        }
    }
    out
}

fn judge(prec: &Prec, seq: &[&T], text: &str, with_cli: bool, queries: &mut u64) -> Outcome {
    // reference: per-posting amounts
    let mut st = State::default();
    let mut ref_postings: Vec<(u32, String, QMap)> = vec![];
    for t in seq {
        match rl::step(&st, prec, &t.ps) {
            Exp::Accept { amounts, next, .. } => {
                for (p, a) in t.ps.iter().zip(amounts) {
                    ref_postings.push((t.day, p.acct.to_string(), a));
                }
                st = next;
            }
            other => panic!("harness bug: alphabet transaction not accepted by the reference: {:?}", other),
        }
    }
    let ref_sum = |s: Option<u32>, e: Option<u32>| -> Balances {
        let mut b = Balances::new();
        for (d, acc, a) in &ref_postings {
            if in_range(*d, s, e) {
                let m = b.entry(acc.clone()).or_default();
                for (c, v) in a {
                    qmap_add(m, c, *v);
                }
            }
        }
        b
    };
    let bs = bounds();
    let r = oka::with_ledger(&[(oka::ROOT, text)], oka::ROOT, None, |r| {
        let (l, ctx) = match r {
            Ok(x) => x,
            Err(e) => return Err(Outcome::violation(format!("accepted-ledger-rejected/{}", e.variant), e.rendered)),
        };
        // register
        let posts = l.postings(ctx, &PostingQuery { account: None });
        let mut reg: Balances = Balances::new();
        let mut reg_list: Vec<(String, QMap)> = vec![];
        for p in &posts {
            let m = oka::amount_to_qmap(&p.amount);
            let e = reg.entry(p.account.as_str().to_string()).or_default();
            for (c, v) in &m {
                qmap_add(e, c, *v);
            }
            reg_list.push((p.account.as_str().to_string(), m));
        }
        *queries += 1;
        // register restricted to one account = the sub-list of the full register
        for acc in ["P", "p", "Q", "R", "Nope"] {
            let sub = l.postings(ctx, &PostingQuery { account: Some(acc.to_string()) });
            let want: Vec<&(String, QMap)> = reg_list.iter().filter(|(a, _)| a == acc).collect();
            *queries += 1;
            if sub.len() != want.len() || sub.iter().zip(&want).any(|(p, w)| oka::amount_to_qmap(&p.amount) != w.1) {
                return Err(Outcome::violation("register-of-one-account-differs-from-full-register", format!("account {}", acc)));
            }
        }
        // register vs reference postings
        if reg_list.len() != ref_postings.len() || reg_list.iter().zip(&ref_postings).any(|(g, w)| g.0 != w.1 || oka::clean_balances(&[(String::new(), g.1.clone())].into_iter().collect()) != oka::clean_balances(&[(String::new(), w.2.clone())].into_iter().collect())) {
            return Err(Outcome::violation("register-differs-from-reference-postings", format!("register {:?}\nreference {:?}", reg_list, ref_postings)));
        }
        let mut table: BTreeMap<(usize, usize), Balances> = BTreeMap::new();
        let single_x = !text.contains(" Y");
        for (si, s) in bs.iter().enumerate() {
            for (ei, e) in bs.iter().enumerate() {
                let q = BalanceQuery { conversion: None, date_range: DateRange { start: s.map(day), end: e.map(day) } };
                *queries += 1;
                let got = match l.balance(ctx, &q) {
                    Ok(b) => oka::balance_to_map(&b),
                    Err(e) => return Err(Outcome::violation("balance-query-failed", format!("range {:?}..{:?}: {}", s, e, e))),
                };
                // a ledger that only ever mentions X, reported "in X" (the identity conversion, up to date or historical):
                // the same sum over the same range
                if single_x {
                    if let Some(tc) = ctx.commodity("X") {
                        for strategy in [ConversionStrategy::UpToDate { now: day(D3 + 5) }, ConversionStrategy::Historical] {
                            *queries += 1;
                            let hist = strategy == ConversionStrategy::Historical;
                            let qx = BalanceQuery { conversion: Some(Conversion { strategy, target: tc }), date_range: DateRange { start: s.map(day), end: e.map(day) } };
                            match l.balance(ctx, &qx) {
                                Ok(b) => {
                                    let gx = oka::balance_to_map(&b);
                                    let same = {
                                        let (a, b) = (oka::clean_balances(&gx), oka::clean_balances(&got));
                                        a.keys().chain(b.keys()).all(|k| agrees(&b.get(k).cloned().unwrap_or_default(), &a.get(k).cloned().unwrap_or_default(), prec) || agrees(&a.get(k).cloned().unwrap_or_default(), &b.get(k).cloned().unwrap_or_default(), prec))
                                    };
                                    if !same {
                                        return Err(Outcome::violation(format!("date-range-balance-in-its-own-commodity-differs/{}", if hist { "historical" } else { "up-to-date" }), format!("range {:?}..{:?}: balance -X X {:?}\nplain balance of the same range {:?}", s, e, gx, got)));
                                    }
                                }
                                Err(er) => return Err(Outcome::violation("date-range-balance-in-its-own-commodity-failed", format!("range {:?}..{:?}: {}", s, e, er))),
                            }
                        }
                    }
                }
                table.insert((si, ei), got);
            }
        }
        Ok((reg, table))
    });
    let (reg, table) = match r {
        Ok(x) => x,
        Err(o) => return o,
    };
    let whole = &table[&(0, 0)];
    // (i) whole-history balance = sum of the register (exactly)
    if oka::clean_balances(whole) != oka::clean_balances(&reg) {
        return Outcome::violation("balance-differs-from-register-sum", format!("balance {:?}\nregister sums {:?}", whole, reg));
    }
    for (si, s) in bs.iter().enumerate() {
        for (ei, e) in bs.iter().enumerate() {
            let got = &table[&(si, ei)];
            let exact = ref_sum(*s, *e);
            // (ii) = sum over transactions dated in [start, end), up to rounding
            let accts: std::collections::BTreeSet<&String> = got.keys().chain(exact.keys()).collect();
            for acc in accts {
                let g = got.get(acc).cloned().unwrap_or_default();
                let mut x = exact.get(acc).cloned().unwrap_or_default();
                qmap_clean(&mut x);
                let mut gc = g.clone();
                qmap_clean(&mut gc);
                if !agrees(&x, &gc, prec) {
                    let kind = if s.is_none() && e.is_none() { "whole-history" } else { "date-range" };
                    return Outcome::violation(format!("{}-balance-differs-from-sum-of-postings-in-range", kind), format!("range {:?}..{:?} account {}: balance {} but postings dated in range sum to {}", s, e, acc, qmap_show(&gc), qmap_show(&x)));
                }
            }
            // (v) never shows a commodity whose exact total is zero
            for (acc, m) in got {
                for (c, v) in m {
                    let ex = exact.get(acc).and_then(|x| x.get(c)).copied().unwrap_or(Q::ZERO);
                    if ex.is_zero() {
                        return Outcome::violation("shows-commodity-with-zero-total", format!("range {:?}..{:?}: account {} shows {} {} although its total there is exactly zero", s, e, acc, v, c));
                    }
                }
            }
        }
    }
    // (iii) additivity over adjacent ranges, for every split point
    for (si, s) in bs.iter().enumerate() {
        for (ei, e) in bs.iter().enumerate() {
            for (mi, m) in bs.iter().enumerate() {
                let (Some(mv), true) = (m, true) else { continue };
                if s.map(|s| *mv < s).unwrap_or(false) || e.map(|e| *mv > e).unwrap_or(false) {
                    continue;
                }
                let left = &table[&(si, mi)];
                let right = &table[&(mi, ei)];
                let total = &table[&(si, ei)];
                let sum = sum_maps(left, right);
                let accts: std::collections::BTreeSet<&String> = sum.keys().chain(total.keys()).collect();
                for acc in accts {
                    let a = sum.get(acc).cloned().unwrap_or_default();
                    let b = total.get(acc).cloned().unwrap_or_default();
                    let keys: std::collections::BTreeSet<&String> = a.keys().chain(b.keys()).collect();
                    for k in keys {
                        let av = a.get(k).copied().unwrap_or(Q::ZERO);
                        let bv = b.get(k).copied().unwrap_or(Q::ZERO);
                        let tol = match prec.get(k.as_str()) {
                            None => Q::ZERO,
                            Some(dp) => Q::new(1, 10i128.pow(*dp)),
                        };
                        if av.sub(bv).abs().cmp(&tol) == std::cmp::Ordering::Greater {
                            return Outcome::violation("adjacent-ranges-do-not-add-up", format!("[{:?},{:?}) + [{:?},{:?}) = {} {} but [{:?},{:?}) = {} {} (account {})", s, m, m, e, av, k, s, e, bv, k, acc));
                        }
                    }
                }
            }
        }
    }
    // (vi) the same through the CLI on real files
    if with_cli {
        if let Some(o) = cli_pass(text, whole, queries) {
            return o;
        }
    }
    Outcome::pass(format!("ok/txns{}/prec{}{}", seq.len(), prec.len(), if with_cli { "/cli" } else { "" }))
}

fn run_cli(args: &[&str]) -> Result<String, String> {
    use clap::Parser as _;
    let cli = okane::cmd::Cli::try_parse_from(args).map_err(|e| format!("clap: {}", e))?;
    let mut out: Vec<u8> = vec![];
    cli.run(&mut out).map_err(|e| format!("{}", e))?;
    Ok(String::from_utf8_lossy(&out).to_string())
}

fn cli_pass(text: &str, whole: &Balances, queries: &mut u64) -> Option<Outcome> {
    let dir = oka::scratch_dir("c04");
    let path = dir.join("main.ledger");
    std::fs::write(&path, text).expect("write ledger");
    let p = path.to_string_lossy().to_string();
    *queries += 2;
    let bal = match run_cli(&["okane", "balance", &p]) {
        Ok(s) => s,
        Err(e) => return Some(Outcome::violation("cli-balance-failed", e)),
    };
    // "Account: amount" lines
    let mut cli_bal = Balances::new();
    for line in bal.lines() {
        let (acc, amt) = line.rsplit_once(": ")?;
        let m = super::bk::parse_inline_amount(amt)?;
        cli_bal.insert(acc.to_string(), m);
    }
    if oka::clean_balances(&cli_bal) != oka::clean_balances(whole) {
        return Some(Outcome::violation("cli-balance-differs-from-api-balance", format!("cli:\n{}\napi: {:?}", bal, whole)));
    }
    // the same range given on the command line and to the library must give the same report - also when the range is
    // empty or inverted (--end before --start selects nothing)
    let some_bounds: Vec<u32> = bounds().into_iter().flatten().collect();
    for s in &some_bounds {
        for e in &some_bounds {
            *queries += 1;
            let (ss, es) = (day(*s).format("%Y-%m-%d").to_string(), day(*e).format("%Y-%m-%d").to_string());
            let out = match run_cli(&["okane", "balance", "--start", &ss, "--end", &es, &p]) {
                Ok(o) => o,
                Err(er) => return Some(Outcome::violation("cli-range-balance-failed", format!("--start {} --end {}: {}", ss, es, er))),
            };
            let mut cli_bal = Balances::new();
            for line in out.lines() {
                let (acc, amt) = line.rsplit_once(": ")?;
                cli_bal.insert(acc.to_string(), super::bk::parse_inline_amount(amt)?);
            }
            let api: Balances = oka::with_ledger(&[(oka::ROOT, text)], oka::ROOT, None, |r| {
                let (l, c) = r.expect("accepted by construction");
                let q = BalanceQuery { conversion: None, date_range: DateRange { start: Some(day(*s)), end: Some(day(*e)) } };
                oka::balance_to_map(&l.balance(c, &q).expect("range balance"))
            });
            if oka::clean_balances(&cli_bal) != oka::clean_balances(&api) {
                return Some(Outcome::violation(
                    format!("cli-range-balance-differs-from-library/{}", if s > e { "inverted-range" } else if s == e { "empty-range" } else { "proper-range" }),
                    format!("okane balance --start {} --end {}\ncli:\n{}\nlibrary: {:?}", ss, es, out, oka::clean_balances(&api)),
                ));
            }
        }
    }
    // every spelling of a bound that `okane balance --help` shows (`--start` and its visible alias `--begin`, `--end`), one
    // bound at a time: the same report as the library gives for that half-open range
    for b in &some_bounds {
        let bs = day(*b).format("%Y-%m-%d").to_string();
        for (flag, is_start) in [("--start", true), ("--begin", true), ("--end", false)] {
            *queries += 1;
            let out = match run_cli(&["okane", "balance", flag, &bs, &p]) {
                Ok(o) => o,
                Err(er) => return Some(Outcome::violation(format!("cli-range-balance-failed/{}", flag), format!("{} {}: {}", flag, bs, er))),
            };
            let mut cli_bal = Balances::new();
            for line in out.lines() {
                let (acc, amt) = line.rsplit_once(": ")?;
                cli_bal.insert(acc.to_string(), super::bk::parse_inline_amount(amt)?);
            }
            let api: Balances = oka::with_ledger(&[(oka::ROOT, text)], oka::ROOT, None, |r| {
                let (l, c) = r.expect("accepted by construction");
                let dr = if is_start { DateRange { start: Some(day(*b)), end: None } } else { DateRange { start: None, end: Some(day(*b)) } };
                oka::balance_to_map(&l.balance(c, &BalanceQuery { conversion: None, date_range: dr }).expect("range balance"))
            });
            if oka::clean_balances(&cli_bal) != oka::clean_balances(&api) {
                return Some(Outcome::violation(format!("cli-one-bound-balance-differs-from-library/{}", flag), format!("okane balance {} {}\ncli:\n{}\nlibrary: {:?}", flag, bs, out, oka::clean_balances(&api))));
            }
        }
    }
    for acc in ["P", "p", "Q", "R"] {
        *queries += 1;
        let reg = match run_cli(&["okane", "register", &p, acc]) {
            Ok(s) => s,
            Err(e) => return Some(Outcome::violation("cli-register-failed", e)),
        };
        // "<account> <amount> <running total>"; the running total of the last line is the account's balance
        let last = reg.lines().last();
        let want = oka::clean_balances(whole).get(acc).cloned().unwrap_or_default();
        match last {
            None => {
                if !want.is_empty() && whole.contains_key(acc) {
                    return Some(Outcome::violation("cli-register-empty-for-account-with-balance", format!("account {} balance {}", acc, qmap_show(&want))));
                }
            }
            Some(l) => {
                let rest = l.strip_prefix(acc).map(|x| x.trim_start()).unwrap_or(l);
                // the running total is the last inline amount on the line: either "(...)" or the last two tokens, or "0"
                let total_txt = if rest.ends_with(')') {
                    &rest[rest.rfind('(').unwrap_or(0)..]
                } else if rest.ends_with(" 0") || rest == "0" {
                    "0"
                } else {
                    let mut it = rest.rsplitn(3, ' ');
                    let c = it.next().unwrap_or("");
                    let v = it.next().unwrap_or("");
                    let start = rest.len() - c.len() - v.len() - 1;
                    &rest[start..]
                };
                let got = super::bk::parse_inline_amount(total_txt).unwrap_or_default();
                let mut gc = got.clone();
                qmap_clean(&mut gc);
                if gc != want {
                    return Some(Outcome::violation("register-final-running-total-differs-from-balance", format!("account {}: register ends with {:?} ({}), balance is {}\n{}", acc, total_txt, qmap_show(&gc), qmap_show(&want), reg)));
                }
            }
        }
    }
    None
}

fn run(ctx: &mut Ctx) {
    let alpha = alphabet();
    let precs: Vec<Prec> = vec![Prec::new(), [("X", 2u32)].into_iter().collect()];
    let maxlen = ctx.tier.pick(4usize, 5usize);
    let n = alpha.len();
    let mut counter = 0u64;
    for prec in &precs {
        for len in 1..=maxlen {
            let total = (n as u64).pow(len as u32);
            for k in 0..total {
                counter += 1;
                if !ctx.next_is_mine() {
                    ctx.skip_cases(1);
                    continue;
                }
                let mut idx = vec![];
                let mut x = k;
                for _ in 0..len {
                    idx.push((x % n as u64) as usize);
                    x /= n as u64;
                }
                let seq: Vec<&T> = idx.iter().map(|i| &alpha[*i]).collect();
                let text = render(prec, &seq);
                let with_cli = counter % 37 == 0;
                let mut q = 0u64;
                ctx.case(|| text.clone(), || judge(prec, &seq, &text, with_cli, &mut q));
                ctx.count("transitions", q);
                ctx.count("validated", q);
                ctx.count("states", 1);
            }
        }
    }
    // other calendars: the same ledgers of <= 2 transactions with day d standing for BASE + (d - 1) days, so that the
    // bounds {d1-1, d1, d2, d3, d3+1} fall around 1 January 1970 (day 21), around 29 February 2024, around a year
    // boundary, and in 1899/1900. Every bound pair, additivity, register and (for a slice) the command line as before.
    for (cal, base) in [("epoch", (1969, 12, 12)), ("leap-day", (2024, 2, 9)), ("year-boundary", (2023, 12, 12)), ("1899", (1899, 12, 12))] {
        for prec in &precs {
            for len in 1..=2usize {
                let total = (n as u64).pow(len as u32);
                for k in 0..total {
                    counter += 1;
                    if !ctx.next_is_mine() {
                        ctx.skip_cases(1);
                        continue;
                    }
                    let mut idx = vec![];
                    let mut x = k;
                    for _ in 0..len {
                        idx.push((x % n as u64) as usize);
                        x /= n as u64;
                    }
                    let seq: Vec<&T> = idx.iter().map(|i| &alpha[*i]).collect();
                    BASE.with(|b| b.set(base));
                    let text = render(prec, &seq);
                    let with_cli = counter % 7 == 0;
                    let mut q = 0u64;
                    ctx.case(
                        || format!("[calendar {}]\n{}", cal, text),
                        || {
                            BASE.with(|b| b.set(base));
                            let o = judge(prec, &seq, &text, with_cli, &mut q);
                            BASE.with(|b| b.set((2024, 1, 1)));
                            match o.verdict {
                                crate::fw::Verdict::Pass => Outcome::pass(format!("calendar-{}/{}", cal, o.class)),
                                crate::fw::Verdict::Violation { sig, detail } => Outcome::violation(format!("{}/calendar-{}", sig, cal), detail),
                                _ => o,
                            }
                        },
                    );
                    BASE.with(|b| b.set((2024, 1, 1)));
                    ctx.count("transitions", q);
                    ctx.count("validated", q);
                    ctx.count("states", 1);
                }
            }
        }
    }
}
