//! C15 — import emits ledger text that reads back as intended.
//!
//! Bounded-exhaustive enumeration of statement records for the three importers (CSV, ISO Camt053 XML,
//! Viseca text). A statement record is a vector of fields; every field has a small alphabet whose first
//! element is the *plain* value. The space is ALL records of every shape with at most d non-plain fields
//! (d = 2 quick, 3 thorough) x the commodity-precision configuration {none, 2, 4}.
//!
//! Oracle: `tree` = the `syntax::plain::Transaction`s built by `okane::import::import` +
//! `Txn::to_double_entry` (same calls, same files as `ImportCmd::run`), `text` = what the real
//! `ImportCmd::run` prints for the same scratch files. `parse_ledger(text)` must succeed, contain exactly
//! one transaction per tree transaction (and nothing else), and every re-read transaction must equal
//! its tree field by field (numbers by value; the scale must be max(tree scale, configured precision)).
//! For the shapes with a simple sign rule the built numbers are also compared with an independent exact
//! reading (crate::q::Q) of the statement cells (`statement-value-differs-*`).
//! State carried from one record to the next is caught by two metamorphic clauses: the plain anchor record must be
//! imported and printed identically whatever the other record is (`anchor-record-depends-on-other-record-*`, both
//! file orders), and date-less CSV rows must not change the number of transactions (`record-count`).
//! The dates of every record (all shapes; Camt053 entries booked with one TxDtls, as a whole, as a batch, with and
//! without ValDt) are compared with the statement's (`statement-date-differs`), and for csv-multi the conversion the
//! configuration asks for (rule over account-wide, `disabled`) with the one applied (`conversion-*`).
//!
//! Violation signatures are `<clause>/<cause>`: the clause is the first symptom (reparse-fails,
//! extra-transaction, extra-posting, reread-differs-<tree field>, ...), the cause is the smallest
//! sub-set of the non-plain fields (and precision) of the case that still violates, written as `<tree role>:<kind>`
//! (e.g. `reread-differs-payee/payee:semicolon`). A violation of the all-plain record has cause `baseline`.

use std::cell::RefCell;
use std::collections::HashMap;
use std::path::PathBuf;

use okane::import::{self, Format};
use okane_core::parse::{parse_ledger, ParseOptions};
use okane_core::syntax::{self, expr, plain};

use crate::fw::{CheckDef, Ctx, Outcome};
use crate::q::Q;
use chrono::{Datelike, NaiveDate};
use crate::oka;

pub const DEF: CheckDef = CheckDef {
    id: "C15",
    run,
    technique: "bounded-exhaustive enumeration of statement records (field alphabets, all records with <= d non-plain fields) for the CSV, Camt053 and Viseca importers; differential oracle: importer-built syntax tree versus okane's own parser applied to the text printed by the real ImportCmd::run; violating cases are reduced to their smallest violating sub-set of non-plain fields, which names the signature",
    rule: "case = (shape, precision, record). 15 shapes: csv-basic (index columns, liability, code+payee split by a rewrite rule, note, commodity column, balance), csv-credit-debit (label columns, tab delimiter, a 50-column account name so that the amount column overflows), csv-multi (rate, secondary amount/commodity, charge, account-wide conversion: 4 modes, disabled, disabled with other modes, key left out; conversion of the matching rewrite rule: none, 4 modes, disabled, disabled with other modes, commodity override), csv-template (payee = '{category} - {note}', new_to_old), camt-<source> for the 7 text elements a rewrite rule can copy into the payee (creditor, debtor, ultimate creditor/debtor name, remittance info, additional transaction/entry info) each with AcctSvcrRef as code and booking date != value date, camt-entry-only (no TxDtls), camt-numeric (amounts, currency, TxAmt+CcyXchg, charges, opening/closing balance), viseca-basic, viseca-fx. Text alphabet (21): plain, semicolon, lparen, rparen, star, bang, digit-date, double-space, tab, leading-blank, trailing-blank, newline, newline-indent (an indented posting line), newline-date (a dated header line), cr, word-tag, key-value, cjk, empty, equals-at, long. Numeric alphabet: plain, 1,234.50, -0.5, CHF 12.00, $1.46, .02, 0, 12.345, and absent/present for optional columns (Viseca: plain, 1'234.50, .02, 0, 5, 1.2.3, 12.345). Commodity alphabet: plain, empty, $, 'US D', BRK.B, 'A;B'. CSV amount/credit/debit/balance cells of csv-basic and csv-credit-debit additionally take the sign placements -$12.50, $-12.50, $-1,234.50, USD -20, -USD 20, -20 USD and are compared with an independent exact reading of the cell (sign rule of the shape applied). The configured operator of the charge-printing shapes (csv-multi, csv-template, camt-entry-only, camt-numeric, viseca-fx) takes plain, trailing newline, blank-padded, inner double blank, ';', inner newline. Every statement carries the tested record followed by one plain anchor record. Precision of CHF/USD/EUR/VYM in {none,2,4}. ALL records with <= 2 (quick) / <= 3 (thorough) non-plain fields. The four CSV shapes also carry a row choice: a date-less row (all cells empty but the payee) before / between / after the two records, which must not change the number of transactions. Anchor independence: the transaction (tree and printed text) of the plain anchor record must be identical to the one of the statement whose tested record is all plain (same configuration and statement-level fields); every record with one non-plain field less is also run with the file order of the two records swapped. Text fields also take Unicode white space at either end (U+3000 before / after, U+00A0 after, a note line made of U+00A0); the operator also U+3000/U+00A0 padding. Multi-statement family: Camt053 documents with 0..=3 Stmt elements and 0..=4 (thorough 5) plain entries distributed over the statements in every way x with/without opening balances x precision {none,2}: one transaction per entry (plus one per non-empty statement with an opening balance) in document order (record-count, record-sequence) and the usual round trip; documents okane rejects (no Stmt, a Stmt without Ntry) are DON'T-CARE. Amount-bearing cells also take the zero spellings 0.00, -0.00, -0 (Viseca 0.00). Secondary-amount reference: in csv-multi (extract, no charge), csv-template (no fees), camt-numeric (unsigned Amt, TxAmt, no charges) and viseca-fx the posting in the secondary commodity must be +|secondary| when the statement account is debited (minus sign in the amount cell, also on a zero / DBIT / purchase line) and -|secondary| otherwise. Date family: record dates on every day 25 Dec..7 Jan over 8 year boundaries (2018/19..2025/26, every week-day position of 1 January), 28/29 Feb, 1 Mar of 2020/2023/2024, CSV, and Camt053 / Viseca with an effective date 0/1/3/7 days later: built dates = statement dates (statement-date-differs) and the usual round trip; the Camt053 dates for every way an entry is booked (one TxDtls, no NtryDtls = booked as a whole, a batch of two TxDtls) and also without ValDt (the booking date is then the record's only date). Every record case of every shape also carries the dates of both its records as a reference. Camt053 reference family: booking / value dates as DtTm with offsets -12:00..+14:00 (and +05:30, +05:45, -03:30) at 00:00, 00:30, 12:00, 23:30 (the record's date is the calendar date at the statement's own offset; on an entry with one TxDtls and on an entry booked as a whole), and batch entries (DBIT / CRDT) with 1..=3 TxDtls carrying every combination of own indicators (each detail's own indicator decides its sign). Conversion reference (csv-multi): the conversion of a row is the one of the matching rule when it has one, else the account-wide one; when that one is disabled every posting of the record is in the commodity of the amount cell without a rate and mirrors the amount cell (conversion-disabled-but-converted), when it is enabled and the row gives rate, secondary amount and commodity a posting in the secondary commodity exists (conversion-configured-but-not-converted); an enabled rule conversion under a disabled account-wide one and rows lacking a cell are not judged. Conversion-configuration product: every combination of account-wide conversion (7) x rule conversion (8) x rate / secondary amount / secondary commodity cell filled or empty x charge x amount sign x precision {none,2} (3584 cases). Plus the layout-boundary family: for one CSV, one Camt053 and one Viseca shape the configured account and the rewrite (counter) account (cleared and pending) take every display width 1..=64 (ASCII; CSV also names with wide CJK characters; thorough: full 64x64 product for CSV) x 4-5 amount spellings of different printed widths and both signs x precision {none,2,4} x with/without running balance. states = statements imported (incl. minimisation re-runs), transitions = transactions compared field by field",
    assumptions: &[
        "the tree is built in the harness by the same public calls as ImportCmd::run (load_from_yaml, ConfigSet::select, import::import, Txn::to_double_entry) on the same scratch files, reading the file as UTF-8 bytes without encoding_rs_io (identical for the BOM-less UTF-8 statements generated here)",
        "text that the importer trims / splits / rejects before building the tree is not judged (tree vs re-read text only); records the importer rejects are DON'T-CARE",
        "account names and rewrite rules come from the configuration and are plain (account names of every width in the layout family); the configured operator is part of the alphabet for the shapes that print charges",
        "value reference: csv-basic (liability: amount column negated, counter posting opposite, balance as written) and csv-credit-debit (exactly one of credit/debit filled in) only; a cell is negative iff exactly one minus stands before its first digit; cells outside that reading, other shapes and statements okane rejects are not value-judged",
        "scale clause: re-read scale must equal max(tree scale, configured precision of that commodity)",
        "which conversion a CSV row gets is read from okane's configuration documentation (rule over account-wide default; `disabled` = no conversion): the property statement itself only says 'under all importer configurations'",
    ],
    shards: 64,
    hang_s: 30,
    single_worker: false,
};

// ------------------------------------------------------------------------------------------------
// Alphabets

#[derive(Clone, Debug)]
struct Alt {
    label: &'static str,
    /// None = the column / element is absent (or the cell is empty for optional CSV numerics).
    value: Option<String>,
}

#[derive(Clone, Debug)]
struct Field {
    name: &'static str,
    /// tree field(s) this statement field flows into (used in signatures)
    role: &'static str,
    /// alts[0] is the plain value
    alts: Vec<Alt>,
}

const TEXT_KINDS: &[(&str, &str)] = &[
    ("semicolon", "Shop; with semi"),
    ("lparen", "(paren) start"),
    ("rparen", "in)side"),
    ("star", "* starred"),
    ("bang", "! banged"),
    ("digit-date", "2024/02/03 dated"),
    ("double-space", "Dbl  space"),
    ("tab", "Tab\tbed"),
    ("leading-blank", "  lead"),
    ("trailing-blank", "trail  "),
    ("newline", "Line1\nLine2"),
    ("newline-indent", "Inj\n    Injected  1 CHF"),
    ("newline-date", "Inj\n2024/02/03 second"),
    ("cr", "Car\rriage"),
    ("word-tag", ":tag:"),
    ("key-value", "key: value"),
    ("cjk", "山田商店　東京"),
    ("empty", ""),
    ("equals-at", "x = 1 @ y"),
    ("long", "A rather long description that goes well beyond the forty-eight columns of the amount column"),
    // Unicode white space at either end (U+3000 IDEOGRAPHIC SPACE, U+00A0 NO-BREAK SPACE), and a line made of it
    ("leading-wide-blank", "\u{3000}lead"),
    ("trailing-wide-blank", "trail\u{3000}\u{3000}"),
    ("trailing-nbsp", "trail\u{a0}"),
    ("nbsp-line", "memo\n\u{a0}"),
];

const NUM_KINDS: &[(&str, &str)] = &[
    ("comma-grouped", "1,234.50"),
    ("negative", "-0.5"),
    ("prefix-commodity", "CHF 12.00"),
    ("dollar", "$1.46"),
    ("no-int-digit", ".02"),
    ("zero", "0"),
    ("scale3", "12.345"),
];

const VNUM_KINDS: &[(&str, &str)] = &[
    ("apostrophe-grouped", "1'234.50"),
    ("no-int-digit", ".02"),
    ("zero", "0"),
    ("integer", "5"),
    ("two-points", "1.2.3"),
    ("scale3", "12.345"),
];

/// where the minus sign of a cell with a commodity sits (CSV cells only; appended to the numeric alphabet)
const SIGN_KINDS: &[(&str, &str)] = &[
    ("minus-symbol", "-$12.50"),
    ("symbol-minus", "$-12.50"),
    ("symbol-minus-grouped", "$-1,234.50"),
    ("code-minus", "USD -20"),
    ("minus-code", "-USD 20"),
    ("minus-suffix-code", "-20 USD"),
];

/// spellings of zero (with and without a minus sign) for the amount-bearing cells
const ZERO_KINDS: &[(&str, &str)] = &[("zero-scale2", "0.00"), ("negative-zero", "-0.00"), ("negative-zero-int", "-0")];
/// Viseca numbers carry no sign of their own (the line ends with ` -` for a refund)
const VZERO_KINDS: &[(&str, &str)] = &[("zero-scale2", "0.00")];

/// spellings of the configured `operator` (printed as the `Payee` tag of charge postings)
const OPERATOR_KINDS: &[(&str, &str)] = &[
    ("trailing-newline", "Okane Bank (fee)\n"),
    ("blank-padded", "  Okane Bank (fee) "),
    ("double-blank", "Okane  Bank (fee)"),
    ("semicolon", "Okane Bank; fees"),
    ("inner-newline", "Okane Bank\n(fee)"),
    ("wide-blank-padded", "\u{3000}Okane Bank (fee)\u{a0}"),
];

const COMMODITY_KINDS: &[(&str, &str)] = &[("empty", ""), ("symbol", "$"), ("space", "US D"), ("dot", "BRK.B"), ("semicolon", "A;B")];

fn alt(label: &'static str, v: &str) -> Alt {
    Alt { label, value: Some(v.to_string()) }
}
fn absent(label: &'static str) -> Alt {
    Alt { label, value: None }
}
fn kinds(k: &[(&'static str, &'static str)]) -> Vec<Alt> {
    k.iter().map(|(l, v)| alt(l, v)).collect()
}
/// text field, always present, plain default
fn text(name: &'static str, role: &'static str, plain: &str) -> Field {
    let mut alts = vec![alt("plain", plain)];
    alts.extend(kinds(TEXT_KINDS));
    Field { name, role, alts }
}
/// text field, absent by default
fn opt_text(name: &'static str, role: &'static str, present: &str) -> Field {
    let mut alts = vec![absent("absent"), alt("present", present)];
    alts.extend(kinds(TEXT_KINDS));
    Field { name, role, alts }
}
/// text field, present by default, may be absent
fn text_or_absent(name: &'static str, role: &'static str, plain: &str) -> Field {
    let mut alts = vec![alt("plain", plain), absent("absent")];
    alts.extend(kinds(TEXT_KINDS));
    Field { name, role, alts }
}
fn num(name: &'static str, role: &'static str, plain: &str, k: &[(&'static str, &'static str)]) -> Field {
    let mut alts = vec![alt("plain", plain)];
    alts.extend(kinds(k));
    Field { name, role, alts }
}
/// numeric field absent by default
fn opt_num(name: &'static str, role: &'static str, present: &str, k: &[(&'static str, &'static str)]) -> Field {
    let mut alts = vec![absent("absent"), alt("present", present)];
    alts.extend(kinds(k));
    Field { name, role, alts }
}
/// numeric field present by default, may be absent
fn num_or_absent(name: &'static str, role: &'static str, plain: &str, k: &[(&'static str, &'static str)]) -> Field {
    let mut alts = vec![alt("plain", plain), absent("absent")];
    alts.extend(kinds(k));
    Field { name, role, alts }
}
/// the configured operator: plain by default
fn operator(plain: &str) -> Field {
    let mut alts = vec![alt("plain", plain)];
    alts.extend(kinds(OPERATOR_KINDS));
    Field { name: "operator", role: "charge-payee", alts }
}
/// appends the sign-placement spellings to a numeric field
fn signed(mut f: Field) -> Field {
    f.alts.extend(kinds(SIGN_KINDS));
    f
}
/// appends the zero spellings to an amount-bearing field
fn zeros(mut f: Field) -> Field {
    f.alts.extend(kinds(ZERO_KINDS));
    f
}
fn vzeros(mut f: Field) -> Field {
    f.alts.extend(kinds(VZERO_KINDS));
    f
}
fn commodity(name: &'static str, role: &'static str, plain: &str) -> Field {
    let mut alts = vec![alt("plain", plain)];
    alts.extend(kinds(COMMODITY_KINDS));
    Field { name, role, alts }
}
fn choice(name: &'static str, role: &'static str, opts: &[(&'static str, &'static str)]) -> Field {
    Field { name, role, alts: kinds(opts) }
}

// ------------------------------------------------------------------------------------------------
// Shapes

#[derive(Clone, Copy, Debug, PartialEq, Eq, Hash)]
enum Kind {
    CsvBasic,
    CsvCreditDebit,
    CsvMulti,
    CsvTemplate,
    /// index into CAMT_SOURCES
    CamtText(usize),
    CamtEntryOnly,
    CamtNum,
    VisecaBasic,
    VisecaFx,
}

struct Shape {
    name: String,
    kind: Kind,
    fields: Vec<Field>,
}

/// (element label, rewrite field key)
const CAMT_SOURCES: &[(&str, &str)] = &[
    ("Cdtr.Nm", "creditor_name"),
    ("Dbtr.Nm", "debtor_name"),
    ("UltmtCdtr.Nm", "ultimate_creditor_name"),
    ("UltmtDbtr.Nm", "ultimate_debtor_name"),
    ("RmtInf.Ustrd", "remittance_unstructured_info"),
    ("AddtlTxInf", "additional_transaction_info"),
    ("AddtlNtryInf", "additional_entry_info"),
];

fn shapes() -> Vec<Shape> {
    let mut v = vec![];
    v.push(Shape {
        name: "csv-basic".into(),
        kind: Kind::CsvBasic,
        fields: vec![
            text("payee", "payee", "Coffee Shop"),
            opt_text("code", "code", "785403"),
            text("note", "comment", "memo one"),
            commodity("commodity", "commodity", "CHF"),
            zeros(signed(num("amount", "amount", "5", NUM_KINDS))),
            zeros(signed(opt_num("balance", "balance", "100", NUM_KINDS))),
            choice("dateless-row", "row", &[("none", ""), ("dateless-before", "before"), ("dateless-between", "between"), ("dateless-after", "after")]),
        ],
    });
    v.push(Shape {
        name: "csv-credit-debit".into(),
        kind: Kind::CsvCreditDebit,
        fields: vec![
            zeros(signed(opt_num("credit", "amount", "5", NUM_KINDS))),
            zeros(signed(num_or_absent("debit", "amount", "5", NUM_KINDS))),
            zeros(signed(num_or_absent("balance", "balance", "100", NUM_KINDS))),
            choice("dateless-row", "row", &[("none", ""), ("dateless-before", "before"), ("dateless-between", "between"), ("dateless-after", "after")]),
        ],
    });
    v.push(Shape {
        name: "csv-multi".into(),
        kind: Kind::CsvMulti,
        fields: vec![
            commodity("commodity", "commodity", "USD"),
            commodity("secondary_commodity", "commodity", "JPY"),
            zeros(num("amount", "amount", "5", NUM_KINDS)),
            num_or_absent("rate", "rate", "2", NUM_KINDS),
            zeros(num_or_absent("secondary_amount", "amount", "10", NUM_KINDS)),
            zeros(opt_num("charge", "charge", "1.5", NUM_KINDS)),
            choice(
                "conversion",
                "config",
                &[
                    ("extract/price_of_secondary", "extract price_of_secondary"),
                    ("compute/price_of_secondary", "compute price_of_secondary"),
                    ("extract/price_of_primary", "extract price_of_primary"),
                    ("compute/price_of_primary", "compute price_of_primary"),
                    ("disabled", "extract price_of_secondary disabled"),
                    ("disabled-compute/price_of_primary", "compute price_of_primary disabled"),
                    ("unspecified", ""),
                ],
            ),
            operator("Okane Bank (commission)"),
            choice("dateless-row", "row", &[("none", ""), ("dateless-before", "before"), ("dateless-between", "between"), ("dateless-after", "after")]),
            // the `conversion` of the rewrite rule that matches the tested record
            choice(
                "rule-conversion",
                "rule-config",
                &[
                    ("none", ""),
                    ("extract/price_of_secondary", "extract price_of_secondary"),
                    ("compute/price_of_secondary", "compute price_of_secondary"),
                    ("extract/price_of_primary", "extract price_of_primary"),
                    ("compute/price_of_primary", "compute price_of_primary"),
                    ("disabled", "extract price_of_secondary disabled"),
                    ("disabled-compute/price_of_primary", "compute price_of_primary disabled"),
                    ("commodity-override", "extract price_of_secondary commodity=EUR"),
                ],
            ),
        ],
    });
    v.push(Shape {
        name: "csv-template".into(),
        kind: Kind::CsvTemplate,
        fields: vec![
            text("category", "payee", "Buy"),
            text("description", "payee", "VANGUARD ETF"),
            commodity("symbol", "commodity", "VYM"),
            zeros(num_or_absent("quantity", "amount", "2", NUM_KINDS)),
            num_or_absent("price", "rate", "60.5", NUM_KINDS),
            zeros(opt_num("fees", "charge", "0.5", NUM_KINDS)),
            zeros(num("amount", "amount", "-121.5", NUM_KINDS)),
            operator("Broker Schrank"),
            choice("dateless-row", "row", &[("none", ""), ("dateless-before", "before"), ("dateless-between", "between"), ("dateless-after", "after")]),
        ],
    });
    for (i, (label, _)) in CAMT_SOURCES.iter().enumerate() {
        if *label == "AddtlNtryInf" {
            continue;
        }
        v.push(Shape { name: format!("camt-{}", label), kind: Kind::CamtText(i), fields: vec![text_or_absent("AcctSvcrRef", "code", "20211031/1/1"), text("source", "payee", "Yamada Shop")] });
    }
    // AddtlNtryInf: with TxDtls (code present) and entry-only (no TxDtls, hence no code)
    v.push(Shape { name: "camt-AddtlNtryInf".into(), kind: Kind::CamtText(6), fields: vec![text_or_absent("AcctSvcrRef", "code", "20211031/1/1"), text("source", "payee", "Yamada Shop")] });
    v.push(Shape { name: "camt-entry-only".into(), kind: Kind::CamtEntryOnly, fields: vec![text("source", "payee", "Yamada Shop"), zeros(num("amount", "amount", "5", NUM_KINDS)), zeros(opt_num("charge", "charge", "1.5", NUM_KINDS)), operator("Okane Bank (fee)")] });
    v.push(Shape {
        name: "camt-numeric".into(),
        kind: Kind::CamtNum,
        fields: vec![
            zeros(num("amount", "amount", "5", NUM_KINDS)),
            commodity("Ccy", "commodity", "CHF"),
            choice("CdtDbtInd", "amount", &[("debit", "DBIT"), ("credit", "CRDT")]),
            zeros(opt_num("TxAmt", "amount", "4.5", NUM_KINDS)),
            num_or_absent("XchgRate", "rate", "1.1", NUM_KINDS),
            zeros(opt_num("charge-included", "charge", "1.5", NUM_KINDS)),
            zeros(opt_num("charge-not-included", "charge", "1.5", NUM_KINDS)),
            num_or_absent("opening-balance", "balance", "100", NUM_KINDS),
            num_or_absent("closing-balance", "balance", "74.5", NUM_KINDS),
            operator("Okane Bank (fee)"),
        ],
    });
    v.push(Shape {
        name: "viseca-basic".into(),
        kind: Kind::VisecaBasic,
        fields: vec![text("payee", "payee", "certain, phone company CH"), text_or_absent("category", "none", "Telecommunication services"), vzeros(num("amount", "amount", "52.10", VNUM_KINDS)), choice("sign", "amount", &[("charge", ""), ("refund", " -")])],
    });
    v.push(Shape {
        name: "viseca-fx".into(),
        kind: Kind::VisecaFx,
        fields: vec![
            text("payee", "payee", "Europe Gas AT"),
            choice("currency", "commodity", &[("foreign", "EUR"), ("same-as-primary", "CHF")]),
            vzeros(num("spent", "amount", "46.88", VNUM_KINDS)),
            vzeros(num("amount", "amount", "52.10", VNUM_KINDS)),
            num_or_absent("rate", "rate", "1.092432", VNUM_KINDS),
            num("equivalent", "none", "51.20", VNUM_KINDS),
            choice("fee-line", "charge", &[("processing-fee", "Processing fee"), ("credit-of-fee", "Credit of processing fee"), ("none", "-")]),
            vzeros(num("fee", "charge", "0.90", VNUM_KINDS)),
            choice("sign", "amount", &[("charge", ""), ("refund", " -")]),
            operator("Okane Card (fee)"),
        ],
    });
    v
}

const PRECS: [Option<u8>; 3] = [None, Some(2), Some(4)];
/// A case option `pi` in 0..6 packs the precision (pi % 3) and the record order (pi >= 3: the file order of the
/// tested record and the anchor record is swapped).
fn opt_prec(pi: usize) -> Option<u8> {
    PRECS[pi % 3]
}
fn opt_swap(pi: usize) -> bool {
    pi >= 3
}
/// commodities that get the configured precision (JPY and everything else stays unconfigured)
const PREC_COMMODITIES: [&str; 4] = ["CHF", "USD", "EUR", "VYM"];

struct Rendered {
    config: String,
    statement: String,
    ext: &'static str,
    /// transactions the statement describes (records, plus the opening-balance transaction of camt)
    records: usize,
    /// values the statement cells dictate for the built tree (independent reference, exact rationals)
    expect: Vec<Expect>,
    /// index (import order) of the transaction of the plain anchor record; None in the layout family
    anchor_txn: Option<usize>,
    /// payees of the transactions in import order, when the family knows them (multi-statement documents)
    payees: Option<Vec<String>>,
    /// (transaction index, date, effective date) the statement dictates (date family)
    dates: Vec<(usize, NaiveDate, Option<NaiveDate>)>,
    /// (transaction index, commodity): the configuration switches the conversion of this record off, so every
    /// posting of its transaction is in this commodity and none carries a rate
    single_commodity: Option<(usize, String)>,
    /// (transaction index, commodity): the configuration converts this record, so its transaction has a posting
    /// in this (secondary) commodity
    converted: Option<(usize, String)>,
}

/// One number of the built tree that is dictated by a statement cell.
#[derive(Clone, Debug)]
struct Expect {
    /// index of the transaction in import order
    txn: usize,
    /// the posting on the configured (source) account, or the single other posting
    source: bool,
    /// the balance assertion instead of the amount
    balance: bool,
    /// when set: the posting whose amount has this commodity (instead of source / counter)
    commodity: Option<String>,
    value: Q,
    /// how the reference got there, for the report
    why: String,
}

/// Independent reading of a numeric statement cell: digits with optional `,` grouping and one `.`,
/// negative iff exactly one `-` stands before the first digit (before or after a commodity prefix).
/// Anything else (two signs, a sign after the digits, two points, no digit) has no reference value.
fn cell_value(cell: &str) -> Option<Q> {
    let kept: String = cell.chars().filter(|c| c.is_ascii_digit() || matches!(c, '.' | ',' | '-')).collect();
    let (neg, body) = match kept.strip_prefix('-') {
        Some(b) => (true, b),
        None => (false, kept.as_str()),
    };
    if body.contains('-') || body.matches('.').count() > 1 || !body.chars().any(|c| c.is_ascii_digit()) {
        return None;
    }
    // the sign must stand before the first digit in the cell itself, too
    if neg && cell.find('-').unwrap() > cell.find(|c: char| c.is_ascii_digit()).unwrap() {
        return None;
    }
    if let Some((ip, fp)) = body.split_once('.') {
        if fp.contains(',') || ip.is_empty() && fp.is_empty() {
            return None;
        }
    }
    let q = Q::parse(body);
    Some(if neg { q.neg() } else { q })
}

/// The secondary / transferred amount of a record is booked on the counter side: received (+) when the statement
/// account is debited, given (-) when it is credited; its own sign in the statement does not matter.
fn secondary_expect(txn: usize, commodity: &str, secondary_cell: &str, debit: bool, why: &str) -> Option<Expect> {
    let q = cell_value(&secondary_cell.replace('\'', ""))?.abs();
    Some(Expect { txn, source: false, balance: false, commodity: Some(commodity.to_string()), value: if debit { q } else { q.neg() }, why: format!("secondary amount cell {:?}, {}", secondary_cell, why) })
}

/// One `conversion:` block of a CSV configuration (account-wide or of a rewrite rule), written in the alphabets as
/// `<amount mode> <rate mode> [disabled] [commodity=<C>]`; the empty string leaves the block out.
#[derive(Clone, Copy, Debug)]
struct ConvSpec<'a> {
    extract: bool,
    price_of_secondary: bool,
    disabled: bool,
    commodity: Option<&'a str>,
}

impl Default for ConvSpec<'_> {
    /// what okane documents as the default: extract / price_of_secondary, enabled
    fn default() -> Self {
        ConvSpec { extract: true, price_of_secondary: true, disabled: false, commodity: None }
    }
}

impl<'a> ConvSpec<'a> {
    fn parse(s: &'a str) -> Option<ConvSpec<'a>> {
        if s.is_empty() {
            return None;
        }
        let mut c = ConvSpec::default();
        for tok in s.split(' ') {
            match tok {
                "extract" => c.extract = true,
                "compute" => c.extract = false,
                "price_of_secondary" => c.price_of_secondary = true,
                "price_of_primary" => c.price_of_secondary = false,
                "disabled" => c.disabled = true,
                t => c.commodity = Some(t.strip_prefix("commodity=").expect("harness bug: conversion spec")),
            }
        }
        Some(c)
    }
    fn yaml(&self, indent: &str) -> String {
        let mut s = format!("{}conversion:\n{}  amount: {}\n{}  rate: {}\n", indent, indent, if self.extract { "extract" } else { "compute" }, indent, if self.price_of_secondary { "price_of_secondary" } else { "price_of_primary" });
        if self.disabled {
            s.push_str(&format!("{}  disabled: true\n", indent));
        }
        if let Some(c) = self.commodity {
            s.push_str(&format!("{}  commodity: {}\n", indent, c));
        }
        s
    }
}

fn ymd(y: i32, m: u32, d: u32) -> NaiveDate {
    NaiveDate::from_ymd_opt(y, m, d).expect("harness bug: invalid date")
}

fn yaml_dq(s: &str) -> String {
    format!("\"{}\"", s.replace('\\', "\\\\").replace('"', "\\\"").replace('\n', "\\n"))
}

fn yaml_precisions(p: Option<u8>) -> String {
    match p {
        None => String::new(),
        Some(n) => {
            let mut s = String::from("  commodity:\n");
            for c in PREC_COMMODITIES {
                s.push_str(&format!("    {}:\n      precision: {}\n", c, n));
            }
            s
        }
    }
}

fn csv_cell(s: &str) -> String {
    format!("\"{}\"", s.replace('"', "\"\""))
}
fn csv_row(cells: &[&str], delim: char) -> String {
    let mut s = cells.iter().map(|c| csv_cell(c)).collect::<Vec<_>>().join(&delim.to_string());
    s.push('\n');
    s
}
fn xml_escape(s: &str) -> String {
    s.replace('&', "&amp;").replace('<', "&lt;").replace('>', "&gt;").replace('"', "&quot;")
}

type Vals<'a> = Vec<Option<&'a str>>;

/// Puts header, the tested block, the anchor block and the optional date-less row (all cells empty but the
/// payee) together in file order. `anchor_first`: the anchor block precedes the tested block in the file.
fn assemble(header: &str, tested: &str, anchor: &str, anchor_first: bool, dateless: &str, dateless_row: &str) -> String {
    let (a, b) = if anchor_first { (anchor, tested) } else { (tested, anchor) };
    let mut s = String::from(header);
    if dateless == "before" {
        s.push_str(dateless_row);
    }
    s.push_str(a);
    if dateless == "between" {
        s.push_str(dateless_row);
    }
    s.push_str(b);
    if dateless == "after" {
        s.push_str(dateless_row);
    }
    s
}

/// `swap`: the file order of the tested record and the anchor record is exchanged.
fn render(shape: &Shape, prec: Option<u8>, v: &Vals, swap: bool) -> Rendered {
    let g = |i: usize| -> &str { v[i].unwrap_or("") };
    // import order: tested first, anchor second, unless swapped
    let (t_idx, a_idx) = if swap { (1usize, 0usize) } else { (0usize, 1usize) };
    match shape.kind {
        Kind::CsvBasic => {
            let payee_cell = match v[1] {
                None => g(0).to_string(),
                Some(c) => format!("REF {} // {}", c, g(0)),
            };
            let config = format!(
                "path: \".csv\"\nencoding: UTF-8\naccount: \"Liabilities:Okane Card\"\naccount_type: liability\ncommodity: CHF\nformat:\n  date: \"%Y-%m-%d\"\n  fields:\n    date: 1\n    payee: 2\n    amount: 3\n    note: 4\n    balance: 5\n    commodity: 6\n{}rewrite:\n  - matcher:\n      payee: '(?s)^REF (?P<code>.*?) // (?P<payee>.*)$'\n  - matcher:\n      payee: Grocery\n    account: Expenses:Grocery\n",
                yaml_precisions(prec)
            );
            let st = assemble(
                &csv_row(&["date", "payee", "amount", "note", "balance", "commodity"], ','),
                &csv_row(&["2024-01-05", &payee_cell, g(4), g(2), g(5), g(3)], ','),
                &csv_row(&["2024-01-06", "Migros Grocery", "20.5", "anchor memo", "", "CHF"], ','),
                swap,
                g(6),
                &csv_row(&["", "Sub-total", "", "", "", ""], ','),
            );
            // liability: the statement-account posting carries -cell, the counter posting +cell; balance as written
            let mut expect = vec![];
            if let Some(a) = cell_value(g(4)) {
                expect.push(Expect { txn: t_idx, source: true, balance: false, commodity: None, value: a.neg(), why: format!("amount cell {:?} of a liability account is booked negated", g(4)) });
                expect.push(Expect { txn: t_idx, source: false, balance: false, commodity: None, value: a, why: format!("counter posting of the amount cell {:?}", g(4)) });
            }
            if let Some(b) = v[5].and_then(cell_value) {
                expect.push(Expect { txn: t_idx, source: true, balance: true, commodity: None, value: b, why: format!("balance cell {:?}", g(5)) });
            }
            Rendered { config, statement: st, ext: "csv", records: 2, expect, anchor_txn: Some(a_idx), payees: None, dates: vec![(t_idx, ymd(2024, 1, 5), None), (a_idx, ymd(2024, 1, 6), None)], single_commodity: None, converted: None }
        }
        Kind::CsvCreditDebit => {
            let config = format!(
                "path: \".csv\"\nencoding: UTF-8\naccount: \"Assets:Okane Bank:Savings:Joint Account With Hanako\"\naccount_type: asset\ncommodity: CHF\nformat:\n  date: \"%Y/%m/%d\"\n  delimiter: \"\\t\"\n  fields:\n    date: 日付\n    payee: 摘要\n    debit: 引き出し額\n    credit: 預け入れ額\n    balance: 口座残高\n{}rewrite:\n  - matcher:\n      payee: Grocery\n    account: Expenses:Grocery\n",
                yaml_precisions(prec)
            );
            let st = assemble(
                &csv_row(&["日付", "摘要", "預け入れ額", "引き出し額", "口座残高"], '\t'),
                &csv_row(&["2024/01/05", "Coffee Shop", g(0), g(1), g(2)], '\t'),
                &csv_row(&["2024/01/06", "Migros Grocery", "", "20.5", ""], '\t'),
                swap,
                g(3),
                &csv_row(&["", "Sub-total", "", "", ""], '\t'),
            );
            // exactly one of credit / debit filled in: +credit or -debit on the statement account (both: not judged here)
            let mut expect = vec![];
            let signed_value = match (g(0).is_empty(), g(1).is_empty()) {
                (false, true) => cell_value(g(0)).map(|c| (c, format!("credit cell {:?}", g(0)))),
                (true, false) => cell_value(g(1)).map(|d| (d.neg(), format!("debit cell {:?} is booked negated", g(1)))),
                _ => None,
            };
            if let Some((a, why)) = signed_value {
                expect.push(Expect { txn: t_idx, source: true, balance: false, commodity: None, value: a, why: why.clone() });
                expect.push(Expect { txn: t_idx, source: false, balance: false, commodity: None, value: a.neg(), why: format!("counter posting of the {}", why) });
            }
            if let Some(b) = v[2].and_then(cell_value) {
                expect.push(Expect { txn: t_idx, source: true, balance: true, commodity: None, value: b, why: format!("balance cell {:?}", g(2)) });
            }
            Rendered { config, statement: st, ext: "csv", records: 2, expect, anchor_txn: Some(a_idx), payees: None, dates: vec![(t_idx, ymd(2024, 1, 5), None), (a_idx, ymd(2024, 1, 6), None)], single_commodity: None, converted: None }
        }
        Kind::CsvMulti => {
            // account-wide conversion (`commodity.conversion`) and the conversion of the rewrite rule that matches the
            // tested record; an empty spec leaves the key out
            let acct = ConvSpec::parse(g(6));
            let rule = ConvSpec::parse(g(9));
            let config = format!(
                "path: \".csv\"\nencoding: UTF-8\naccount: \"Assets:Okane Bank\"\naccount_type: asset\noperator: {}\ncommodity:\n  primary: CHF\n{}format:\n  date: \"%Y-%m-%d\"\n  fields:\n    date: 1\n    payee: 2\n    amount: 3\n    commodity: 4\n    rate: 5\n    secondary_amount: 6\n    secondary_commodity: 7\n    charge: 8\n{}rewrite:\n  - matcher:\n      payee: Wire\n    account: Assets:Wire\n{}",
                yaml_dq(g(7)),
                acct.as_ref().map(|c| c.yaml("  ")).unwrap_or_default(),
                yaml_precisions(prec),
                rule.as_ref().map(|c| c.yaml("    ")).unwrap_or_default()
            );
            let st = assemble(
                &csv_row(&["date", "payee", "amount", "commodity", "rate", "secondary_amount", "secondary_commodity", "charge"], ','),
                &csv_row(&["2024-01-05", "Wire to Japan", g(2), g(0), g(3), g(4), g(1), g(5)], ','),
                &csv_row(&["2024-01-06", "Migros Grocery", "-20.5", "CHF", "", "", "", ""], ','),
                swap,
                g(8),
                &csv_row(&["", "Sub-total", "", "", "", "", "", ""], ','),
            );
            // Which conversion the configuration asks for (config.rs: the account-wide one is "applied to all transaction, if
            // not specified in rewrite rules"; `disabled`: "Disable all conversions"):
            //  * the rule's conversion when the matching rule has one, else the account-wide one;
            //  * when that one is disabled the record is a plain single-commodity record;
            //  * an enabled rule conversion under a disabled account-wide one is not judged (either reading is defensible),
            //    nor is an account-wide conversion for a row that lacks the rate or the secondary amount.
            let acct = acct.unwrap_or_default();
            let row_complete = v[3].is_some() && v[4].is_some();
            let (switched_off, applied): (bool, Option<ConvSpec>) = match rule {
                Some(r) if r.disabled => (true, None),
                Some(r) => (false, if acct.disabled { None } else { Some(r) }),
                None if acct.disabled => (true, None),
                None => (false, if row_complete { Some(acct) } else { None }),
            };
            let mut expect = vec![];
            let mut single_commodity = None;
            let mut converted = None;
            let amount_cell = cell_value(g(2));
            let rate_ok = v[3].and_then(cell_value).map(|r| !r.is_zero()).unwrap_or(false);
            if switched_off && g(0) == "USD" {
                // no conversion: everything in the commodity of the amount cell, no rate; asset account: the amount as written,
                // the counter posting opposite (net of a charge: not value-judged)
                single_commodity = Some((t_idx, "USD".to_string()));
                if let Some(a) = amount_cell {
                    expect.push(Expect { txn: t_idx, source: true, balance: false, commodity: None, value: a, why: format!("amount cell {:?} of an asset account, conversion switched off", g(2)) });
                    if v[5].is_none() {
                        expect.push(Expect { txn: t_idx, source: false, balance: false, commodity: None, value: a.neg(), why: format!("counter posting of the amount cell {:?}, conversion switched off", g(2)) });
                    }
                }
            }
            if let Some(c) = applied {
                let secondary = c.commodity.unwrap_or("JPY");
                if g(0) == "USD" && g(1) == "JPY" && rate_ok && amount_cell.is_some() && (!c.extract || v[4].and_then(cell_value).is_some()) {
                    converted = Some((t_idx, secondary.to_string()));
                    // extracted secondary amount, no charge: the posting in the secondary commodity is +|secondary| for a debit
                    // (minus sign in the amount cell, also on a zero) and -|secondary| otherwise
                    if c.extract && v[5].is_none() {
                        if let Some(sec) = v[4] {
                            let debit = g(2).contains('-');
                            expect.extend(secondary_expect(t_idx, secondary, sec, debit, if debit { "amount cell with a minus sign: debit" } else { "amount cell without a minus sign: credit" }));
                        }
                    }
                }
            }
            Rendered { config, statement: st, ext: "csv", records: 2, expect, anchor_txn: Some(a_idx), payees: None, dates: vec![(t_idx, ymd(2024, 1, 5), None), (a_idx, ymd(2024, 1, 6), None)], single_commodity, converted }
        }
        Kind::CsvTemplate => {
            let config = format!(
                "path: \".csv\"\nencoding: UTF-8\naccount: \"Assets:Brokers:Schrank\"\naccount_type: asset\noperator: {}\ncommodity:\n  primary: USD\nformat:\n  date: \"%m/%d/%Y\"\n  fields:\n    date: Date\n    payee:\n      template: \"{{category}} - {{4}}\"\n    category: Action\n    secondary_commodity: Symbol\n    secondary_amount: Quantity\n    rate: Price\n    charge: \"Fees & Comm\"\n    amount: Amount\n  row_order: new_to_old\n{}rewrite:\n  - account: Assets:Brokers:Schrank\n    matcher:\n    - category: Buy\n  - account: Income:Interest\n    matcher:\n    - category: Credit Interest\n",
                yaml_dq(g(7)),
                yaml_precisions(prec)
            );
            // new_to_old: by default the anchor (newer) comes first in the file and the tested record is the older
            // one; the importer reverses, so the import order is tested, anchor (swapped: anchor, tested)
            let st = assemble(
                &csv_row(&["Date", "Action", "Symbol", "Description", "Quantity", "Price", "Fees & Comm", "Amount"], ','),
                &csv_row(&["01/05/2024", g(0), g(2), g(1), g(3), g(4), g(5), g(6)], ','),
                &csv_row(&["01/06/2024", "Credit Interest", "", "SCHWAB1 INT", "", "", "", "$6.60"], ','),
                !swap,
                g(8),
                &csv_row(&["", "", "", "Sub-total", "", "", "", ""], ','),
            );
            let mut expect = vec![];
            let rate_ok = v[4].and_then(cell_value).map(|r| !r.is_zero()).unwrap_or(false);
            if g(2) == "VYM" && v[5].is_none() && rate_ok && cell_value(g(6)).is_some() {
                if let Some(sec) = v[3] {
                    let debit = g(6).contains('-');
                    expect.extend(secondary_expect(t_idx, "VYM", sec, debit, if debit { "amount cell with a minus sign: debit" } else { "amount cell without a minus sign: credit" }));
                }
            }
            Rendered { config, statement: st, ext: "csv", records: 2, expect, anchor_txn: Some(a_idx), payees: None, dates: vec![(t_idx, ymd(2024, 1, 5), None), (a_idx, ymd(2024, 1, 6), None)], single_commodity: None, converted: None }
        }
        Kind::CamtText(k) => {
            let mut e = CamtEntry::plain();
            e.refr = v[0];
            match k {
                0 => e.cdtr = v[1],
                1 => e.dbtr = v[1],
                2 => e.ucdtr = v[1],
                3 => e.udbtr = v[1],
                4 => e.ustrd = v[1],
                5 => e.addtl_tx = v[1],
                6 => e.addtl_ntry = g(1),
                _ => unreachable!(),
            }
            Rendered { config: camt_config(prec, CAMT_SOURCES[k].1, "Okane Bank (fee)"), statement: camt_doc(&ordered(e, CamtEntry::anchor(k), swap), Some("100"), Some("74.5")), ext: "xml", records: 3, expect: vec![], anchor_txn: Some(1 + a_idx), payees: None, dates: vec![(1 + t_idx, ymd(2024, 1, 5), Some(ymd(2024, 1, 4))), (1 + a_idx, ymd(2024, 1, 6), None)], single_commodity: None, converted: None }
        }
        Kind::CamtEntryOnly => {
            let mut e = CamtEntry::plain();
            e.txdtls = false;
            e.addtl_ntry = g(0);
            e.amt = g(1);
            e.entry_charge = v[2].map(|a| (a, true));
            Rendered { config: camt_config(prec, "additional_entry_info", g(3)), statement: camt_doc(&ordered(e, CamtEntry::anchor(6), swap), Some("100"), Some("74.5")), ext: "xml", records: 3, expect: vec![], anchor_txn: Some(1 + a_idx), payees: None, dates: vec![(1 + t_idx, ymd(2024, 1, 5), Some(ymd(2024, 1, 4))), (1 + a_idx, ymd(2024, 1, 6), None)], single_commodity: None, converted: None }
        }
        Kind::CamtNum => {
            let mut e = CamtEntry::plain();
            e.amt = g(0);
            e.ccy = g(1);
            e.debit = g(2) == "DBIT";
            e.tx_amt = v[3].map(|a| (a, v[4]));
            e.tx_charge = v[5].map(|a| (a, true));
            e.entry_charge = v[6].map(|a| (a, false));
            let records = 2 + if v[7].is_some() { 1 } else { 0 };
            // TxAmt in EUR, no charges, unsigned entry amount (ISO 20022 amounts carry no sign; what a minus sign in Amt
            // means is not judged): +|TxAmt| when the entry debits the account (DBIT), -|TxAmt| for CRDT
            let mut expect = vec![];
            let plain_decimal = |c: &str| c.chars().all(|ch| ch.is_ascii_digit() || ch == '.' || ch == '-');
            if g(1) == "CHF" && v[5].is_none() && v[6].is_none() && plain_decimal(g(0)) && !g(0).contains('-') && cell_value(g(0)).is_some() {
                if let Some(tx) = v[3].filter(|c| plain_decimal(c)) {
                    let debit = g(2) == "DBIT";
                    expect.extend(secondary_expect(records - 2 + t_idx, "EUR", tx, debit, if debit { "the entry debits the account" } else { "the entry credits the account" }));
                }
            }
            Rendered { config: camt_config(prec, "creditor_name", g(9)), statement: camt_doc(&ordered(e, CamtEntry::anchor(0), swap), v[7], v[8]), ext: "xml", records, expect, anchor_txn: Some(records - 2 + a_idx), payees: None, dates: vec![(records - 2 + t_idx, ymd(2024, 1, 5), Some(ymd(2024, 1, 4))), (records - 2 + a_idx, ymd(2024, 1, 6), None)], single_commodity: None, converted: None }
        }
        Kind::VisecaBasic => {
            let mut t = format!("04.01.24 05.01.24 {} {}{}\n", g(0), g(2), g(3));
            if let Some(c) = v[1] {
                t.push_str(c);
                t.push('\n');
            }
            let st = assemble("", &t, VISECA_ANCHOR, swap, "", "");
            Rendered { config: viseca_config(prec, "Okane Card (fee)"), statement: st, ext: "txt", records: 2, expect: vec![], anchor_txn: Some(a_idx), payees: None, dates: vec![(t_idx, ymd(2024, 1, 4), Some(ymd(2024, 1, 5))), (a_idx, ymd(2024, 1, 10), Some(ymd(2024, 1, 11)))], single_commodity: None, converted: None }
        }
        Kind::VisecaFx => {
            let mut t = format!("04.01.24 05.01.24 {} {} {} {}{}\nService stations\n", g(0), g(1), g(2), g(3), g(8));
            if let Some(r) = v[4] {
                t.push_str(&format!("Exchange rate {} of 05.01.24 CHF {}\n", r, g(5)));
            }
            if g(6) != "-" {
                t.push_str(&format!("{} 1.75% CHF {}\n", g(6), g(7)));
            }
            let st = assemble("", &t, VISECA_ANCHOR, swap, "", "");
            // foreign amount: received (+) for a purchase, given back (-) for a refund line (` -`)
            let mut expect = vec![];
            if g(1) == "EUR" {
                let purchase = g(8).is_empty();
                expect.extend(secondary_expect(t_idx, "EUR", g(2), purchase, if purchase { "purchase line" } else { "refund line" }));
            }
            Rendered { config: viseca_config(prec, g(9)), statement: st, ext: "txt", records: 2, expect, anchor_txn: Some(a_idx), payees: None, dates: vec![(t_idx, ymd(2024, 1, 4), Some(ymd(2024, 1, 5))), (a_idx, ymd(2024, 1, 10), Some(ymd(2024, 1, 11)))], single_commodity: None, converted: None }
        }
    }
}

const VISECA_ANCHOR: &str = "10.01.24 11.01.24 Migros Grocery 20.50\nGrocery stores\n";

fn ordered<'a>(tested: CamtEntry<'a>, anchor: CamtEntry<'a>, swap: bool) -> [CamtEntry<'a>; 2] {
    if swap {
        [anchor, tested]
    } else {
        [tested, anchor]
    }
}

fn viseca_config(prec: Option<u8>, operator: &str) -> String {
    format!(
        "path: \".txt\"\nencoding: UTF-8\naccount: \"Liabilities:Okane Card\"\naccount_type: liability\noperator: {}\ncommodity: CHF\n{}rewrite:\n  - account: Expenses:Grocery\n    matcher:\n    - category: Grocery stores\n  - account: Expenses:Car:Gas\n    pending: true\n    matcher:\n    - category: Service stations\n",
        yaml_dq(operator),
        if prec.is_some() { format!("format:\n{}", yaml_precisions(prec)) } else { String::new() }
    )
}

fn camt_config(prec: Option<u8>, source_key: &str, operator: &str) -> String {
    format!(
        "path: \".xml\"\nencoding: UTF-8\naccount: \"Assets:Okane Bank\"\naccount_type: asset\noperator: {}\ncommodity: CHF\n{}rewrite:\n  - matcher:\n      {}: '(?s)^(?P<payee>.*)$'\n  - matcher:\n      payee: Grocery\n    account: Expenses:Grocery\n",
        yaml_dq(operator),
        if prec.is_some() { format!("format:\n{}", yaml_precisions(prec)) } else { String::new() },
        source_key
    )
}

#[derive(Clone)]
struct CamtEntry<'a> {
    refr: Option<&'a str>,
    cdtr: Option<&'a str>,
    dbtr: Option<&'a str>,
    ucdtr: Option<&'a str>,
    udbtr: Option<&'a str>,
    ustrd: Option<&'a str>,
    addtl_tx: Option<&'a str>,
    addtl_ntry: &'a str,
    ccy: &'a str,
    amt: &'a str,
    debit: bool,
    txdtls: bool,
    /// TxAmt in EUR with an optional exchange rate
    tx_amt: Option<(&'a str, Option<&'a str>)>,
    /// (amount, included)
    entry_charge: Option<(&'a str, bool)>,
    tx_charge: Option<(&'a str, bool)>,
    /// value date
    day: &'a str,
    /// booking date (printed as the effective date when it differs from the value date)
    booked: &'a str,
    /// write the value / booking date as `<DtTm>` (the strings above are then RFC 3339 date-times)
    day_dttm: bool,
    booked_dttm: bool,
    /// leave `ValDt` out (the booking date is then the only date of the record)
    no_valdt: bool,
    /// when non-empty: a batch entry with one `TxDtls` per element (reference, amount, debit) instead of the single one
    batch: &'a [(String, String, bool)],
}

impl<'a> CamtEntry<'a> {
    fn plain() -> Self {
        CamtEntry {
            refr: Some("20211031/1/1"),
            cdtr: Some("Creditor Ltd"),
            dbtr: Some("Taro Yamada"),
            ucdtr: Some("Ultimate Creditor"),
            udbtr: Some("Ultimate Debtor"),
            ustrd: Some("Invoice 42"),
            addtl_tx: Some("Payment order"),
            addtl_ntry: "Booking",
            ccy: "CHF",
            amt: "5",
            debit: true,
            txdtls: true,
            tx_amt: None,
            entry_charge: None,
            tx_charge: None,
            day: "2024-01-05",
            booked: "2024-01-04",
            day_dttm: false,
            booked_dttm: false,
            no_valdt: false,
            batch: &[],
        }
    }
    /// plain record whose k-th source element matches the Grocery rule
    fn anchor(k: usize) -> Self {
        let mut e = CamtEntry::plain();
        e.refr = Some("20211031/2/1");
        e.amt = "20.5";
        e.day = "2024-01-06";
        e.booked = "2024-01-06";
        let g = "Migros Grocery";
        match k {
            0 => e.cdtr = Some(g),
            1 => e.dbtr = Some(g),
            2 => e.ucdtr = Some(g),
            3 => e.udbtr = Some(g),
            4 => e.ustrd = Some(g),
            5 => e.addtl_tx = Some(g),
            _ => e.addtl_ntry = g,
        }
        e
    }
    fn charges_xml(c: Option<(&str, bool)>) -> String {
        match c {
            None => String::new(),
            Some((a, incl)) => format!("<Chrgs><Rcrd><Amt Ccy=\"CHF\">{}</Amt><CdtDbtInd>DBIT</CdtDbtInd><ChrgInclInd>{}</ChrgInclInd></Rcrd></Chrgs>\n", xml_escape(a), incl),
        }
    }
    fn xml(&self) -> String {
        let ind = if self.debit { "DBIT" } else { "CRDT" };
        let mut s = String::new();
        s.push_str("<Ntry>\n");
        s.push_str(&format!("<Amt Ccy=\"{}\">{}</Amt><CdtDbtInd>{}</CdtDbtInd><Sts>BOOK</Sts>\n", xml_escape(self.ccy), xml_escape(self.amt), ind));
        let tag = |dttm: bool| if dttm { "DtTm" } else { "Dt" };
        s.push_str(&format!("<BookgDt><{}>{}</{}></BookgDt>", tag(self.booked_dttm), self.booked, tag(self.booked_dttm)));
        if !self.no_valdt {
            s.push_str(&format!("<ValDt><{}>{}</{}></ValDt>", tag(self.day_dttm), self.day, tag(self.day_dttm)));
        }
        s.push('\n');
        s.push_str("<BkTxCd><Domn><Cd>PMNT</Cd><Fmly><Cd>ICDT</Cd><SubFmlyCd>AUTT</SubFmlyCd></Fmly></Domn></BkTxCd>\n");
        s.push_str(&Self::charges_xml(self.entry_charge));
        if !self.batch.is_empty() {
            s.push_str(&format!("<NtryDtls><Btch><NbOfTxs>{}</NbOfTxs></Btch>\n", self.batch.len()));
            for (r, a, debit) in self.batch {
                s.push_str(&format!(
                    "<TxDtls><Refs><AcctSvcrRef>{}</AcctSvcrRef></Refs><Amt Ccy=\"{}\">{}</Amt><CdtDbtInd>{}</CdtDbtInd><RltdPties><Cdtr><Nm>{}</Nm></Cdtr></RltdPties></TxDtls>\n",
                    xml_escape(r),
                    xml_escape(self.ccy),
                    xml_escape(a),
                    if *debit { "DBIT" } else { "CRDT" },
                    xml_escape(self.cdtr.unwrap_or("Creditor Ltd"))
                ));
            }
            s.push_str("</NtryDtls>\n");
        } else if self.txdtls {
            s.push_str("<NtryDtls><TxDtls>\n<Refs>");
            if let Some(r) = self.refr {
                s.push_str(&format!("<AcctSvcrRef>{}</AcctSvcrRef>", xml_escape(r)));
            }
            s.push_str("<EndToEndId>NOTPROVIDED</EndToEndId></Refs>\n");
            s.push_str(&format!("<Amt Ccy=\"{}\">{}</Amt><CdtDbtInd>{}</CdtDbtInd>\n", xml_escape(self.ccy), xml_escape(self.amt), ind));
            if let Some((a, rate)) = self.tx_amt {
                let x = match rate {
                    Some(r) => format!("<CcyXchg><SrcCcy>CHF</SrcCcy><TrgtCcy>EUR</TrgtCcy><XchgRate>{}</XchgRate></CcyXchg>", xml_escape(r)),
                    None => String::new(),
                };
                s.push_str(&format!("<AmtDtls><InstdAmt><Amt Ccy=\"EUR\">{}</Amt></InstdAmt><TxAmt><Amt Ccy=\"EUR\">{}</Amt>{}</TxAmt></AmtDtls>\n", xml_escape(a), xml_escape(a), x));
            }
            s.push_str(&Self::charges_xml(self.tx_charge));
            s.push_str("<RltdPties>");
            let party = |tag: &str, n: Option<&str>| match n {
                Some(n) => format!("<{}><Nm>{}</Nm></{}>", tag, xml_escape(n), tag),
                None => String::new(),
            };
            s.push_str(&party("Dbtr", self.dbtr));
            s.push_str(&party("UltmtDbtr", self.udbtr));
            s.push_str(&party("Cdtr", self.cdtr));
            s.push_str(&party("UltmtCdtr", self.ucdtr));
            s.push_str("</RltdPties>\n");
            if let Some(u) = self.ustrd {
                s.push_str(&format!("<RmtInf><Ustrd>{}</Ustrd></RmtInf>\n", xml_escape(u)));
            }
            if let Some(a) = self.addtl_tx {
                s.push_str(&format!("<AddtlTxInf>{}</AddtlTxInf>\n", xml_escape(a)));
            }
            s.push_str("</TxDtls></NtryDtls>\n");
        }
        s.push_str(&format!("<AddtlNtryInf>{}</AddtlNtryInf>\n</Ntry>\n", xml_escape(self.addtl_ntry)));
        s
    }
}

fn camt_doc(entries: &[CamtEntry], opening: Option<&str>, closing: Option<&str>) -> String {
    camt_multi_doc(&[(entries, opening, closing)])
}

/// A document with any number of `Stmt` elements: (entries, opening balance, closing balance) each.
fn camt_multi_doc(stmts: &[(&[CamtEntry], Option<&str>, Option<&str>)]) -> String {
    let mut s = String::from("<?xml version=\"1.0\" encoding=\"UTF-8\"?>\n<Document xmlns=\"urn:iso:std:iso:20022:tech:xsd:camt.053.001.04\">\n<BkToCstmrStmt>\n<GrpHdr><MsgId>1</MsgId></GrpHdr>\n");
    for (i, (entries, opening, closing)) in stmts.iter().enumerate() {
        s.push_str(&camt_stmt(i + 1, entries, *opening, *closing));
    }
    s.push_str("</BkToCstmrStmt>\n</Document>\n");
    s
}

fn camt_stmt(id: usize, entries: &[CamtEntry], opening: Option<&str>, closing: Option<&str>) -> String {
    let mut s = format!("<Stmt>\n<Id>{}</Id>\n", id);
    let bal = |code: &str, a: &str| format!("<Bal><Tp><CdOrPrtry><Cd>{}</Cd></CdOrPrtry></Tp><Amt Ccy=\"CHF\">{}</Amt><CdtDbtInd>CRDT</CdtDbtInd><Dt><Dt>2024-01-01</Dt></Dt></Bal>\n", code, xml_escape(a));
    if let Some(o) = opening {
        s.push_str(&bal("OPBD", o));
    }
    if let Some(c) = closing {
        s.push_str(&bal("CLBD", c));
    }
    for e in entries {
        s.push_str(&e.xml());
    }
    s.push_str("</Stmt>\n");
    s
}

// ------------------------------------------------------------------------------------------------
// Running the real code and judging

/// deviations: (field index, alt index >= 1), sorted by field index
type Devs = Vec<(u8, u8)>;

#[derive(Clone, Debug)]
enum Judgement {
    /// importer rejected the statement (both the library call and the CLI)
    Rejected(String),
    /// `anchor`: (debug print of the anchor's tree, printed text of the anchor's transaction)
    Ok { class: String, anchor: Option<(String, String)> },
    Bad { clause: String, detail: String },
}

struct Env {
    shapes: Vec<Shape>,
    dir: PathBuf,
    memo: RefCell<HashMap<(usize, usize, Devs), Judgement>>,
    last_config: RefCell<String>,
    runs: RefCell<u64>,
    compared: RefCell<u64>,
}

fn values<'a>(shape: &'a Shape, devs: &Devs) -> Vals<'a> {
    let mut idx = vec![0usize; shape.fields.len()];
    for (f, a) in devs {
        idx[*f as usize] = *a as usize;
    }
    shape.fields.iter().zip(idx).map(|(f, i)| f.alts[i].value.as_deref()).collect()
}

fn describe(shape: &Shape, pi: usize, devs: &Devs) -> String {
    let prec = opt_prec(pi);
    let r = render(shape, prec, &values(shape, devs), opt_swap(pi));
    let d: Vec<String> = devs.iter().map(|(f, a)| format!("{}={} {:?}", shape.fields[*f as usize].name, shape.fields[*f as usize].alts[*a as usize].label, shape.fields[*f as usize].alts[*a as usize].value)).collect();
    format!("shape {} precision {:?}{} non-plain fields [{}]\n--- config ---\n{}--- statement (.{}) ---\n{}", shape.name, prec, if opt_swap(pi) { " record order swapped (anchor record imported first)" } else { "" }, d.join(", "), r.config, r.ext, r.statement)
}

fn err_chain(e: &dyn std::error::Error) -> String {
    let mut s = e.to_string();
    let mut cur = e.source();
    while let Some(c) = cur {
        s.push_str(" <- ");
        s.push_str(&c.to_string());
        cur = c.source();
    }
    s
}

fn err_class(e: &import::ImportError) -> String {
    let d = format!("{:?}", e);
    d.split(|c: char| !c.is_alphanumeric()).next().unwrap_or("").to_string()
}

fn judge(env: &Env, si: usize, pi: usize, devs: &Devs) -> Judgement {
    if let Some(j) = env.memo.borrow().get(&(si, pi, devs.clone())) {
        return j.clone();
    }
    let j = match crate::fw::guarded(|| judge_uncached(env, si, pi, devs)) {
        Ok(j) => j,
        Err(sig) if sig.contains("harness bug") => panic!("{}", sig),
        Err(sig) => Judgement::Bad { clause: format!("crash/{}", sig), detail: "panic while importing this statement".into() },
    };
    env.memo.borrow_mut().insert((si, pi, devs.clone()), j.clone());
    j
}

fn judge_uncached(env: &Env, si: usize, pi: usize, devs: &Devs) -> Judgement {
    let shape = &env.shapes[si];
    let prec = opt_prec(pi);
    let r = render(shape, prec, &values(shape, devs), opt_swap(pi));
    // anchor independence: the reference is the statement with the same configuration and statement-level
    // fields whose tested record is all plain
    let bdevs: Devs = devs.iter().filter(|(f, _)| STATEMENT_LEVEL_FIELDS.contains(&shape.fields[*f as usize].name)).cloned().collect();
    let reference = if bdevs != *devs {
        match judge(env, si, pi, &bdevs) {
            Judgement::Ok { anchor, .. } => anchor,
            _ => None,
        }
    } else {
        None
    };
    judge_rendered(env, &r, prec, reference.as_ref())
}

/// fields that belong to the configuration or to the statement as a whole (kept in the anchor reference)
const STATEMENT_LEVEL_FIELDS: &[&str] = &["conversion", "rule-conversion", "operator", "opening-balance", "closing-balance"];

/// Runs the real command and the real library calls on one rendered (config, statement) pair and compares.
fn judge_rendered(env: &Env, r: &Rendered, prec: Option<u8>, anchor_reference: Option<&(String, String)>) -> Judgement {
    *env.runs.borrow_mut() += 1;
    let cfg_path = env.dir.join("config.yml");
    let src_path = env.dir.join(format!("statement.{}", r.ext));
    if *env.last_config.borrow() != r.config {
        std::fs::write(&cfg_path, &r.config).expect("write scratch config");
        *env.last_config.borrow_mut() = r.config.clone();
    }
    std::fs::write(&src_path, r.statement.as_bytes()).expect("write scratch statement");

    // ---- text: the real command ----
    let mut out: Vec<u8> = vec![];
    let cli = okane::cmd::ImportCmd { config: cfg_path.clone(), source: src_path.clone() }.run(&mut out);

    // ---- tree: the same calls ImportCmd::run makes ----
    let config_set = import::config::load_from_yaml(std::fs::File::open(&cfg_path).expect("open config")).unwrap_or_else(|e| panic!("harness bug: generated config does not load: {}", err_chain(&e)));
    let entry = match config_set.select(&src_path) {
        Ok(Some(e)) => e,
        Ok(None) => panic!("harness bug: generated config does not match the scratch path"),
        Err(e) => panic!("harness bug: generated config is invalid: {}", err_chain(&e)),
    };
    let format = match r.ext {
        "csv" => Format::Csv,
        "xml" => Format::IsoCamt053,
        _ => Format::Viseca,
    };
    let txns = match import::import(std::fs::File::open(&src_path).expect("open statement"), format, &entry) {
        Ok(t) => t,
        Err(e) => {
            return match cli {
                Err(_) => Judgement::Rejected(format!("import-rejects/{}/{}", r.ext, err_class(&e))),
                Ok(()) => Judgement::Bad { clause: "library-rejects-but-command-prints".into(), detail: format!("import::import fails ({}) but ImportCmd::run succeeded and printed:\n{}", err_chain(&e), String::from_utf8_lossy(&out)) },
            };
        }
    };
    let mut trees: Vec<plain::Transaction> = vec![];
    for t in &txns {
        match t.to_double_entry(&entry.account) {
            Ok(x) => trees.push(x),
            Err(e) => {
                return match cli {
                    Err(_) => Judgement::Rejected(format!("to-double-entry-rejects/{}/{}", r.ext, err_class(&e))),
                    Ok(()) => Judgement::Bad { clause: "library-rejects-but-command-prints".into(), detail: format!("to_double_entry fails ({}) but ImportCmd::run succeeded", err_chain(&e)) },
                };
            }
        }
    }
    if let Err(e) = cli {
        return Judgement::Bad { clause: "command-fails-but-library-imports".into(), detail: format!("import::import + to_double_entry build {} transactions but ImportCmd::run fails: {}", trees.len(), err_chain(&e)) };
    }
    let text = match String::from_utf8(out) {
        Ok(t) => t,
        Err(_) => return Judgement::Bad { clause: "output-not-utf8".into(), detail: "ImportCmd::run printed bytes that are not UTF-8".into() },
    };
    let show = |extra: String| format!("{}\n--- printed by import ---\n{}", extra, text);

    // one transaction per statement record
    if trees.len() != r.records {
        return Judgement::Bad { clause: "record-count".into(), detail: show(format!("the statement holds {} records but the importer built {} transactions", r.records, trees.len())) };
    }

    for (i, date, edate) in &r.dates {
        let t = &trees[*i];
        if t.date != *date || t.effective_date != *edate {
            return Judgement::Bad { clause: "statement-date-differs".into(), detail: show(format!("transaction #{}: the record is dated {} (effective {:?}) but the importer built {} (effective {:?})", i + 1, date, edate, t.date, t.effective_date)) };
        }
    }
    // ---- which conversion the configuration asks for (rule over account; `disabled` switches it off) ----
    let posting_amount = |p: &plain::Posting| -> Option<(String, bool)> {
        p.amount.as_ref().map(|a| {
            (
                match &a.amount {
                    expr::ValueExpr::Amount(x) => x.commodity.to_string(),
                    _ => "<expression>".to_string(),
                },
                a.cost.is_some(),
            )
        })
    };
    if let Some((i, commodity)) = &r.single_commodity {
        let t = &trees[*i];
        for (k, p) in t.posts.iter().enumerate() {
            if let Some((c, cost)) = posting_amount(p) {
                if c != *commodity || cost {
                    return Judgement::Bad {
                        clause: "conversion-disabled-but-converted".into(),
                        detail: show(format!(
                            "transaction #{}: the configuration switches the conversion of this record off, so all its amounts are in {} without a rate, but posting {} ({}) is in {}{}\n--- tree built by the importer ---\n{:#?}",
                            i + 1,
                            commodity,
                            k + 1,
                            p.account,
                            c,
                            if cost { " with a rate" } else { "" },
                            t
                        )),
                    };
                }
            }
        }
    }
    if let Some((i, commodity)) = &r.converted {
        let t = &trees[*i];
        if !t.posts.iter().any(|p| posting_amount(p).map(|(c, _)| c == *commodity).unwrap_or(false)) {
            return Judgement::Bad {
                clause: "conversion-configured-but-not-converted".into(),
                detail: show(format!("transaction #{}: the configuration converts this record (rate, secondary amount and secondary commodity are given), but no posting is in {}\n--- tree built by the importer ---\n{:#?}", i + 1, commodity, t)),
            };
        }
    }
    if let Some(want) = &r.payees {
        let got: Vec<String> = trees.iter().map(|t| t.payee.to_string()).collect();
        if got != *want {
            return Judgement::Bad { clause: "record-sequence".into(), detail: show(format!("the records of the document are {:?} in this order, but the importer built {:?}", want, got)) };
        }
    }

    // ---- numbers dictated by the statement cells (independent reference) ----
    for ex in &r.expect {
        let t = &trees[ex.txn];
        let posting = match &ex.commodity {
            None => t.posts.iter().find(|p| (p.account.as_ref() as &str == entry.account.as_str()) == ex.source),
            Some(c) => t.posts.iter().find(|p| matches!(p.amount.as_ref().map(|a| &a.amount), Some(expr::ValueExpr::Amount(a)) if a.commodity == c.as_str())),
        };
        let got = posting.and_then(|p| if ex.balance { p.balance.as_ref() } else { p.amount.as_ref().map(|a| &a.amount) });
        let got_q = match got {
            Some(expr::ValueExpr::Amount(a)) => Some(Q::from_decimal(a.value.value)),
            _ => None,
        };
        if got_q != Some(ex.value) {
            let what = if ex.balance { "balance" } else { "amount" };
            return Judgement::Bad {
                clause: format!("statement-value-differs-{}", what),
                detail: show(format!(
                    "transaction #{}: the {} of the {} posting must be {} ({}), but the importer built {}\n--- tree built by the importer ---\n{:#?}",
                    ex.txn + 1,
                    what,
                    match &ex.commodity {
                        Some(c) => format!("{}", c),
                        None => (if ex.source { "statement-account" } else { "counter" }).to_string(),
                    },
                    ex.value,
                    ex.why,
                    got_q.map(|q| q.to_string()).unwrap_or_else(|| "nothing".into()),
                    t
                )),
            };
        }
    }

    // ---- re-read ----
    let mut got: Vec<plain::Transaction> = vec![];
    let mut other_kinds: Vec<String> = vec![];
    for item in parse_ledger::<plain::Ident>(&ParseOptions::default(), &text) {
        match item {
            Ok((_, syntax::LedgerEntry::Txn(t))) => got.push(t),
            Ok((_, other)) => {
                let d = format!("{:?}", other);
                other_kinds.push(d.split(|c: char| !c.is_alphanumeric()).next().unwrap_or("").to_string());
            }
            Err(e) => {
                return Judgement::Bad { clause: "reparse-fails".into(), detail: show(format!("okane's parser rejects the printed text after {} transaction(s):\n{}", got.len(), e)) };
            }
        }
    }
    if !other_kinds.is_empty() {
        return Judgement::Bad { clause: format!("extra-entry-{}", other_kinds[0].to_lowercase()), detail: show(format!("the printed text re-reads with entries that are not transactions: {:?}", other_kinds)) };
    }
    if got.len() > trees.len() {
        return Judgement::Bad { clause: "extra-transaction".into(), detail: show(format!("{} transactions were built but the printed text re-reads as {} transactions", trees.len(), got.len())) };
    }
    if got.len() < trees.len() {
        return Judgement::Bad { clause: "missing-transaction".into(), detail: show(format!("{} transactions were built but the printed text re-reads as {} transactions", trees.len(), got.len())) };
    }
    *env.compared.borrow_mut() += trees.len() as u64;
    for (i, (t, g)) in trees.iter().zip(got.iter()).enumerate() {
        if let Some((symptom, what)) = compare_txn(t, g, prec) {
            return Judgement::Bad { clause: symptom, detail: show(format!("transaction #{}: {}\n--- tree built by the importer ---\n{:#?}", i + 1, what, t)) };
        }
    }
    // ---- anchor independence: the plain anchor record is imported and printed the same whatever the other record is ----
    let anchor = r.anchor_txn.map(|i| {
        let chunks: Vec<&str> = text.split("\n\n").filter(|c| !c.trim().is_empty()).collect();
        (format!("{:#?}", trees[i]), if chunks.len() == trees.len() { chunks[i].to_string() } else { String::new() })
    });
    if let (Some((tree_now, text_now)), Some((tree_ref, text_ref))) = (&anchor, anchor_reference) {
        if tree_now != tree_ref {
            return Judgement::Bad { clause: "anchor-record-depends-on-other-record-tree".into(), detail: show(format!("the plain anchor record is imported differently next to this record than next to a plain record\n--- anchor transaction built here ---\n{}\n--- anchor transaction built next to a plain record ---\n{}", tree_now, tree_ref)) };
        }
        if text_now != text_ref {
            return Judgement::Bad { clause: "anchor-record-depends-on-other-record-text".into(), detail: show(format!("the plain anchor record is printed differently next to this record than next to a plain record\n--- here ---\n{}\n--- next to a plain record ---\n{}", text_now, text_ref)) };
        }
    }
    // class: which syntactic features were exercised
    let mut flags: Vec<&str> = vec![];
    let any = |f: &dyn Fn(&plain::Transaction) -> bool| trees.iter().any(|t| f(t));
    if any(&|t| t.code.is_some()) {
        flags.push("code");
    }
    if any(&|t| t.effective_date.is_some()) {
        flags.push("edate");
    }
    if any(&|t| !t.metadata.is_empty()) {
        flags.push("comment");
    }
    if any(&|t| t.posts.iter().any(|p| p.amount.as_ref().map(|a| a.cost.is_some()).unwrap_or(false))) {
        flags.push("rate");
    }
    if any(&|t| t.posts.iter().any(|p| p.balance.is_some())) {
        flags.push("balance");
    }
    if any(&|t| t.posts.len() > 2) {
        flags.push("charge");
    }
    if any(&|t| t.posts.iter().any(|p| p.clear_state == syntax::ClearState::Pending)) {
        flags.push("pending");
    }
    let padded = prec.is_some();
    Judgement::Ok { class: format!("roundtrip-ok/{}/{}{}", r.ext, if flags.is_empty() { "bare".to_string() } else { flags.join("+") }, if padded { "/padded" } else { "" }), anchor }
}

fn configured_precision(prec: Option<u8>, commodity: &str) -> u32 {
    match prec {
        Some(p) if PREC_COMMODITIES.contains(&commodity) => p as u32,
        _ => 0,
    }
}

/// Compares one amount of the tree with the re-read value expression. Returns (symptom suffix, text).
fn compare_amount(what: &str, t: &expr::ValueExpr, g: &expr::ValueExpr, prec: Option<u8>) -> Option<(String, String)> {
    let ta = match t {
        expr::ValueExpr::Amount(a) => a,
        _ => panic!("harness bug: importer trees only hold plain amounts"),
    };
    let ga = match g {
        expr::ValueExpr::Amount(a) => a,
        other => return Some((format!("{}-shape", what), format!("{} {} {:?} re-read as an expression {:?}", what, ta.value, ta.commodity, other))),
    };
    if ta.commodity != ga.commodity {
        return Some((format!("{}-commodity", what), format!("{} commodity {:?} re-read as {:?}", what, ta.commodity, ga.commodity)));
    }
    if ta.value.value != ga.value.value {
        return Some((format!("{}-value", what), format!("{} value {} re-read as {}", what, ta.value.value, ga.value.value)));
    }
    let (ts, gs) = (ta.value.value.scale(), ga.value.value.scale());
    let want = ts.max(configured_precision(prec, &ta.commodity));
    if gs < ts {
        return Some((format!("{}-scale-shrunk", what), format!("{} {} (scale {}) printed with scale {}", what, ta.value.value, ts, gs)));
    }
    if gs > want {
        return Some((format!("{}-scale-beyond-precision", what), format!("{} {} (scale {}, configured precision {:?}) printed with scale {}", what, ta.value.value, ts, prec, gs)));
    }
    if gs < want {
        return Some((format!("{}-not-padded", what), format!("{} {} (scale {}) not padded to the configured precision {}: printed with scale {}", what, ta.value.value, ts, want, gs)));
    }
    None
}

fn compare_txn(t: &plain::Transaction, g: &plain::Transaction, prec: Option<u8>) -> Option<(String, String)> {
    let d = |field: &str, a: String, b: String| Some((format!("reread-differs-{}", field), format!("{}: built {} but re-read {}", field, a, b)));
    if g.posts.len() > t.posts.len() {
        return Some(("extra-posting".into(), format!("built {} postings but re-read {}: {:?}", t.posts.len(), g.posts.len(), g.posts.iter().map(|p| p.account.to_string()).collect::<Vec<_>>())));
    }
    if g.posts.len() < t.posts.len() {
        return Some(("missing-posting".into(), format!("built {} postings but re-read {}: {:?}", t.posts.len(), g.posts.len(), g.posts.iter().map(|p| p.account.to_string()).collect::<Vec<_>>())));
    }
    if t.payee != g.payee {
        return d("payee", format!("{:?}", t.payee), format!("{:?} (code {:?}, metadata {:?}, {} postings)", g.payee, g.code, g.metadata, g.posts.len()));
    }
    if t.code != g.code {
        return d("code", format!("{:?}", t.code), format!("{:?}", g.code));
    }
    if t.date != g.date {
        return d("date", t.date.to_string(), g.date.to_string());
    }
    if t.effective_date != g.effective_date {
        return d("effective-date", format!("{:?}", t.effective_date), format!("{:?}", g.effective_date));
    }
    if t.clear_state != g.clear_state {
        return d("state", format!("{:?}", t.clear_state), format!("{:?}", g.clear_state));
    }
    if t.metadata != g.metadata {
        return d("metadata", format!("{:?}", t.metadata), format!("{:?}", g.metadata));
    }
    for k in 0..t.posts.len() {
        let (tp, gp) = (&t.posts[k], &g.posts[k]);
        let n = k + 1;
        if tp.account.as_ref() as &str != gp.account.as_ref() as &str {
            return d("account", format!("posting {} {:?}", n, tp.account), format!("{:?}", gp.account));
        }
        if tp.clear_state != gp.clear_state {
            return d("posting-state", format!("posting {} {:?}", n, tp.clear_state), format!("{:?}", gp.clear_state));
        }
        match (&tp.amount, &gp.amount) {
            (None, None) => {}
            (Some(ta), Some(ga)) => {
                if let Some((s, w)) = compare_amount("amount", &ta.amount, &ga.amount, prec) {
                    return Some((format!("reread-differs-{}", s), format!("posting {}: {}", n, w)));
                }
                match (&ta.cost, &ga.cost) {
                    (None, None) => {}
                    (Some(syntax::Exchange::Rate(tr)), Some(syntax::Exchange::Rate(gr))) | (Some(syntax::Exchange::Total(tr)), Some(syntax::Exchange::Total(gr))) => {
                        if let Some((s, w)) = compare_amount("rate", tr, gr, prec) {
                            return Some((format!("reread-differs-{}", s), format!("posting {}: {}", n, w)));
                        }
                    }
                    (a, b) => return d("rate", format!("posting {} {:?}", n, a), format!("{:?}", b)),
                }
                if format!("{:?}", ta.lot) != format!("{:?}", ga.lot) {
                    return d("lot", format!("posting {} {:?}", n, ta.lot), format!("{:?}", ga.lot));
                }
            }
            (a, b) => return d("amount", format!("posting {} {:?}", n, a), format!("{:?}", b)),
        }
        match (&tp.balance, &gp.balance) {
            (None, None) => {}
            (Some(tb), Some(gb)) => {
                if let Some((s, w)) = compare_amount("balance", tb, gb, prec) {
                    return Some((format!("reread-differs-{}", s), format!("posting {}: {}", n, w)));
                }
            }
            (a, b) => return d("balance", format!("posting {} {:?}", n, a), format!("{:?}", b)),
        }
        if tp.metadata != gp.metadata {
            return d("posting-metadata", format!("posting {} {:?}", n, tp.metadata), format!("{:?}", gp.metadata));
        }
    }
    None
}

fn is_bad(j: &Judgement) -> bool {
    matches!(j, Judgement::Bad { .. })
}

/// Smallest violating sub-case: all sub-sets of (non-plain fields, precision) in order of size (then
/// in a fixed order), first one that still violates. Deterministic and memoised; the full set violates,
/// so the search always ends. (A greedy one-at-a-time reduction is not enough: removing one field of a
/// record can turn it into one the importer rejects, which hides a smaller violating sub-set.)
fn minimise(env: &Env, si: usize, pi: usize, devs: &Devs) -> (usize, Devs) {
    let (prec_i, swap) = (pi % 3, opt_swap(pi));
    let nd = devs.len();
    let n = nd + if prec_i != 0 { 1 } else { 0 } + if swap { 1 } else { 0 };
    let mut masks: Vec<u32> = (0..(1u32 << n)).collect();
    masks.sort_by_key(|m| (m.count_ones(), *m));
    for m in masks {
        let d: Devs = devs.iter().enumerate().filter(|(i, _)| m & (1 << i) != 0).map(|(_, x)| *x).collect();
        let mut bit = nd;
        let mut p = 0;
        if prec_i != 0 {
            if m & (1 << bit) != 0 {
                p += prec_i;
            }
            bit += 1;
        }
        if swap && m & (1 << bit) != 0 {
            p += 3;
        }
        if is_bad(&judge(env, si, p, &d)) {
            return (p, d);
        }
    }
    panic!("harness bug: the full case must violate");
}

fn cause(shape: &Shape, pi: usize, devs: &Devs) -> String {
    // pure presence toggles (an optional column / element being there or not) are not part of the cause
    let mut parts: Vec<String> = devs
        .iter()
        .map(|(f, a)| (shape.fields[*f as usize].role, shape.fields[*f as usize].alts[*a as usize].label))
        .filter(|(_, l)| *l != "absent" && *l != "present")
        .map(|(r, l)| format!("{}:{}", r, l))
        .collect();
    if parts.is_empty() {
        // nothing but presence toggles: then they are the cause
        parts = devs.iter().map(|(f, a)| format!("{}:{}", shape.fields[*f as usize].role, shape.fields[*f as usize].alts[*a as usize].label)).collect();
    }
    if pi % 3 != 0 {
        parts.push(format!("precision:{}", PRECS[pi % 3].unwrap()));
    }
    if opt_swap(pi) {
        parts.push("order:anchor-first".into());
    }
    if parts.is_empty() {
        "baseline".into()
    } else {
        parts.join("+")
    }
}

fn outcome(env: &Env, si: usize, pi: usize, devs: &Devs) -> Outcome {
    match judge(env, si, pi, devs) {
        Judgement::Rejected(c) => Outcome::dont_care(c),
        Judgement::Ok { class, .. } => Outcome::pass(class),
        Judgement::Bad { clause, detail } => {
            let (mpi, mdevs) = minimise(env, si, pi, devs);
            let shape = &env.shapes[si];
            let (mclause, mdetail) = match judge(env, si, mpi, &mdevs) {
                Judgement::Bad { clause, detail } => (clause, detail),
                _ => panic!("harness bug: minimised case does not violate"),
            };
            let sig = format!("{}/{}", mclause, cause(shape, mpi, &mdevs));
            let det = if mdevs == *devs && mpi == pi {
                detail
            } else {
                format!("this case violates clause `{}`; it reduces to the smallest violating sub-case below (clause `{}`)\n=== minimal case ===\n{}\n=== verdict on the minimal case ===\n{}\n=== verdict on this case ===\n{}", clause, mclause, describe(shape, mpi, &mdevs), mdetail, detail)
            };
            Outcome::violation(sig, det)
        }
    }
}

/// all deviation vectors with exactly k non-plain fields, in lexicographic order
fn for_each_dev(sizes: &[usize], k: usize, f: &mut dyn FnMut(&Devs)) {
    fn rec(sizes: &[usize], start: usize, k: usize, cur: &mut Devs, f: &mut dyn FnMut(&Devs)) {
        if k == 0 {
            f(cur);
            return;
        }
        for fi in start..sizes.len() {
            for a in 1..sizes[fi] {
                cur.push((fi as u8, a as u8));
                rec(sizes, fi + 1, k - 1, cur, f);
                cur.pop();
            }
        }
    }
    let mut cur = vec![];
    rec(sizes, 0, k, &mut cur, f);
}


// ------------------------------------------------------------------------------------------------
// Layout-boundary family: the amount column.
//
// The printer puts the number so that it ends at column 48 and guarantees two blanks after the account;
// whether that guarantee holds depends on (display width of the posting's account incl. a `! ` marker) +
// (width of the printed number, after padding to the configured precision). This family sweeps the display
// width of the configured (source) account and of the rewrite (counter) account over EVERY width 1..=64,
// with ASCII names and with names that start with wide CJK characters, x amount spellings of different
// printed widths x precision x with/without running balance, for one CSV, one Camt053 and one Viseca shape.
// The oracle is the same round trip (tree vs re-read text), so no width function is needed in the harness.

const LAYOUT_MAX_WIDTH: usize = 64;
const SRC_TEMPLATE: &str = "Assets:Bank:Okane:Savings:Joint:Household:Reserve:Emergency:Longterm:Fund";
const DST_TEMPLATE: &str = "Expenses:Household:Utilities:Electricity:Region:North:Plant:Unit:Seven";
/// display width 10 (4 wide characters + 2 colons)
const CJK_PREFIX: &str = "資産:銀行:";
const CJK_PREFIX_WIDTH: usize = 10;
const DEFAULT_SRC: &str = "Assets:Okane Bank";
const DEFAULT_DST: &str = "Expenses:Utilities";

const LAYOUT_CSV_AMOUNTS: &[&str] = &["5", "12.5", "1234.5", "-1234.5", "1,234,567.89"];
const LAYOUT_XML_AMOUNTS: &[&str] = &["5", "12.5", "1234.5", "1234567.89"];
const LAYOUT_VISECA_AMOUNTS: &[&str] = &["5.00", "12.5", "1'234.50", "1'234'567.89"];

/// ASCII account name of exactly `w` columns (no blanks; never ends with a blank).
fn ascii_account(template: &str, w: usize) -> String {
    assert!(w >= 1 && w <= template.len(), "harness bug: layout width out of range");
    template[..w].to_string()
}
/// account name of display width `w` (>= CJK_PREFIX_WIDTH + 1) starting with wide characters
fn cjk_account(template: &str, w: usize) -> String {
    assert!(w > CJK_PREFIX_WIDTH, "harness bug: layout width too small for the CJK prefix");
    format!("{}{}", CJK_PREFIX, &template[..w - CJK_PREFIX_WIDTH])
}

#[derive(Clone, Debug)]
struct LayoutCase {
    importer: &'static str,
    /// which account is swept: "source-account", "counter-account", "counter-account-pending", "both-accounts"
    swept: &'static str,
    cjk: bool,
    src: String,
    dst: String,
    pending: bool,
    amount: &'static str,
    /// camt: debit / viseca: refund
    flip: bool,
    pi: usize,
    balance: bool,
}

fn layout_render(c: &LayoutCase) -> Rendered {
    let prec = PRECS[c.pi];
    let pending = if c.pending { "    pending: true\n" } else { "" };
    match c.importer {
        "csv" => {
            let config = format!(
                "path: \".csv\"\nencoding: UTF-8\naccount: \"{}\"\naccount_type: asset\ncommodity: CHF\nformat:\n  date: \"%Y-%m-%d\"\n  fields:\n    date: 1\n    payee: 2\n    amount: 3\n    balance: 4\n{}rewrite:\n  - matcher:\n      payee: City Power\n    account: \"{}\"\n{}",
                c.src,
                yaml_precisions(prec),
                c.dst,
                pending
            );
            let mut st = csv_row(&["date", "payee", "amount", "balance"], ',');
            st.push_str(&csv_row(&["2024-03-01", "City Power", c.amount, if c.balance { "100" } else { "" }], ','));
            st.push_str(&csv_row(&["2024-03-02", "Migros Grocery", "-20.5", ""], ','));
            Rendered { config, statement: st, ext: "csv", records: 2, expect: vec![], anchor_txn: None, payees: None, dates: vec![], single_commodity: None, converted: None }
        }
        "xml" => {
            let config = format!(
                "path: \".xml\"\nencoding: UTF-8\naccount: \"{}\"\naccount_type: asset\noperator: Okane Bank (fee)\ncommodity: CHF\n{}rewrite:\n  - matcher:\n      creditor_name: '(?s)^(?P<payee>.*)$'\n  - matcher:\n      payee: City Power\n    account: \"{}\"\n{}",
                c.src,
                if prec.is_some() { format!("format:\n{}", yaml_precisions(prec)) } else { String::new() },
                c.dst,
                pending
            );
            let mut e = CamtEntry::plain();
            e.cdtr = Some("City Power");
            e.amt = c.amount;
            e.debit = c.flip;
            let closing = if c.balance { Some("74.5") } else { None };
            let records = 3;
            Rendered { config, statement: camt_doc(&[e, CamtEntry::anchor(0)], Some("100"), closing), ext: "xml", records, expect: vec![], anchor_txn: None, payees: None, dates: vec![], single_commodity: None, converted: None }
        }
        _ => {
            let config = format!(
                "path: \".txt\"\nencoding: UTF-8\naccount: \"{}\"\naccount_type: liability\noperator: Okane Card (fee)\ncommodity: CHF\n{}rewrite:\n  - account: \"{}\"\n{}    matcher:\n    - category: Utilities\n",
                c.src,
                if prec.is_some() { format!("format:\n{}", yaml_precisions(prec)) } else { String::new() },
                c.dst,
                pending
            );
            let st = format!("04.01.24 05.01.24 City Power {}{}\nUtilities\n10.01.24 11.01.24 Migros Grocery 20.50\nGrocery stores\n", c.amount, if c.flip { " -" } else { "" });
            Rendered { config, statement: st, ext: "txt", records: 2, expect: vec![], anchor_txn: None, payees: None, dates: vec![], single_commodity: None, converted: None }
        }
    }
}

/// display width used in descriptions only (the oracle never needs it): wide CJK characters count 2
fn nominal_width(s: &str) -> usize {
    s.chars().map(|ch| if (ch as u32) >= 0x2E80 { 2 } else { 1 }).sum()
}

fn layout_describe(c: &LayoutCase) -> String {
    let r = layout_render(c);
    format!(
        "layout-boundary family: importer {} sweeps {}{} (source account {} columns, counter account {} columns{}), amount {:?}{}, precision {:?}, balance {}\n--- config ---\n{}--- statement (.{}) ---\n{}",
        c.importer,
        c.swept,
        if c.cjk { " with wide CJK characters" } else { "" },
        nominal_width(&c.src),
        nominal_width(&c.dst),
        if c.pending { " + pending marker" } else { "" },
        c.amount,
        if c.flip { " (debit / refund)" } else { "" },
        PRECS[c.pi],
        c.balance,
        r.config,
        r.ext,
        r.statement
    )
}

fn layout_outcome(env: &Env, c: &LayoutCase) -> Outcome {
    let r = layout_render(c);
    let j = match crate::fw::guarded(|| judge_rendered(env, &r, PRECS[c.pi], None)) {
        Ok(j) => j,
        Err(sig) if sig.contains("harness bug") => panic!("{}", sig),
        Err(sig) => Judgement::Bad { clause: format!("crash/{}", sig), detail: "panic while importing this statement".into() },
    };
    match j {
        Judgement::Rejected(cl) => Outcome::dont_care(format!("layout/{}", cl)),
        Judgement::Ok { class, .. } => Outcome::pass(format!("layout/{}/{}{}", class, c.swept, if c.cjk { "-cjk" } else { "" })),
        Judgement::Bad { clause, detail } => Outcome::violation(format!("{}/layout:{}", clause, c.swept), detail),
    }
}

/// All cases of the family, in a fixed order.
fn layout_cases(thorough: bool) -> Vec<LayoutCase> {
    let mut v = vec![];
    // (swept, cjk, src, dst, pending)
    let mut accounts: Vec<(&'static str, bool, String, String, bool)> = vec![];
    for w in 1..=LAYOUT_MAX_WIDTH {
        accounts.push(("source-account", false, ascii_account(SRC_TEMPLATE, w), DEFAULT_DST.to_string(), false));
    }
    for w in 1..=LAYOUT_MAX_WIDTH {
        accounts.push(("counter-account", false, DEFAULT_SRC.to_string(), ascii_account(DST_TEMPLATE, w), false));
    }
    for w in 1..=LAYOUT_MAX_WIDTH {
        accounts.push(("counter-account-pending", false, DEFAULT_SRC.to_string(), ascii_account(DST_TEMPLATE, w), true));
    }
    let n_ascii = accounts.len();
    for w in CJK_PREFIX_WIDTH + 1..=LAYOUT_MAX_WIDTH {
        accounts.push(("source-account", true, cjk_account(SRC_TEMPLATE, w), DEFAULT_DST.to_string(), false));
    }
    for w in CJK_PREFIX_WIDTH + 1..=LAYOUT_MAX_WIDTH {
        accounts.push(("counter-account", true, DEFAULT_SRC.to_string(), cjk_account(DST_TEMPLATE, w), false));
    }
    for w in CJK_PREFIX_WIDTH + 1..=LAYOUT_MAX_WIDTH {
        accounts.push(("counter-account-pending", true, DEFAULT_SRC.to_string(), cjk_account(DST_TEMPLATE, w), true));
    }
    // CSV: ASCII + CJK accounts x amounts x precision x balance
    for (swept, cjk, src, dst, pending) in &accounts {
        for amount in LAYOUT_CSV_AMOUNTS {
            for pi in 0..PRECS.len() {
                for balance in [false, true] {
                    v.push(LayoutCase { importer: "csv", swept, cjk: *cjk, src: src.clone(), dst: dst.clone(), pending: *pending, amount, flip: false, pi, balance });
                }
            }
        }
    }
    // Camt053 and Viseca: ASCII accounts x amounts x sign x precision (camt: with the closing balance on the last entry)
    for (importer, amounts) in [("xml", LAYOUT_XML_AMOUNTS), ("txt", LAYOUT_VISECA_AMOUNTS)] {
        for (swept, cjk, src, dst, pending) in &accounts[..n_ascii] {
            for amount in amounts {
                for flip in [false, true] {
                    for pi in 0..PRECS.len() {
                        v.push(LayoutCase { importer, swept, cjk: *cjk, src: src.clone(), dst: dst.clone(), pending: *pending, amount, flip, pi, balance: importer == "xml" });
                    }
                }
            }
        }
    }
    // thorough: the full product of both widths for CSV
    if thorough {
        for ws in 1..=LAYOUT_MAX_WIDTH {
            for wd in 1..=LAYOUT_MAX_WIDTH {
                for amount in LAYOUT_CSV_AMOUNTS {
                    for pi in 0..PRECS.len() {
                        v.push(LayoutCase { importer: "csv", swept: "both-accounts", cjk: false, src: ascii_account(SRC_TEMPLATE, ws), dst: ascii_account(DST_TEMPLATE, wd), pending: false, amount, flip: false, pi, balance: false });
                    }
                }
            }
        }
    }
    v
}


// ------------------------------------------------------------------------------------------------
// Multi-statement Camt053 documents: 0..=3 `Stmt` elements and 0..=N plain entries distributed over them in
// every way (N = 4 quick, 5 thorough), each statement with a closing balance and with/without an opening
// balance. One transaction per entry (plus one opening-balance transaction per non-empty statement that has an
// opening balance), in document order; same round-trip oracle.

#[derive(Clone, Debug)]
struct MultiStmtCase {
    stmts: usize,
    /// statement index of every entry (entries keep their document order inside a statement)
    assign: Vec<usize>,
    opening: bool,
    pi: usize,
}

fn multi_stmt_cases(max_entries: usize) -> Vec<MultiStmtCase> {
    let mut v = vec![];
    for stmts in 0..=3usize {
        for n in 0..=max_entries {
            if stmts == 0 && n > 0 {
                continue;
            }
            let combos = if n == 0 { 1 } else { stmts.pow(n as u32) };
            for code in 0..combos {
                let mut assign = vec![];
                let mut x = code;
                for _ in 0..n {
                    assign.push(x % stmts.max(1));
                    x /= stmts.max(1);
                }
                for opening in [true, false] {
                    for pi in 0..2 {
                        v.push(MultiStmtCase { stmts, assign: assign.clone(), opening, pi });
                    }
                }
            }
        }
    }
    v
}

fn multi_stmt_render(c: &MultiStmtCase) -> Rendered {
    let prec = PRECS[c.pi];
    let n = c.assign.len();
    let refs: Vec<String> = (0..n).map(|j| format!("20240101/{}/1", j + 1)).collect();
    let names: Vec<String> = (0..n).map(|j| format!("Shop {}", j + 1)).collect();
    let amounts: Vec<String> = (0..n).map(|j| format!("{}.5", j + 1)).collect();
    let days: Vec<String> = (0..n).map(|j| format!("2024-01-{:02}", j + 2)).collect();
    let closings: Vec<String> = (0..c.stmts).map(|s| format!("9{}.5", s)).collect();
    let mut per_stmt: Vec<Vec<CamtEntry>> = vec![vec![]; c.stmts];
    let mut payees: Vec<Vec<String>> = vec![vec![]; c.stmts];
    for j in 0..n {
        let mut e = CamtEntry::plain();
        e.refr = Some(&refs[j]);
        e.cdtr = Some(&names[j]);
        e.amt = &amounts[j];
        e.day = &days[j];
        e.booked = &days[j];
        per_stmt[c.assign[j]].push(e);
        payees[c.assign[j]].push(names[j].clone());
    }
    let mut want: Vec<String> = vec![];
    for s in 0..c.stmts {
        if c.opening && !payees[s].is_empty() {
            want.push("Initial Balance".into());
        }
        want.extend(payees[s].iter().cloned());
    }
    let stmts: Vec<(&[CamtEntry], Option<&str>, Option<&str>)> = (0..c.stmts).map(|s| (per_stmt[s].as_slice(), if c.opening { Some("100") } else { None }, Some(closings[s].as_str()))).collect();
    Rendered { config: camt_config(prec, "creditor_name", "Okane Bank (fee)"), statement: camt_multi_doc(&stmts), ext: "xml", records: want.len(), expect: vec![], anchor_txn: None, payees: Some(want), dates: vec![], single_commodity: None, converted: None }
}

fn multi_stmt_describe(c: &MultiStmtCase) -> String {
    let r = multi_stmt_render(c);
    format!("multi-statement Camt053 document: {} statements, {} entries assigned to statements {:?}, opening balance {}, precision {:?}\n--- config ---\n{}--- statement (.xml) ---\n{}", c.stmts, c.assign.len(), c.assign, c.opening, PRECS[c.pi], r.config, r.statement)
}

fn multi_stmt_outcome(env: &Env, c: &MultiStmtCase) -> Outcome {
    let r = multi_stmt_render(c);
    let j = match crate::fw::guarded(|| judge_rendered(env, &r, PRECS[c.pi], None)) {
        Ok(j) => j,
        Err(sig) if sig.contains("harness bug") => panic!("{}", sig),
        Err(sig) => Judgement::Bad { clause: format!("crash/{}", sig), detail: "panic while importing this statement".into() },
    };
    let used = {
        let mut u: Vec<usize> = c.assign.clone();
        u.sort();
        u.dedup();
        u.len()
    };
    match j {
        Judgement::Rejected(cl) => Outcome::dont_care(format!("multi-statement/{}/{}-statements", cl, c.stmts)),
        Judgement::Ok { class, .. } => Outcome::pass(format!("multi-statement/{}-statements/{}-non-empty/{}", c.stmts, used, if r.records == 0 { "no-transaction".to_string() } else { class })),
        Judgement::Bad { clause, detail } => Outcome::violation(format!("{}/camt-multi-statement", clause), detail),
    }
}


// ------------------------------------------------------------------------------------------------
// Date family: record dates around New Year and the end of February.
//
// Every day from 25 December to 7 January across 8 year boundaries (2018/19 .. 2025/26: 1 January falls on
// every day of the week), 28/29 February and 1 March of 2020, 2023, 2024; for Camt053 (value date / booking
// date) and Viseca (date / second date) combined with an effective date 0, 1, 3 or 7 days later (crossing the
// year or the month). The built tree must carry the statement's dates and the printed text must read back to it.

#[derive(Clone, Debug)]
struct DateCase {
    importer: &'static str,
    date: NaiveDate,
    /// effective date = date + offset days (0: none)
    offset: i64,
    /// Camt053 only: how the entry is booked — "single-detail" (one TxDtls), "entry-only" (no NtryDtls: booked as a
    /// whole), "batch" (two TxDtls: two transactions with the dates of the entry)
    structure: &'static str,
    /// Camt053 only: the entry has no `ValDt`; `date` is then its booking date, the only date of the record
    no_value_date: bool,
}

fn date_cases() -> Vec<DateCase> {
    let mut days: Vec<NaiveDate> = vec![];
    for y in 2018..=2025 {
        for d in 25..=31 {
            days.push(NaiveDate::from_ymd_opt(y, 12, d).unwrap());
        }
        for d in 1..=7 {
            days.push(NaiveDate::from_ymd_opt(y + 1, 1, d).unwrap());
        }
    }
    for (y, m, d) in [(2020, 2, 28), (2020, 2, 29), (2020, 3, 1), (2023, 2, 28), (2023, 3, 1), (2024, 2, 28), (2024, 2, 29), (2024, 3, 1)] {
        days.push(NaiveDate::from_ymd_opt(y, m, d).unwrap());
    }
    let mut v = vec![];
    for d in &days {
        v.push(DateCase { importer: "csv", date: *d, offset: 0, structure: "single-detail", no_value_date: false });
    }
    for importer in ["xml", "txt"] {
        for d in &days {
            for offset in [0i64, 1, 3, 7] {
                v.push(DateCase { importer, date: *d, offset, structure: "single-detail", no_value_date: false });
            }
        }
    }
    // appended (the indices of the cases above do not move): the other ways a Camt053 entry is booked, and entries
    // without a value date
    for structure in ["entry-only", "batch"] {
        for d in &days {
            for offset in [0i64, 1, 3, 7] {
                v.push(DateCase { importer: "xml", date: *d, offset, structure, no_value_date: false });
            }
        }
    }
    for structure in ["single-detail", "entry-only", "batch"] {
        for d in &days {
            v.push(DateCase { importer: "xml", date: *d, offset: 0, structure, no_value_date: true });
        }
    }
    v
}

fn date_render(c: &DateCase) -> Rendered {
    let later = c.date + chrono::Duration::days(c.offset);
    let edate = if c.offset == 0 { None } else { Some(later) };
    match c.importer {
        "csv" => {
            let config = "path: \".csv\"\nencoding: UTF-8\naccount: \"Assets:Okane Bank\"\naccount_type: asset\ncommodity: CHF\nformat:\n  date: \"%Y-%m-%d\"\n  fields:\n    date: 1\n    payee: 2\n    amount: 3\nrewrite:\n  - matcher:\n      payee: Grocery\n    account: Expenses:Grocery\n".to_string();
            let mut st = csv_row(&["date", "payee", "amount"], ',');
            st.push_str(&csv_row(&[&c.date.format("%Y-%m-%d").to_string(), "Coffee Shop", "-5"], ','));
            st.push_str(&csv_row(&["2024-03-02", "Migros Grocery", "-20.5"], ','));
            Rendered { config, statement: st, ext: "csv", records: 2, expect: vec![], anchor_txn: None, payees: None, dates: vec![(0, c.date, None)], single_commodity: None, converted: None }
        }
        "xml" => {
            let (day, booked) = (c.date.format("%Y-%m-%d").to_string(), later.format("%Y-%m-%d").to_string());
            let batch: Vec<(String, String, bool)> = vec![("20240301/1/1".to_string(), "2".to_string(), true), ("20240301/1/2".to_string(), "3".to_string(), true)];
            let mut e = CamtEntry::plain();
            e.day = &day;
            e.booked = &booked;
            e.no_valdt = c.no_value_date;
            let mut dates = vec![(1, c.date, edate)];
            match c.structure {
                "entry-only" => e.txdtls = false,
                "batch" => {
                    e.batch = &batch;
                    dates.push((2, c.date, edate));
                }
                _ => {}
            }
            let records = 2 + dates.len();
            Rendered { config: camt_config(None, "creditor_name", "Okane Bank (fee)"), statement: camt_doc(&[e, CamtEntry::anchor(0)], Some("100"), Some("74.5")), ext: "xml", records, expect: vec![], anchor_txn: None, payees: None, dates, single_commodity: None, converted: None }
        }
        _ => {
            let st = format!("{} {} Coffee Shop 5.00\nRestaurants\n{}", c.date.format("%d.%m.%y"), later.format("%d.%m.%y"), VISECA_ANCHOR);
            Rendered { config: viseca_config(None, "Okane Card (fee)"), statement: st, ext: "txt", records: 2, expect: vec![], anchor_txn: None, payees: None, dates: vec![(0, c.date, edate)], single_commodity: None, converted: None }
        }
    }
}

fn date_describe(c: &DateCase) -> String {
    let r = date_render(c);
    format!("date family: importer {} record date {} ({:?}), effective date {} days later{}{}\n--- config ---\n{}--- statement (.{}) ---\n{}", c.importer, c.date, c.date.weekday(), c.offset, if c.importer == "xml" { format!(", entry booked as {}", c.structure) } else { String::new() }, if c.no_value_date { ", no ValDt (the date is the booking date)" } else { "" }, r.config, r.ext, r.statement)
}

fn date_outcome(env: &Env, c: &DateCase) -> Outcome {
    let r = date_render(c);
    let j = match crate::fw::guarded(|| judge_rendered(env, &r, None, None)) {
        Ok(j) => j,
        Err(sig) if sig.contains("harness bug") => panic!("{}", sig),
        Err(sig) => Judgement::Bad { clause: format!("crash/{}", sig), detail: "panic while importing this statement".into() },
    };
    let later = c.date + chrono::Duration::days(c.offset);
    let kind = if c.date.iso_week().year() != c.date.year() || later.iso_week().year() != later.year() {
        "iso-week-year-differs"
    } else if later.year() != c.date.year() {
        "crosses-year"
    } else if c.date.month() == 2 && c.date.day() == 29 {
        "leap-day"
    } else {
        "ordinary"
    };
    // how the Camt053 entry is booked (nothing for the original single-detail entries with a value date)
    let booked_as = format!("{}{}", if c.structure == "single-detail" { String::new() } else { format!("+{}", c.structure) }, if c.no_value_date { "+no-value-date" } else { "" });
    match j {
        Judgement::Rejected(cl) => Outcome::dont_care(format!("dates/{}", cl)),
        Judgement::Ok { .. } => Outcome::pass(format!("dates/roundtrip-ok/{}/{}{}{}", c.importer, kind, if c.offset != 0 { "/edate" } else { "" }, booked_as.replace('+', "/"))),
        Judgement::Bad { clause, detail } => Outcome::violation(format!("{}/date:{}{}", clause, kind, booked_as), detail),
    }
}


// ------------------------------------------------------------------------------------------------
// Camt053 `DtTm` dates and batch entries (both need a reference that is independent of the built tree).
//
// DtTm: booking and / or value date written as RFC 3339 date-times with offsets -12:00 ..= +14:00 (every hour, plus
// +05:30, +05:45, -03:30) at the local times 00:00, 00:30, 12:00, 23:30. The date of the record is the calendar date
// at the statement's own offset (value date 2024-03-01, booking date 2024-03-02, or both 2024-03-01).
// Batch: one entry (DBIT or CRDT) with 1..=3 TxDtls whose own indicators take every combination; each detail is one
// transaction whose sign is decided by the detail's own indicator.

#[derive(Clone, Debug)]
enum CamtRefCase {
    /// (offset in minutes, local time "HH:MM", which: 0 booking DtTm, 1 value DtTm, 2 both, entry booked as a whole
    /// i.e. without NtryDtls)
    DtTm(i32, &'static str, u8, bool),
    /// (entry is debit, indicator (debit) of each detail, precision index)
    Batch(bool, Vec<bool>, usize),
}

fn camt_ref_cases() -> Vec<CamtRefCase> {
    let mut v = vec![];
    let mut offsets: Vec<i32> = (-12..=14).map(|h| h * 60).collect();
    offsets.extend([330, 345, -210]);
    for off in &offsets {
        for time in ["00:00", "00:30", "12:00", "23:30"] {
            for which in 0..3u8 {
                v.push(CamtRefCase::DtTm(*off, time, which, false));
            }
        }
    }
    for entry_debit in [true, false] {
        for n in 1..=3usize {
            for code in 0..(1u32 << n) {
                let inds: Vec<bool> = (0..n).map(|i| code & (1 << i) != 0).collect();
                for pi in 0..2 {
                    v.push(CamtRefCase::Batch(entry_debit, inds.clone(), pi));
                }
            }
        }
    }
    // appended: the same date-times on an entry booked as a whole (no NtryDtls)
    for off in &offsets {
        for time in ["00:00", "00:30", "12:00", "23:30"] {
            for which in 0..3u8 {
                v.push(CamtRefCase::DtTm(*off, time, which, true));
            }
        }
    }
    v
}

fn camt_ref_render(c: &CamtRefCase) -> Rendered {
    match c {
        CamtRefCase::DtTm(off, time, which, entry_only) => {
            let sign = if *off < 0 { '-' } else { '+' };
            let o = format!("{}{:02}:{:02}", sign, off.abs() / 60, off.abs() % 60);
            let value_local = NaiveDate::from_ymd_opt(2024, 3, 1).unwrap();
            let booked_local = if *which == 2 { value_local } else { NaiveDate::from_ymd_opt(2024, 3, 2).unwrap() };
            let day = if *which >= 1 { format!("{}T{}:00{}", value_local, time, o) } else { value_local.to_string() };
            let booked = if *which != 1 { format!("{}T{}:00{}", booked_local, time, o) } else { booked_local.to_string() };
            let mut e = CamtEntry::plain();
            e.day = &day;
            e.booked = &booked;
            e.day_dttm = *which >= 1;
            e.booked_dttm = *which != 1;
            e.txdtls = !*entry_only;
            let edate = if booked_local != value_local { Some(booked_local) } else { None };
            Rendered { config: camt_config(None, "creditor_name", "Okane Bank (fee)"), statement: camt_doc(&[e, CamtEntry::anchor(0)], Some("100"), Some("74.5")), ext: "xml", records: 3, expect: vec![], anchor_txn: None, payees: None, dates: vec![(1, value_local, edate)], single_commodity: None, converted: None }
        }
        CamtRefCase::Batch(entry_debit, inds, pi) => {
            let amounts = ["10.00", "30.00", "5.5"];
            let batch: Vec<(String, String, bool)> = inds.iter().enumerate().map(|(k, d)| (format!("20240301/1/{}", k + 1), amounts[k].to_string(), *d)).collect();
            let mut net = Q::ZERO;
            let mut expect = vec![];
            for (k, (_, a, d)) in batch.iter().enumerate() {
                let q = Q::parse(a);
                let signed = if *d { q.neg() } else { q };
                net = net.add(signed);
                let why = format!("detail {} of the batch: {} {}", k + 1, if *d { "DBIT" } else { "CRDT" }, a);
                expect.push(Expect { txn: 1 + k, source: true, balance: false, commodity: None, value: signed, why: why.clone() });
                expect.push(Expect { txn: 1 + k, source: false, balance: false, commodity: None, value: signed.neg(), why: format!("counter posting of {}", why) });
            }
            let total = format!("{}", net.abs());
            let mut e = CamtEntry::plain();
            e.amt = &total;
            e.debit = *entry_debit;
            e.batch = &batch;
            let records = 2 + batch.len();
            Rendered { config: camt_config(PRECS[*pi], "creditor_name", "Okane Bank (fee)"), statement: camt_doc(&[e, CamtEntry::anchor(0)], Some("100"), Some("74.5")), ext: "xml", records, expect, anchor_txn: None, payees: None, dates: vec![], single_commodity: None, converted: None }
        }
    }
}

fn camt_ref_describe(c: &CamtRefCase) -> String {
    let r = camt_ref_render(c);
    format!("camt reference family: {:?}\n--- config ---\n{}--- statement (.xml) ---\n{}", c, r.config, r.statement)
}

fn camt_ref_outcome(env: &Env, c: &CamtRefCase) -> Outcome {
    let r = camt_ref_render(c);
    let prec = match c {
        CamtRefCase::Batch(_, _, pi) => PRECS[*pi],
        _ => None,
    };
    let j = match crate::fw::guarded(|| judge_rendered(env, &r, prec, None)) {
        Ok(j) => j,
        Err(sig) if sig.contains("harness bug") => panic!("{}", sig),
        Err(sig) => Judgement::Bad { clause: format!("crash/{}", sig), detail: "panic while importing this statement".into() },
    };
    let (family, kind) = match c {
        CamtRefCase::DtTm(off, _, which, entry_only) => ("camt-dttm", format!("{}/{}{}", ["booking", "value", "both"][*which as usize], if *off == 0 { "utc" } else if *off < 0 { "west" } else { "east" }, if *entry_only { "/entry-only" } else { "" })),
        CamtRefCase::Batch(e, inds, _) => ("camt-batch", if inds.iter().all(|d| d == e) { "same-indicator".to_string() } else if inds.iter().all(|d| d != e) { "opposite-indicator".to_string() } else { "mixed-indicators".to_string() }),
    };
    match j {
        Judgement::Rejected(cl) => Outcome::dont_care(format!("{}/{}", family, cl)),
        Judgement::Ok { .. } => Outcome::pass(format!("{}/roundtrip-ok/{}", family, kind)),
        Judgement::Bad { clause, detail } => Outcome::violation(format!("{}/{}:{}", clause, family, kind.replace('/', "-")), detail),
    }
}

// ------------------------------------------------------------------------------------------------
// Conversion-configuration product (csv-multi): which conversion applies to a row is decided by the rewrite rule that
// matches it, by the account-wide `commodity.conversion`, by `disabled` on either, and by which of the rate /
// secondary amount / secondary commodity cells the row fills. The record cases only reach <= d of these at a time;
// this family takes EVERY combination of
//   account-wide conversion (7: four modes, disabled, disabled with other modes, key left out)
//   x rule conversion (8: none, four modes, disabled, disabled with other modes, commodity override)
//   x rate cell {filled, empty} x secondary amount cell {filled, empty} x secondary commodity cell {filled, empty}
//   x charge {none, present} x amount sign {credit, debit} x precision {none, 2}
// as a csv-multi record (same rendering, same reference, same minimisation as the record cases).

fn conversion_product(shape: &Shape) -> Vec<(usize, Devs)> {
    let field = |name: &str| shape.fields.iter().position(|f| f.name == name).unwrap_or_else(|| panic!("harness bug: csv-multi has no field {}", name));
    let alt_of = |f: usize, label: &str| shape.fields[f].alts.iter().position(|a| a.label == label).unwrap_or_else(|| panic!("harness bug: field {} has no alternative {}", shape.fields[f].name, label));
    let all = |f: usize| (0..shape.fields[f].alts.len()).collect::<Vec<usize>>();
    let mut dims: Vec<(usize, Vec<usize>)> = vec![
        (field("conversion"), all(field("conversion"))),
        (field("rule-conversion"), all(field("rule-conversion"))),
        (field("rate"), vec![0, alt_of(field("rate"), "absent")]),
        (field("secondary_amount"), vec![0, alt_of(field("secondary_amount"), "absent")]),
        (field("secondary_commodity"), vec![0, alt_of(field("secondary_commodity"), "empty")]),
        (field("charge"), vec![0, alt_of(field("charge"), "present")]),
        (field("amount"), vec![0, alt_of(field("amount"), "negative")]),
    ];
    // deviations are kept sorted by field index
    dims.sort_by_key(|(f, _)| *f);
    let total: usize = dims.iter().map(|(_, a)| a.len()).product();
    let mut v = vec![];
    for code in 0..total {
        let mut x = code;
        let mut devs: Devs = vec![];
        for (f, alts) in &dims {
            let a = alts[x % alts.len()];
            x /= alts.len();
            if a != 0 {
                devs.push((*f as u8, a as u8));
            }
        }
        for pi in 0..2 {
            v.push((pi, devs.clone()));
        }
    }
    v
}

fn conversion_outcome(env: &Env, si: usize, pi: usize, devs: &Devs) -> Outcome {
    let shape = &env.shapes[si];
    let r = render(shape, opt_prec(pi), &values(shape, devs), opt_swap(pi));
    let kind = if r.single_commodity.is_some() {
        "switched-off"
    } else if r.converted.is_some() {
        "converted"
    } else {
        "not-judged"
    };
    let mut o = outcome(env, si, pi, devs);
    if !matches!(o.verdict, crate::fw::Verdict::Violation { .. }) {
        o.class = format!("conversion-product/{}/{}", kind, o.class);
    }
    o
}

fn run(ctx: &mut Ctx) {
    let env = Env { shapes: shapes(), dir: oka::scratch_dir("c15"), memo: RefCell::new(HashMap::new()), last_config: RefCell::new(String::new()), runs: RefCell::new(0), compared: RefCell::new(0) };
    let maxdev = ctx.tier.pick(2usize, 3usize);
    ctx.fact("max_non_plain_fields", maxdev as u64);
    ctx.fact("shapes", env.shapes.len() as u64);
    ctx.fact("text_alphabet", (TEXT_KINDS.len() + 1) as u64);
    for k in 0..=maxdev {
        for si in 0..env.shapes.len() {
            let sizes: Vec<usize> = env.shapes[si].fields.iter().map(|f| f.alts.len()).collect();
            for pi in 0..PRECS.len() {
                let mut list: Vec<Devs> = vec![];
                for_each_dev(&sizes, k, &mut |d| list.push(d.clone()));
                for devs in &list {
                    if !ctx.next_is_mine() {
                        ctx.skip_cases(1);
                        continue;
                    }
                    let (r0, c0) = (*env.runs.borrow(), *env.compared.borrow());
                    ctx.case(|| describe(&env.shapes[si], pi, devs), || outcome(&env, si, pi, devs));
                    let (r1, c1) = (*env.runs.borrow(), *env.compared.borrow());
                    ctx.count("states", r1 - r0);
                    ctx.count("transitions", c1 - c0);
                }
            }
        }
    }
    // ---- layout-boundary family (appended, so the indices of the cases above do not move) ----
    let layout = layout_cases(ctx.tier == crate::fw::Tier::Thorough);
    ctx.fact("layout_cases", layout.len() as u64);
    ctx.fact("layout_max_account_width", LAYOUT_MAX_WIDTH as u64);
    for c in &layout {
        if !ctx.next_is_mine() {
            ctx.skip_cases(1);
            continue;
        }
        let (r0, c0) = (*env.runs.borrow(), *env.compared.borrow());
        ctx.case(|| layout_describe(c), || layout_outcome(&env, c));
        let (r1, c1) = (*env.runs.borrow(), *env.compared.borrow());
        ctx.count("states", r1 - r0);
        ctx.count("transitions", c1 - c0);
    }
    // ---- swapped record order (anchor record imported first): all records with one non-plain field less ----
    let mut swapped = 0u64;
    for k in 0..maxdev {
        for si in 0..env.shapes.len() {
            let sizes: Vec<usize> = env.shapes[si].fields.iter().map(|f| f.alts.len()).collect();
            let mut list: Vec<Devs> = vec![];
            for_each_dev(&sizes, k, &mut |d| list.push(d.clone()));
            for pi in PRECS.len()..2 * PRECS.len() {
                for devs in &list {
                    swapped += 1;
                    if !ctx.next_is_mine() {
                        ctx.skip_cases(1);
                        continue;
                    }
                    let (r0, c0) = (*env.runs.borrow(), *env.compared.borrow());
                    ctx.case(|| describe(&env.shapes[si], pi, devs), || outcome(&env, si, pi, devs));
                    let (r1, c1) = (*env.runs.borrow(), *env.compared.borrow());
                    ctx.count("states", r1 - r0);
                    ctx.count("transitions", c1 - c0);
                }
            }
        }
    }
    ctx.fact("swapped_order_cases", swapped);
    // ---- multi-statement Camt053 documents ----
    let multi = multi_stmt_cases(ctx.tier.pick(4usize, 5usize));
    ctx.fact("multi_statement_cases", multi.len() as u64);
    for c in &multi {
        if !ctx.next_is_mine() {
            ctx.skip_cases(1);
            continue;
        }
        let (r0, c0) = (*env.runs.borrow(), *env.compared.borrow());
        ctx.case(|| multi_stmt_describe(c), || multi_stmt_outcome(&env, c));
        let (r1, c1) = (*env.runs.borrow(), *env.compared.borrow());
        ctx.count("states", r1 - r0);
        ctx.count("transitions", c1 - c0);
    }
    // ---- date family ----
    let dates = date_cases();
    ctx.fact("date_cases", dates.len() as u64);
    for c in &dates {
        if !ctx.next_is_mine() {
            ctx.skip_cases(1);
            continue;
        }
        let (r0, c0) = (*env.runs.borrow(), *env.compared.borrow());
        ctx.case(|| date_describe(c), || date_outcome(&env, c));
        if c.importer == "xml" {
            ctx.count(&format!("date_cases_camt/{}{}", c.structure, if c.no_value_date { "/no-value-date" } else { "" }), 1);
        }
        let (r1, c1) = (*env.runs.borrow(), *env.compared.borrow());
        ctx.count("states", r1 - r0);
        ctx.count("transitions", c1 - c0);
    }
    // ---- Camt053 DtTm dates and batch entries ----
    let camt_ref = camt_ref_cases();
    ctx.fact("camt_dttm_and_batch_cases", camt_ref.len() as u64);
    for c in &camt_ref {
        if !ctx.next_is_mine() {
            ctx.skip_cases(1);
            continue;
        }
        let (r0, c0) = (*env.runs.borrow(), *env.compared.borrow());
        ctx.case(|| camt_ref_describe(c), || camt_ref_outcome(&env, c));
        let (r1, c1) = (*env.runs.borrow(), *env.compared.borrow());
        ctx.count("states", r1 - r0);
        ctx.count("transitions", c1 - c0);
    }
    // ---- conversion-configuration product (csv-multi) ----
    let multi_si = env.shapes.iter().position(|s| s.kind == Kind::CsvMulti).expect("harness bug: no csv-multi shape");
    let conv = conversion_product(&env.shapes[multi_si]);
    ctx.fact("conversion_product_cases", conv.len() as u64);
    for (pi, devs) in &conv {
        if !ctx.next_is_mine() {
            ctx.skip_cases(1);
            continue;
        }
        let (r0, c0) = (*env.runs.borrow(), *env.compared.borrow());
        let seen: RefCell<Option<String>> = RefCell::new(None);
        ctx.case(
            || format!("conversion-configuration product: {}", describe(&env.shapes[multi_si], *pi, devs)),
            || {
                let o = conversion_outcome(&env, multi_si, *pi, devs);
                // evidence of non-vacuity: expectation kind x what okane did
                let mut parts = o.class.split('/');
                let (a, b, c) = (parts.next().unwrap_or(""), parts.next().unwrap_or(""), parts.next().unwrap_or(""));
                *seen.borrow_mut() = Some(if a == "conversion-product" { format!("conversion_product/{}/{}", b, c) } else { "conversion_product/violation".to_string() });
                o
            },
        );
        if let Some(k) = seen.into_inner() {
            ctx.count(&k, 1);
        }
        let (r1, c1) = (*env.runs.borrow(), *env.compared.borrow());
        ctx.count("states", r1 - r0);
        ctx.count("transitions", c1 - c0);
    }
}
