//! C08 — value expressions evaluate as ordinary arithmetic with commodity typing.

use std::rc::Rc;

use okane_core::report::query::EvalContext;

use crate::fw::{CheckDef, Ctx, Outcome, Tier};
use crate::oka;
use crate::q::{qmap_show, QMap, Q};

pub const DEF: CheckDef = CheckDef {
    id: "C08",
    run,
    technique: "exhaustive enumeration of all expression trees up to an operator bound (x spellings x syntactic contexts), printed with minimal parentheses so that the real parser's precedence/associativity is exercised, evaluated by the real code and compared with a reference tree evaluator over exact rationals",
    rule: "case = (context, spelling, tree). Trees: all trees with <= 2 binary operators over leaves {0,1,2,3 X,0 X,-1 X,6 X,2 Y} with unary minus on any leaf or on the root of any subtree (quick), plus all trees with exactly 3 operators over 6 leaves with at most one unary minus (thorough). Contexts: Ledger::eval, posting amount, cost @, lot price {}, balance assignment/assertion. Spellings: minimal parentheses (default), fully parenthesised, no blanks around operators, double blanks. states = distinct (context, spelling, tree) inputs; transitions = real evaluations compared with RefExpr. MUST = well-typed tree with a definite value (must evaluate to exactly that commodity map) or an ill-typed one the statement names (number+amount, amount*amount, division by zero, non-zero bare number / >= 2 non-zero commodities where a single amount is required)",
    assumptions: &[
        "DON'T-CARE: number/amount, amount/amount, a bare number as the final result of `eval`, a zero bare number where an amount is required, multi-commodity sums whose extra commodities are all zero, zero or negative cost/lot rates",
        "results of trees containing a division are compared with relative tolerance 1e-20 (28-digit decimal arithmetic), all others exactly",
    ],
    shards: 128,
    hang_s: 20,
    single_worker: false,
};

#[derive(Clone, Debug)]
pub enum T {
    Leaf(&'static str, &'static str),
    Neg(Rc<T>),
    Bin(char, Rc<T>, Rc<T>),
}

#[derive(Clone, Debug, PartialEq)]
pub enum V {
    Num(Q),
    Amt(QMap),
}

#[derive(Debug, PartialEq, Clone)]
pub enum R {
    Val(V),
    Reject(&'static str),
    DontCare(&'static str),
}

fn prec(t: &T) -> u8 {
    match t {
        T::Leaf(..) => 4,
        T::Neg(_) => 3,
        T::Bin('*', ..) | T::Bin('/', ..) => 2,
        T::Bin(..) => 1,
    }
}

#[derive(Clone, Copy, PartialEq, Debug)]
pub enum Spelling {
    Minimal,
    Full,
    NoBlanks,
    DoubleBlanks,
    /// minimal, but a unary minus applied to a negative literal is written `--1 X` instead of `-(-1 X)`
    /// (not derivable from doc/syntax.md: rejection is DON'T-CARE; if it is read, minus must negate)
    StackedMinus,
}

fn leaf_str(v: &str, c: &str) -> String {
    if c.is_empty() {
        v.to_string()
    } else {
        format!("{} {}", v, c)
    }
}

/// Print with minimal parentheses under ordinary precedence (left-assoc).
pub fn show(t: &T, parent: u8, right: bool, sp: Spelling) -> String {
    let p = prec(t);
    let s = match t {
        T::Leaf(v, c) => leaf_str(v, c),
        // okane's unary minus applies to a value-expr: a literal or a parenthesised expression
        T::Neg(x) => match **x {
            T::Leaf(v, _) if !v.starts_with('-') || sp == Spelling::StackedMinus => format!("-{}", show(x, 4, false, sp)),
            _ => format!("-({})", show(x, 0, false, sp)),
        },
        T::Bin(op, l, r) => {
            let (ls, rs) = if sp == Spelling::Full {
                let f = |x: &T| match x {
                    T::Bin(..) => format!("({})", show(x, 0, false, sp)),
                    _ => show(x, 4, false, sp),
                };
                (f(l), f(r))
            } else {
                (show(l, p, false, sp), show(r, p, true, sp))
            };
            match sp {
                // `3-1 X` is the documented spelling of 3 - 1 X (add-expr ::= mul-expr (sp* [+-] sp* mul-expr)*)
                Spelling::NoBlanks => format!("{}{}{}", ls, op, rs),
                Spelling::DoubleBlanks => format!("{}  {}  {}", ls, op, rs),
                _ => format!("{} {} {}", ls, op, rs),
            }
        }
    };
    let need = match t {
        T::Bin(..) => sp != Spelling::Full && (p < parent || (p == parent && right)),
        _ => false,
    };
    if need {
        format!("({})", s)
    } else {
        s
    }
}

pub fn has_div(t: &T) -> bool {
    match t {
        T::Leaf(..) => false,
        T::Neg(x) => has_div(x),
        T::Bin(op, l, r) => *op == '/' || has_div(l) || has_div(r),
    }
}

fn map_vals(m: QMap, f: impl Fn(Q) -> Q) -> QMap {
    m.into_iter().map(|(c, v)| (c, f(v))).collect()
}

/// Reference evaluator (ordinary arithmetic with commodity typing).
pub fn ev(t: &T) -> R {
    match t {
        T::Leaf(v, c) => {
            let d = Q::parse(v);
            if c.is_empty() {
                R::Val(V::Num(d))
            } else {
                R::Val(V::Amt([(c.to_string(), d)].into_iter().collect()))
            }
        }
        T::Neg(x) => match ev(x) {
            R::Val(V::Num(d)) => R::Val(V::Num(d.neg())),
            R::Val(V::Amt(m)) => R::Val(V::Amt(map_vals(m, |v| v.neg()))),
            o => o,
        },
        T::Bin(op, l, r) => {
            let (l, r) = (ev(l), ev(r));
            let (l, r) = match (l, r) {
                (R::Val(l), R::Val(r)) => (l, r),
                (R::Reject(w), _) | (_, R::Reject(w)) => return R::Reject(w),
                (R::DontCare(w), _) | (_, R::DontCare(w)) => return R::DontCare(w),
            };
            match (op, l, r) {
                ('+', V::Num(a), V::Num(b)) => R::Val(V::Num(a.add(b))),
                ('-', V::Num(a), V::Num(b)) => R::Val(V::Num(a.sub(b))),
                ('+', V::Amt(a), V::Amt(b)) => {
                    let mut m = a;
                    for (c, v) in b {
                        crate::q::qmap_add(&mut m, &c, v);
                    }
                    R::Val(V::Amt(m))
                }
                ('-', V::Amt(a), V::Amt(b)) => {
                    let mut m = a;
                    for (c, v) in b {
                        crate::q::qmap_add(&mut m, &c, v.neg());
                    }
                    R::Val(V::Amt(m))
                }
                ('+', ..) | ('-', ..) => R::Reject("number-plus-amount"),
                ('*', V::Num(a), V::Num(b)) => R::Val(V::Num(a.mul(b))),
                ('*', V::Amt(a), V::Num(b)) | ('*', V::Num(b), V::Amt(a)) => R::Val(V::Amt(map_vals(a, |v| v.mul(b)))),
                ('*', ..) => R::Reject("amount-times-amount"),
                ('/', _, V::Num(b)) if b.is_zero() => R::Reject("division-by-zero"),
                // a bare number divided by an amount needs ONE amount as divisor: a sum of two or more (non-zero) commodities there
                // is "a multi-commodity sum where a single amount is required"
                ('/', V::Num(_), V::Amt(m)) if m.values().filter(|v| !v.is_zero()).count() >= 2 => R::Reject("number-divided-by-multi-commodity-sum"),
                ('/', _, V::Amt(_)) => R::DontCare("division-by-amount"),
                ('/', V::Num(a), V::Num(b)) => R::Val(V::Num(a.div(b))),
                ('/', V::Amt(a), V::Num(b)) => R::Val(V::Amt(map_vals(a, |v| v.div(b)))),
                _ => unreachable!(),
            }
        }
    }
}

fn clean(m: &QMap) -> QMap {
    m.iter().filter(|(_, v)| !v.is_zero()).map(|(c, v)| (c.clone(), *v)).collect()
}

/// compare an observed commodity map with the expected one
fn same(exp: &QMap, got_dec: &std::collections::BTreeMap<String, rust_decimal::Decimal>, approx: bool) -> bool {
    let e = clean(exp);
    let g: std::collections::BTreeMap<String, rust_decimal::Decimal> = got_dec.iter().filter(|(_, v)| !v.is_zero()).map(|(c, v)| (c.clone(), *v)).collect();
    if !approx {
        let gq: QMap = g.iter().map(|(c, v)| (c.clone(), Q::from_decimal(*v))).collect();
        return gq == e;
    }
    // approximate: every expected commodity present and close; tiny residues allowed either way
    let keys: std::collections::BTreeSet<&String> = e.keys().chain(g.keys()).collect();
    for k in keys {
        let ev = e.get(k).copied().unwrap_or(Q::ZERO);
        let gv = g.get(k).copied().unwrap_or_default();
        if !ev.approx_eq_decimal(gv, 20) {
            return false;
        }
    }
    true
}

#[derive(Clone, Copy, Debug, PartialEq)]
pub enum Cx {
    Eval,
    Posting,
    Cost,
    Lot,
    Assign,
    Assert,
}

/// What a "single amount required" context demands of a value.
fn single_amount(v: &V) -> Result<Option<(String, Q)>, R> {
    match v {
        V::Num(n) if n.is_zero() => Err(R::DontCare("zero-bare-number-where-amount-required")),
        V::Num(_) => Err(R::Reject("non-zero-bare-number-where-amount-required")),
        V::Amt(m) => {
            let nz: Vec<(&String, &Q)> = m.iter().filter(|(_, v)| !v.is_zero()).collect();
            if nz.len() >= 2 {
                return Err(R::Reject("multi-commodity-where-single-amount-required"));
            }
            if m.len() >= 2 {
                // two commodities were summed and are "kept apart", even though at most one of them is non-zero:
                // still a multi-commodity sum by the letter of the statement (and okane rejects all of these)
                return Err(R::Reject("multi-commodity-with-zero-components-where-single-amount-required"));
            }
            if m.is_empty() {
                return Err(R::DontCare("empty-amount"));
            }
            let (c, v) = m.iter().next().unwrap();
            Ok(Some((c.clone(), *v)))
        }
    }
}

fn wrap_expr(t: &T, sp: Spelling) -> String {
    match t {
        T::Leaf(v, c) => leaf_str(v, c),
        _ => format!("({})", show(t, 0, false, sp)),
    }
}

fn decmap(m: &QMap) -> String {
    qmap_show(m)
}

const PRELUDE_FMT: &str = "commodity X\n  format 1 X\n\ncommodity Y\n  format 1 Y\n\ncommodity W\n  format 1 W\n\n2020/01/01 declare commodities\n  Z  0 X\n  Z  0 Y\n  Z  0 W\n\n";
const PRELUDE_ALIAS: &str = "commodity X\n  format 1.00 X\n  alias xx\n\ncommodity Y\n  note n\n  alias yy\n\ncommodity W\n  ; c\n  alias ww\n\n";
const PRELUDE: &str = "2020/01/01 declare commodities\n  Z  0 X\n  Z  0 Y\n  Z  0 W\n\n";

fn judge(cx: Cx, sp: Spelling, t: &T) -> (String, Outcome) {
    let exp = ev(t);
    let approx = has_div(t);
    let e = wrap_expr(t, sp);
    match cx {
        Cx::Eval => {
            let text = format!("({})", show(t, 0, false, sp));
            let desc = format!("eval {}", text);
            // evaluated twice: with the commodities merely seen, and with every commodity declared with a 0-decimal-place format
            // (an expression's value is its arithmetic value: a display format must not round it)
            let mut out = Outcome::pass("eval/unset");
            for (pn, prelude) in [("", PRELUDE), ("under-0dp-format/", PRELUDE_FMT), ("via-alias/", PRELUDE_ALIAS)] {
                // third pass: every commodity written by its alias (declared after a `format` line): same commodity, same value
                let text = if prelude == PRELUDE_ALIAS { text.replace('X', "xx").replace('Y', "yy").replace('W', "ww") } else { text.clone() };
                let got: Result<std::collections::BTreeMap<String, rust_decimal::Decimal>, String> = oka::with_ledger(&[(oka::ROOT, prelude)], oka::ROOT, None, |r| {
                    let (l, ctx) = r.expect("prelude must load");
                    l.eval(ctx, &text, &EvalContext { date: oka::date(2024, 1, 1), exchange: None }).map(|a| oka::amount_to_decmap(&a)).map_err(|e| format!("{:?}", e))
                });
                out = match (&exp, &got) {
                    (R::DontCare(w), _) => Outcome::dont_care(format!("eval/dontcare/{}", w)),
                    (R::Val(V::Num(_)), _) => Outcome::dont_care("eval/dontcare/bare-number-result"),
                    (R::Reject(w), Ok(v)) => Outcome::violation(format!("eval/{}ill-typed-accepted/{}", pn, w), format!("{} is ill-typed ({}) but evaluated to {:?}", text, w, v)),
                    (R::Reject(w), Err(_)) => Outcome::pass(format!("eval/rejected/{}", w)),
                    (R::Val(V::Amt(m)), Ok(v)) => {
                        if same(m, v, approx) {
                            Outcome::pass("eval/value-ok")
                        } else {
                            Outcome::violation(format!("eval/{}value-differs", pn), format!("{} should be {} but evaluated to {:?}", text, decmap(m), v))
                        }
                    }
                    (R::Val(V::Amt(m)), Err(e)) => Outcome::violation(format!("eval/{}well-typed-rejected", pn), format!("{} should be {} but was rejected: {}", text, decmap(m), e)),
                };
                if matches!(out.verdict, crate::fw::Verdict::Violation { .. }) {
                    break;
                }
            }
            (desc, out)
        }
        Cx::Posting | Cx::Cost | Cx::Lot | Cx::Assign | Cx::Assert => {
            // what the context demands
            let demand: Result<Option<(String, Q)>, R> = match &exp {
                R::Val(v) => single_amount(v),
                other => Err(other.clone()),
            };
            // render
            let (txn, observe_idx, expected_amount): (String, usize, Option<QMap>) = match cx {
                Cx::Posting => (format!("2024/01/01 t\n  A  {}\n  B\n", e), 0, demand.as_ref().ok().and_then(|d| d.clone()).map(|(c, v)| [(c, v)].into_iter().collect())),
                Cx::Cost | Cx::Lot => {
                    let ann = if cx == Cx::Cost { format!("@ {}", e) } else { format!("{{{}}}", e) };
                    // B receives minus (rate x 1 W)
                    (format!("2024/01/01 t\n  A  1 W {}\n  B\n", ann), 1, demand.as_ref().ok().and_then(|d| d.clone()).map(|(c, v)| [(c, v.neg())].into_iter().collect()))
                }
                Cx::Assign => (format!("2024/01/01 t\n  A  = {}\n  B\n", e), 0, demand.as_ref().ok().and_then(|d| d.clone()).map(|(c, v)| [(c, v)].into_iter().collect())),
                Cx::Assert => {
                    // posting amount is the expected value itself, so the assertion `= expr` must hold on a fresh account
                    match demand.as_ref().ok().and_then(|d| d.clone()) {
                        Some((c, v)) if v.decimal_scale().map(|s| s <= 10).unwrap_or(false) => (format!("2024/01/01 t\n  A  {} {}  = {}\n  B\n", v, c, e), 0, Some([(c, v)].into_iter().collect())),
                        _ => (format!("2024/01/01 t\n  A  1 W  = {}\n  B\n", e), 0, None),
                    }
                }
                Cx::Eval => unreachable!(),
            };
            let text = format!("{}{}", PRELUDE, txn);
            let desc = format!("[{:?}]\n{}", cx, txn);
            let got = oka::process_text(&text);
            let name = format!("{:?}", cx).to_lowercase();
            let out = match (&demand, &got) {
                (Err(R::DontCare(w)), _) => Outcome::dont_care(format!("{}/dontcare/{}", name, w)),
                (Err(R::Reject(w)), Ok(_)) => Outcome::violation(format!("{}/ill-typed-accepted/{}", name, w), format!("{} must be rejected ({}), but the ledger was accepted:\n{}", e, w, txn)),
                (Err(R::Reject(w)), Err(_)) => Outcome::pass(format!("{}/rejected/{}", name, w)),
                (Err(R::Val(_)), _) => unreachable!(),
                (Ok(None), _) => unreachable!(),
                (Ok(Some((c, v))), res) => {
                    // contexts with extra rules the statement does not cover
                    if matches!(cx, Cx::Cost | Cx::Lot) && (v.signum() <= 0 || c == "W") {
                        return (desc, Outcome::dont_care(format!("{}/dontcare/zero-or-negative-rate", name)));
                    }
                    if cx == Cx::Assert && expected_amount.is_none() {
                        return (desc, Outcome::dont_care("assert/dontcare/non-terminating-value"));
                    }
                    match res {
                        Err(er) => Outcome::violation(format!("{}/well-typed-rejected/{}", name, er.variant), format!("{} = {} {} is a single amount, but:\n{}", e, v, c, er.rendered)),
                        Ok((_, txns)) => {
                            let p = &txns.last().unwrap().postings[observe_idx];
                            let got_dec: std::collections::BTreeMap<String, rust_decimal::Decimal> = p.amount.iter().filter_map(|(c, v)| v.decimal_scale().map(|_| (c.clone(), to_dec(*v)))).collect();
                            let want = expected_amount.unwrap();
                            if same(&want, &got_dec, approx) {
                                Outcome::pass(format!("{}/value-ok", name))
                            } else {
                                Outcome::violation(format!("{}/value-differs", name), format!("{} should make posting {} equal {} but it is {}", e, observe_idx, decmap(&want), qmap_show(&p.amount)))
                            }
                        }
                    }
                }
            };
            (desc, out)
        }
    }
}

fn to_dec(q: Q) -> rust_decimal::Decimal {
    // values read from okane are decimals; Display of Q prints them exactly
    q.to_string().parse().expect("decimal")
}

fn leaves() -> Vec<T> {
    vec![T::Leaf("0", ""), T::Leaf("1", ""), T::Leaf("2", ""), T::Leaf("3", "X"), T::Leaf("0", "X"), T::Leaf("-1", "X"), T::Leaf("6", "X"), T::Leaf("2", "Y")]
}

fn run(ctx: &mut Ctx) {
    let lv = leaves();
    let ops = ['+', '-', '*', '/'];
    // level 0: leaves and negated leaves
    let mut l0: Vec<Rc<T>> = lv.iter().cloned().map(Rc::new).collect();
    for l in &lv {
        l0.push(Rc::new(T::Neg(Rc::new(l.clone()))));
    }
    // level 1: one operator, optionally negated as a whole
    let mut l1: Vec<Rc<T>> = vec![];
    for a in &l0 {
        for b in &l0 {
            for op in ops {
                l1.push(Rc::new(T::Bin(op, a.clone(), b.clone())));
            }
        }
    }
    let mut l1n = l1.clone();
    for t in &l1 {
        l1n.push(Rc::new(T::Neg(t.clone())));
    }
    // level 2: two operators (left- and right-nested), second operand a plain leaf
    let plain: Vec<Rc<T>> = lv.iter().cloned().map(Rc::new).collect();
    let mut l2: Vec<Rc<T>> = vec![];
    for a in &l1n {
        for b in &plain {
            for op in ops {
                l2.push(Rc::new(T::Bin(op, a.clone(), b.clone())));
                l2.push(Rc::new(T::Bin(op, b.clone(), a.clone())));
            }
        }
    }
    // level 2b: both operands compound, e.g. (1 + 2) * (3 X - 6 X): over the 4 x 4 x 4 one-operator trees of plain leaves
    let simple: Vec<Rc<T>> = [T::Leaf("1", ""), T::Leaf("2", ""), T::Leaf("3", "X"), T::Leaf("6", "X")].into_iter().map(Rc::new).collect();
    let mut l1s: Vec<Rc<T>> = vec![];
    for a in &simple {
        for b in &simple {
            for op in ops {
                l1s.push(Rc::new(T::Bin(op, a.clone(), b.clone())));
            }
        }
    }
    let mut l2b: Vec<Rc<T>> = vec![];
    for a in &l1s {
        for b in &l1s {
            for op in ops {
                l2b.push(Rc::new(T::Bin(op, a.clone(), b.clone())));
            }
        }
    }
    ctx.fact("trees_3_ops_both_operands_compound", l2b.len() as u64);
    ctx.fact("trees_le_1_op", (l0.len() + l1n.len()) as u64);
    ctx.fact("trees_2_ops", l2.len() as u64);
    let contexts = [Cx::Eval, Cx::Posting, Cx::Cost, Cx::Lot, Cx::Assign, Cx::Assert];
    let mut emit = |ctx: &mut Ctx, cx: Cx, sp: Spelling, t: &Rc<T>| {
        if !ctx.next_is_mine() {
            ctx.skip_cases(1);
            return;
        }
        let t = t.clone();
        let cell = std::cell::RefCell::new(None::<(String, Outcome)>);
        // evaluate lazily but only once: desc needs the rendered text, run needs the verdict
        ctx.case(
            || {
                let e = match &*t {
                    T::Leaf(v, c) => leaf_str(v, c),
                    _ => format!("({})", show(&t, 0, false, sp)),
                };
                format!("[{:?}, {:?}] {}", cx, sp, e)
            },
            || {
                let (d, mut o) = judge(cx, sp, &t);
                if sp == Spelling::StackedMinus {
                    if let crate::fw::Verdict::Violation { sig, .. } = &o.verdict {
                        if sig.contains("well-typed-rejected") {
                            o = Outcome::dont_care("stacked-minus/rejected");
                        }
                    }
                }
                *cell.borrow_mut() = Some((d, o.clone()));
                o
            },
        );
    };
    for t in &l2b {
        emit(ctx, Cx::Eval, Spelling::Minimal, t);
        emit(ctx, Cx::Posting, Spelling::Minimal, t);
    }
    for cx in contexts {
        for t in l0.iter().chain(l1n.iter()) {
            emit(ctx, cx, Spelling::Minimal, t);
        }
        for t in &l2 {
            emit(ctx, cx, Spelling::Minimal, t);
        }
    }
    // sums and differences of THREE commodities (X, Y, W; some terms zero-valued), alone, negated, scaled and as the divisor
    // of a bare number, in every context: "a multi-commodity sum where a single amount is required" is not only a pair
    {
        let l3: Vec<Rc<T>> = [T::Leaf("1", "X"), T::Leaf("2", "Y"), T::Leaf("3", "W"), T::Leaf("0", "W"), T::Leaf("4", "X")].into_iter().map(Rc::new).collect();
        let mut sums: Vec<Rc<T>> = vec![];
        for a in &l3 {
            for b in &l3 {
                for c in &l3 {
                    for o1 in ['+', '-'] {
                        for o2 in ['+', '-'] {
                            sums.push(Rc::new(T::Bin(o2, Rc::new(T::Bin(o1, a.clone(), b.clone())), c.clone())));
                            sums.push(Rc::new(T::Bin(o1, a.clone(), Rc::new(T::Bin(o2, b.clone(), c.clone())))));
                        }
                    }
                }
            }
        }
        let two = Rc::new(T::Leaf("2", ""));
        let six = Rc::new(T::Leaf("6", ""));
        let mut fam: Vec<Rc<T>> = vec![];
        for t in &sums {
            fam.push(t.clone());
            fam.push(Rc::new(T::Neg(t.clone())));
            fam.push(Rc::new(T::Bin('*', t.clone(), two.clone())));
            fam.push(Rc::new(T::Bin('*', two.clone(), t.clone())));
            fam.push(Rc::new(T::Bin('/', six.clone(), t.clone())));
        }
        ctx.fact("trees_three_commodity_family", fam.len() as u64);
        for cx in contexts {
            for t in &fam {
                emit(ctx, cx, Spelling::Minimal, t);
            }
        }
    }
    // unary minus stacked on a negative literal (`--1 X`), every context
    fn stacked(t: &T) -> bool {
        match t {
            T::Leaf(..) => false,
            T::Neg(x) => matches!(&**x, T::Leaf(v, _) if v.starts_with('-')) || stacked(x),
            T::Bin(_, l, r) => stacked(l) || stacked(r),
        }
    }
    for cx in contexts {
        for t in l0.iter().chain(l1n.iter()).chain(l2.iter()) {
            if stacked(t) {
                emit(ctx, cx, Spelling::StackedMinus, t);
            }
        }
    }
    // spelling deviations on the <= 2 operator trees, in the two most different contexts
    for cx in [Cx::Eval, Cx::Posting] {
        for sp in [Spelling::Full, Spelling::NoBlanks, Spelling::DoubleBlanks] {
            for t in l1n.iter() {
                emit(ctx, cx, sp, t);
            }
            for t in &l2 {
                emit(ctx, cx, sp, t);
            }
        }
    }
    // long chains: n operands joined by one operator (left associative), n around every power of ten and around the
    // length at which okane starts to refuse an expression; a refusal is an implementation limit (DON'T-CARE beyond 100
    // operands, C06 demands that it is a diagnostic), but an ACCEPTED chain must have exactly the value of the whole chain
    {
        let mut ns: Vec<usize> = (2..=12).collect();
        for base in [100usize, 256, 500, 1000, 1024, 2000] {
            for d in [-2i64, -1, 0, 1, 2] {
                ns.push((base as i64 + d) as usize);
            }
        }
        for n in ns {
            for (opname, op, first, rest) in [("sum", '+', "1 X", "1 X"), ("difference", '-', "5000 X", "1 X"), ("product", '*', "1 X", "2"), ("mixed", '+', "1 X", "2 * 3 X")] {
                if opname == "product" && n > 90 {
                    // 2^90 and beyond leaves the representable decimal range: outside the property
                    continue;
                }
                for cx in [Cx::Eval, Cx::Posting] {
                    if !ctx.next_is_mine() {
                        ctx.skip_cases(1);
                        continue;
                    }
                    let mut e = String::from(first);
                    for _ in 1..n {
                        e.push_str(&format!(" {} {}", op, rest));
                    }
                    let text = format!("({})", e);
                    // expected value in X
                    let k = (n - 1) as i128;
                    let want: Option<Q> = match opname {
                        "sum" => Some(Q::int(1 + k)),
                        "difference" => Some(Q::int(5000 - k)),
                        "product" => if k <= 90 { Some(Q::int(1i128 << k)) } else { None },
                        _ => Some(Q::int(1 + 6 * k)),
                    };
                    ctx.case(
                        || format!("[{:?}] chain of {} operands: ({} {} {} {} ...)", cx, n, first, op, rest, op),
                        || {
                            let got: Result<QMap, String> = match cx {
                                Cx::Eval => oka::with_ledger(&[(oka::ROOT, PRELUDE)], oka::ROOT, None, |r| {
                                    let (l, c) = r.expect("prelude must load");
                                    l.eval(c, &text, &EvalContext { date: oka::date(2024, 1, 1), exchange: None }).map(|a| oka::amount_to_qmap(&a)).map_err(|e| format!("{:?}", e))
                                }),
                                _ => oka::process_text(&format!("{}2024/01/01 t\n  A  {}\n  B\n", PRELUDE, text)).map(|(_, txns)| txns.last().unwrap().postings[0].amount.clone()).map_err(|e| e.variant),
                            };
                            match (&want, &got) {
                                (None, _) => Outcome::dont_care("chain/value-out-of-range"),
                                (Some(_), Err(_)) if n > 100 => Outcome::dont_care("chain/refused-as-too-long"),
                                (Some(w), Err(e)) => Outcome::violation("chain/well-typed-rejected", format!("chain of {} operands should be {} X but was rejected: {}", n, w, e)),
                                (Some(w), Ok(m)) => {
                                    let g = m.get("X").copied().unwrap_or(Q::ZERO);
                                    if g == *w && m.iter().all(|(c, v)| c == "X" || v.is_zero()) {
                                        Outcome::pass(format!("chain/{}/value-ok", opname))
                                    } else {
                                        Outcome::violation(format!("chain/{}/value-differs", opname), format!("chain of {} operands should be {} X but evaluated to {}", n, w, qmap_show(m)))
                                    }
                                }
                            }
                        },
                    );
                }
            }
        }
    }
    // commodity names outside ASCII: every character U+00A1..=U+FFFF that is neither white space nor a control character
    // (62 k) as a one-character commodity `c` and as `Xc`: ((1 c + 2 c) * 2 - 1 Xc) is 6 c - 1 Xc, through `eval` and as a
    // posting amount (same commodity combines, different commodities stay apart - whatever script the name is written in)
    {
        let block = 64u32;
        let mut start = 0xA1u32;
        while start <= 0xFFFF {
            let end = (start + block - 1).min(0xFFFF);
            let chars: Vec<char> = (start..=end).filter_map(char::from_u32).filter(|c| !c.is_whitespace() && !c.is_control()).collect();
            start = end + 1;
            if chars.is_empty() {
                continue;
            }
            if !ctx.next_is_mine() {
                ctx.skip_cases(1);
                continue;
            }
            ctx.case(
                || format!("one-character commodity names U+{:04X}..=U+{:04X}: ((1 c + 2 c) * 2 - 1 Xc)", chars[0] as u32, *chars.last().unwrap() as u32),
                || {
                    for c in &chars {
                        let xc = format!("X{}", c);
                        let text = format!("((1 {} + 2 {}) * 2 - 1 {})", c, c, xc);
                        let ledger = format!("2020/01/01 declare\n  Z  0 {}\n  Z  0 {}\n\n2024/01/01 t\n  A  ((1 {} + 2 {}) * 2)\n  B\n", c, xc, c, c);
                        let got: Result<(QMap, QMap), String> = oka::with_ledger(&[(oka::ROOT, ledger.as_str())], oka::ROOT, None, |r| match r {
                            Err(e) => Err(format!("ledger rejected: {}", e.variant)),
                            Ok((l, cx)) => {
                                let ev = l.eval(cx, &text, &EvalContext { date: oka::date(2024, 1, 1), exchange: None }).map(|a| oka::amount_to_qmap(&a)).map_err(|e| format!("eval: {:?}", e))?;
                                let post = oka::txn_views(l).last().map(|t| t.postings[0].amount.clone()).ok_or_else(|| "no transaction".to_string())?;
                                Ok((ev, post))
                            }
                        });
                        let want: QMap = [(c.to_string(), Q::int(6)), (xc.clone(), Q::int(-1))].into_iter().collect();
                        match got {
                            Err(e) => return Outcome::violation("unicode-commodity/well-typed-rejected", format!("U+{:04X}: {} - {}", *c as u32, text, e)),
                            Ok((ev, post)) => {
                                let want_post: QMap = [(c.to_string(), Q::int(6))].into_iter().collect();
                                if ev != want || post != want_post {
                                    return Outcome::violation("unicode-commodity/value-differs", format!("U+{:04X}: {} evaluated to {} (eval) / {} (posting), expected {}", *c as u32, text, qmap_show(&ev), qmap_show(&post), qmap_show(&want)));
                                }
                            }
                        }
                    }
                    Outcome::pass("unicode-commodity/block-ok")
                },
            );
        }
    }
    // literals beyond 64 bits inside expressions: 19..=28 significant digits, with and without a decimal point
    {
        let lits = ["9223372036854775807", "9223372036854775808", "12.345678901234567890", "18446744073709551616", "10,000,000,000,000,000,000", "1234567890123456789012345678", "0.1234567890123456789012345678", "79228162514264337593543950335"];
        for lit in lits {
            for (shape, text, f) in [
                ("plus-one", format!("({} X + 1 X)", lit), 0u8),
                ("minus-self", format!("({} X - {} X + 3 X)", lit, lit), 1),
                ("negated", format!("(-{} X)", lit), 2),
                ("times-one", format!("({} X * 1)", lit), 3),
            ] {
                if !ctx.next_is_mine() {
                    ctx.skip_cases(1);
                    continue;
                }
                ctx.case(
                    || format!("long literal in an expression [{}]: {}", shape, text),
                    || {
                        let v = Q::parse(&lit.replace(',', ""));
                        let want = match f {
                            0 => v.add(Q::int(1)),
                            1 => Q::int(3),
                            2 => v.neg(),
                            _ => v,
                        };
                        if f == 0 && lit == "79228162514264337593543950335" {
                            return Outcome::dont_care("long-literal/result-out-of-range");
                        }
                        for cx in [Cx::Eval, Cx::Posting] {
                            let got: Result<QMap, String> = match cx {
                                Cx::Eval => oka::with_ledger(&[(oka::ROOT, PRELUDE)], oka::ROOT, None, |r| {
                                    let (l, c) = r.expect("prelude must load");
                                    l.eval(c, &text, &EvalContext { date: oka::date(2024, 1, 1), exchange: None }).map(|a| oka::amount_to_qmap(&a)).map_err(|e| format!("{:?}", e))
                                }),
                                _ => oka::process_text(&format!("{}2024/01/01 t\n  A  {}\n  B\n", PRELUDE, text)).map(|(_, txns)| txns.last().unwrap().postings[0].amount.clone()).map_err(|e| e.variant),
                            };
                            match got {
                                Err(e) => return Outcome::violation(format!("long-literal/well-typed-rejected/{}", shape), format!("[{:?}] {} should be {} X but was rejected: {}", cx, text, want, e)),
                                Ok(m) => {
                                    let g = m.get("X").copied().unwrap_or(Q::ZERO);
                                    if g != want || m.iter().any(|(c, v)| c != "X" && !v.is_zero()) {
                                        return Outcome::violation(format!("long-literal/value-differs/{}", shape), format!("[{:?}] {} should be {} X but is {}", cx, text, want, qmap_show(&m)));
                                    }
                                }
                            }
                        }
                        Outcome::pass(format!("long-literal/{}", shape))
                    },
                );
            }
        }
    }
    // history independence: an expression that is refused (too deep, too long, ill-typed, malformed) must leave nothing
    // behind. After each "poison" the same small expression is evaluated 1 500 times on the same thread, through
    // Ledger::eval and as 1 500 postings of one ledger; every evaluation must give exactly 7 X.
    {
        let poisons: Vec<(&str, String)> = vec![
            ("none", String::new()),
            ("300-nested-parentheses", format!("{}1 X{}", "(".repeat(300), ")".repeat(300))),
            ("257-nested-parentheses", format!("{}1 X{}", "(".repeat(257), ")".repeat(257))),
            ("chain-of-1500-operators", format!("(1 X{})", " + 1 X".repeat(1500))),
            ("chain-of-1001-operators", format!("(1 X{})", " + 1 X".repeat(1001))),
            ("division-by-zero", "(1 X / 0)".to_string()),
            ("number-plus-amount", "(1 X + 1)".to_string()),
            ("unclosed-parenthesis", "(1 X + ".to_string()),
            ("stray-closing-parenthesis", "1 X)".to_string()),
            ("nested-then-long", format!("{}1 X{} ", "(".repeat(300), ")".repeat(300))),
        ];
        for (pname, poison) in &poisons {
            for twice in [false, true] {
                for via_postings in [false, true] {
                    if !ctx.next_is_mine() {
                        ctx.skip_cases(1);
                        continue;
                    }
                    ctx.case(
                        || format!("history: {}{} refused expression(s) [{}], then (1 X + 2 X * 3) x 1500 {}", if twice { "two" } else { "one" }, "", pname, if via_postings { "as postings of one ledger" } else { "through Ledger::eval" }),
                        || {
                            let want = Q::int(7);
                            if via_postings {
                                // the poison goes through the parser first (a rejected text leaves the thread), then the ledger
                                for _ in 0..(if twice { 2 } else { 1 }) {
                                    if !poison.is_empty() {
                                        let _ = oka::process_text(&format!("{}2024/01/01 t\n  A  {}\n  B\n", PRELUDE, poison));
                                    }
                                }
                                let mut text = String::from(PRELUDE);
                                text.push_str("2024/01/02 many\n");
                                for _ in 0..1500 {
                                    text.push_str("  A  (1 X + 2 X * 3)\n");
                                }
                                text.push_str("  B\n");
                                return match oka::process_text(&text) {
                                    Err(e) => Outcome::violation(format!("history/ledger-rejected-after/{}", pname), format!("a ledger of 1500 postings `(1 X + 2 X * 3)` was rejected ({}) after the refused expression", e.variant)),
                                    Ok((_, txns)) => {
                                        let t = txns.last().unwrap();
                                        if t.postings[..1500].iter().all(|p| p.amount.get("X") == Some(&want)) {
                                            Outcome::pass("history/postings/all-equal")
                                        } else {
                                            Outcome::violation(format!("history/posting-value-differs-after/{}", pname), "some posting is not 7 X")
                                        }
                                    }
                                };
                            }
                            oka::with_ledger(&[(oka::ROOT, PRELUDE)], oka::ROOT, None, |r| {
                                let (l, c) = r.expect("prelude must load");
                                let ec = EvalContext { date: oka::date(2024, 1, 1), exchange: None };
                                for _ in 0..(if twice { 2 } else { 1 }) {
                                    if !poison.is_empty() {
                                        let _ = l.eval(c, poison, &ec);
                                    }
                                }
                                for i in 0..1500 {
                                    match l.eval(c, "(1 X + 2 X * 3)", &ec) {
                                        Ok(a) => {
                                            if oka::amount_to_qmap(&a).get("X") != Some(&want) {
                                                return Outcome::violation(format!("history/eval-value-differs-after/{}", pname), format!("evaluation {} gave {}", i + 1, a.as_inline_display()));
                                            }
                                        }
                                        Err(e) => return Outcome::violation(format!("history/eval-rejected-after/{}", pname), format!("evaluation {} of (1 X + 2 X * 3) failed: {:?}", i + 1, e)),
                                    }
                                }
                                Outcome::pass("history/eval/all-equal")
                            })
                        },
                    );
                }
            }
        }
    }
    // the command line: `okane primitive eval <expr>` joins its arguments and evaluates them as one expression
    {
        let epath = oka::scratch_dir("c08").join(format!("eval-{}.ledger", ctx.shard));
        for t in l0.iter().chain(l1n.iter()).chain(l2.iter().step_by(ctx.tier.pick(7, 1))).chain(l2b.iter().step_by(ctx.tier.pick(3, 1))) {
            for sp in [Spelling::Minimal, Spelling::Full] {
                if !ctx.next_is_mine() {
                    ctx.skip_cases(1);
                    continue;
                }
                let exp = ev(t);
                let text = show(t, 0, false, sp);
                ctx.case(
                    || format!("$ okane primitive eval --date 2024-01-01 -f <prelude> -- '{}'", text),
                    || {
                        std::fs::write(&epath, PRELUDE).expect("write prelude");
                        let args: Vec<String> = ["okane", "primitive", "eval", "--date", "2024-01-01", "-f", &epath.to_string_lossy(), "--", &text].iter().map(|x| x.to_string()).collect();
                        let out = super::c13::run_cli(&args);
                        let ok = out.starts_with("EXIT 0");
                        match &exp {
                            R::DontCare(w) => Outcome::dont_care(format!("cli-eval/dontcare/{}", w)),
                            R::Val(V::Num(_)) => Outcome::dont_care("cli-eval/dontcare/bare-number-result"),
                            R::Reject(w) => {
                                if ok {
                                    Outcome::violation(format!("cli-eval/ill-typed-accepted/{}", w), out)
                                } else {
                                    Outcome::pass(format!("cli-eval/rejected/{}", w))
                                }
                            }
                            R::Val(V::Amt(m)) => {
                                if !ok {
                                    return Outcome::violation("cli-eval/well-typed-rejected", format!("{} should be {} but:\n{}", text, decmap(m), out));
                                }
                                let line = out.lines().nth(1).unwrap_or("").trim();
                                match super::bk::parse_inline_amount(line) {
                                    Some(g) => {
                                        let gd: std::collections::BTreeMap<String, rust_decimal::Decimal> = g.iter().filter_map(|(c, v)| v.decimal_scale().map(|_| (c.clone(), to_dec(*v)))).collect();
                                        if same(m, &gd, has_div(t)) {
                                            Outcome::pass("cli-eval/value-ok")
                                        } else {
                                            Outcome::violation("cli-eval/value-differs", format!("{} should be {} but printed {}", text, decmap(m), line))
                                        }
                                    }
                                    None => Outcome::violation("cli-eval/unreadable-output", out),
                                }
                            }
                        }
                    },
                );
            }
        }
    }
    if ctx.tier == Tier::Thorough {
        // exactly 3 operators: 5 tree shapes over 6 leaves, at most one unary minus (on any of the 7 nodes)
        let six: Vec<Rc<T>> = [T::Leaf("1", ""), T::Leaf("2", ""), T::Leaf("3", "X"), T::Leaf("0", "X"), T::Leaf("6", "X"), T::Leaf("2", "Y")].into_iter().map(Rc::new).collect();
        let bin = |op: char, a: &Rc<T>, b: &Rc<T>| Rc::new(T::Bin(op, a.clone(), b.clone()));
        let neg = |a: &Rc<T>| Rc::new(T::Neg(a.clone()));
        let mut n3 = 0u64;
        for a in &six {
            for b in &six {
                for c in &six {
                    for d in &six {
                        for o1 in ops {
                            for o2 in ops {
                                for o3 in ops {
                                    // shape index s, negation position n (0 = none, 1..=7 = node)
                                    for s in 0..5 {
                                        for n in 0..8 {
                                            let w = |k: usize, x: Rc<T>| if n == k { neg(&x) } else { x };
                                            let (a, b, c, d) = (w(1, a.clone()), w(2, b.clone()), w(3, c.clone()), w(4, d.clone()));
                                            let t = match s {
                                                0 => w(7, bin(o3, &w(6, bin(o2, &w(5, bin(o1, &a, &b)), &c)), &d)),
                                                1 => w(7, bin(o3, &w(6, bin(o1, &a, &w(5, bin(o2, &b, &c)))), &d)),
                                                2 => w(7, bin(o1, &a, &w(6, bin(o3, &w(5, bin(o2, &b, &c)), &d)))),
                                                3 => w(7, bin(o1, &a, &w(6, bin(o2, &b, &w(5, bin(o3, &c, &d)))))),
                                                _ => w(7, bin(o2, &w(5, bin(o1, &a, &b)), &w(6, bin(o3, &c, &d)))),
                                            };
                                            n3 += 1;
                                            emit(ctx, Cx::Eval, Spelling::Minimal, &t);
                                            if n == 0 {
                                                emit(ctx, Cx::Posting, Spelling::Minimal, &t);
                                            }
                                        }
                                    }
                                }
                            }
                        }
                    }
                }
            }
        }
        ctx.fact("trees_3_ops", n3);
    }
}
