//! C02 — balance assertions are enforced exactly and in file order.

use super::bk::{self, Case};
use crate::fw::{CheckDef, Ctx, Outcome};
use crate::oka;
use crate::q::qmap_show;
use crate::refledger::{self as rl, Bal, Exp, Prec, Reject, State, Txn};

pub const DEF: CheckDef = CheckDef {
    id: "C02",
    run,
    technique: "explicit-state BFS over reference ledger states (key = per-account balances) plus exhaustive depth-1 enumeration of all assertion-bearing transactions from 8 start states in 3 rendering modes; every edge re-executes the real book-keeping code on the whole history and is compared with the reference model",
    rule: "case = edge (history reaching a reference state, next transaction). Depth-1: ALL transactions of 1..3 (thorough: ..4 over a reduced alphabet) postings over the posting alphabet that contain at least one `= X` assertion, from each of 8 start states, written plainly, through account aliases, and with the history in an included file. History search: BFS to depth 3/5 over a 24-transaction alphabet, states deduplicated on the canonical key (sorted per-account per-commodity balances; sound because book-keeping of a transaction depends on earlier entries only through balances, declared aliases and precisions, and the latter two are fixed). states = distinct reference states + distinct depth-1 inputs, transitions = edges executed on the real code",
    assumptions: &[
        "RefLedger applies postings in file order including the inferred (omitted) posting at its written position; an omitted posting followed by an ASSIGNMENT on the same account is circular and DON'T-CARE",
        "accounts {A,B,E}, commodities {X,Y}, values {-1,0,1,2,3}",
    ],
    shards: 128,
    hang_s: 20,
    single_worker: false,
};

fn has_assertion(t: &Txn) -> bool {
    t.iter().any(|p| p.amt.is_some() && p.bal != Bal::None)
}

pub fn judge(case: &Case, st: &State, txn: &Txn, n_hist: usize) -> Outcome {
    let exp = rl::step(st, &Prec::new(), txn);
    let got = bk::run_real(case).result;
    let d14 = rl::omitted_then_constraint_same_account(txn) == Some("assert");
    let shape = if d14 {
        "/assertion-after-omitted-posting-on-same-account"
    } else if case.hist_has_assert_after_omitted {
        "/after-a-history-containing-an-assertion-after-omitted-posting-on-same-account"
    } else {
        ""
    };
    match (&exp, &got) {
        (Exp::DontCare(w), Ok(_)) => Outcome::dont_care(format!("dontcare/{}/accepted", w)),
        (Exp::DontCare(w), Err(e)) => Outcome::dont_care(format!("dontcare/{}/rejected/{}", w, e.variant)),
        (Exp::DontCareButIfAccepted { why, .. }, Err(e)) => Outcome::dont_care(format!("dontcare/{}/rejected/{}", why, e.variant)),
        (Exp::DontCareButIfAccepted { why, amounts, next }, Ok((bal, txns))) => match bk::compare_accept(amounts, next, bal, txns, n_hist) {
            Some(v) => v,
            None => Outcome::pass(format!("open/{}/accepted-consistently", why)),
        },
        (Exp::Accept { amounts, next, .. }, Ok((bal, txns))) => match bk::compare_accept(amounts, next, bal, txns, n_hist) {
            Some(v) => v,
            None => Outcome::pass("accepted/all-assertions-true"),
        },
        (Exp::Accept { .. }, Err(e)) => Outcome::violation(format!("true-assertions-but-rejected/{}{}", e.variant, shape), format!("every assertion holds at its position in file order, but okane said:\n{}", e.rendered)),
        (Exp::Reject(rs), Ok(_)) => {
            let tag = rs[0].tag();
            Outcome::violation(format!("must-reject-but-accepted/{}{}", tag, shape), format!("reference rejects: {}", rs.iter().map(describe).collect::<Vec<_>>().join("; ")))
        }
        (Exp::Reject(rs), Err(e)) => {
            if e.kind != "bookkeep" {
                return Outcome::violation(format!("rejected-with-non-bookkeeping-error/{}", e.variant), e.rendered.clone());
            }
            // location must be inside the transaction in any case
            let (path, line) = match oka::rendered_location(&e.rendered) {
                Some((p, l, _)) => (p, l),
                None => return Outcome::violation("error-without-location", e.rendered.clone()),
            };
            if path != oka::ROOT || line < case.txn_first || line > case.txn_last {
                return Outcome::violation(format!("error-does-not-name-the-transaction{}", shape), format!("transaction occupies lines {}..{} of {}; error points at {}:{}\n{}", case.txn_first, case.txn_last, oka::ROOT, path, line, e.rendered));
            }
            let only_assert = rs.iter().all(|r| matches!(r, Reject::AssertFalse(..)));
            if only_assert {
                if e.variant != "BalanceAssertionFailure" {
                    return Outcome::violation(format!("false-assertion-reported-as/{}{}", e.variant, shape), e.rendered.clone());
                }
                if let Reject::AssertFalse(i, computed) = &rs[0] {
                    let want_line = case.posting_lines[*i];
                    if line != want_line {
                        return Outcome::violation(format!("assertion-error-points-at-wrong-posting{}", shape), format!("first false assertion is on line {}; error points at line {}\n{}", want_line, line, e.rendered));
                    }
                    match bk::parse_computed(&e.rendered) {
                        Some(c) => {
                            if bk::clean(&c) != *computed {
                                return Outcome::violation(format!("assertion-error-reports-wrong-balance{}", shape), format!("balance after that posting is {}; error reports {}\n{}", qmap_show(computed), qmap_show(&c), e.rendered));
                            }
                        }
                        None => return Outcome::violation("assertion-error-without-computed-balance", e.rendered.clone()),
                    }
                }
                Outcome::pass("rejected/false-assertion/located-and-reported")
            } else {
                Outcome::pass(format!("rejected/{}/{}", rs[0].tag(), e.variant))
            }
        }
    }
}

fn describe(r: &Reject) -> String {
    match r {
        Reject::AssertFalse(i, m) => format!("assertion on posting {} is false: balance there is {}", i, qmap_show(m)),
        Reject::Unbalanced(k, m) => format!("{} residual {}", k, qmap_show(m)),
        o => o.tag(),
    }
}

fn run(ctx: &mut Ctx) {
    bk::enumerate_depth1(ctx, &has_assertion, &judge);
    let depth = ctx.tier.pick(3, 5);
    bk::enumerate_history(ctx, depth, &judge);
}
