//! C02 — balance assertions are enforced exactly and in file order.

use super::bk::{self, Case};
use crate::fw::{CheckDef, Ctx, Outcome};
use crate::oka;
use crate::q::qmap_show;
use crate::refledger::{self as rl, Bal, Exp, Prec, Reject, State, Txn};

pub const DEF: CheckDef = CheckDef {
    id: "C02",
    run,
    technique: "explicit-state BFS over reference ledger states (key = per-account balances) plus exhaustive depth-1 enumeration of all assertion-bearing transactions from 8 start states in 3 rendering modes; every edge re-executes the real book-keeping code on the whole history and is compared with the reference model",
    rule: "case = edge (history reaching a reference state, next transaction). Depth-1: ALL transactions of 1..3 (thorough: ..4 over a reduced alphabet) postings over the posting alphabet that contain at least one `= X` assertion, from each of 8 start states, written plainly, through account aliases, and with the history in an included file. History search: BFS to depth 3/5 over a 27-transaction alphabet, states deduplicated on the canonical key (sorted per-account per-commodity balances; sound because book-keeping of a transaction depends on earlier entries only through balances, declared aliases and precisions, and the latter two are fixed). states = distinct reference states + distinct depth-1 inputs, transitions = edges executed on the real code",
    assumptions: &[
        "RefLedger applies postings in file order including the inferred (omitted) posting at its written position; an omitted posting followed by an ASSIGNMENT on the same account is circular and DON'T-CARE",
        "accounts {A,B,E}, commodities {X,Y}, values {-1,0,1,2,3}",
    ],
    shards: 128,
    hang_s: 20,
    single_worker: false,
};

fn has_assertion(t: &Txn) -> bool {
    t.iter().any(|p| p.amt.is_some() && p.bal != Bal::None)
}

pub fn judge(case: &Case, st: &State, txn: &Txn, n_hist: usize) -> Outcome {
    judge_with(case, st, txn, n_hist, &Prec::new())
}

pub fn judge_with(case: &Case, st: &State, txn: &Txn, n_hist: usize, prec: &Prec) -> Outcome {
    let exp = rl::step(st, prec, txn);
    let got = bk::run_real(case).result;
    let d14 = rl::omitted_then_constraint_same_account(txn) == Some("assert");
    let shape = if d14 {
        "/assertion-after-omitted-posting-on-same-account"
    } else if case.hist_has_assert_after_omitted {
        "/after-a-history-containing-an-assertion-after-omitted-posting-on-same-account"
    } else {
        ""
    };
    match (&exp, &got) {
        (Exp::DontCare(w), Ok(_)) => Outcome::dont_care(format!("dontcare/{}/accepted", w)),
        (Exp::DontCare(w), Err(e)) => Outcome::dont_care(format!("dontcare/{}/rejected/{}", w, e.variant)),
        (Exp::DontCareButIfAccepted { why, .. }, Err(e)) => Outcome::dont_care(format!("dontcare/{}/rejected/{}", why, e.variant)),
        (Exp::DontCareButIfAccepted { why, amounts, next }, Ok((bal, txns))) => match bk::compare_accept(amounts, next, bal, txns, n_hist) {
            Some(v) => v,
            None => Outcome::pass(format!("open/{}/accepted-consistently", why)),
        },
        (Exp::Accept { amounts, next, .. }, Ok((bal, txns))) => match bk::compare_accept(amounts, next, bal, txns, n_hist) {
            Some(v) => v,
            None => Outcome::pass("accepted/all-assertions-true"),
        },
        (Exp::Accept { .. }, Err(e)) => Outcome::violation(format!("true-assertions-but-rejected/{}{}", e.variant, shape), format!("every assertion holds at its position in file order, but okane said:\n{}", e.rendered)),
        (Exp::Reject(rs), Ok(_)) => {
            let tag = rs[0].tag();
            Outcome::violation(format!("must-reject-but-accepted/{}{}", tag, shape), format!("reference rejects: {}", rs.iter().map(describe).collect::<Vec<_>>().join("; ")))
        }
        (Exp::Reject(rs), Err(e)) => {
            if e.kind != "bookkeep" {
                return Outcome::violation(format!("rejected-with-non-bookkeeping-error/{}", e.variant), e.rendered.clone());
            }
            // location must be inside the transaction in any case
            let (path, line) = match oka::rendered_location(&e.rendered) {
                Some((p, l, _)) => (p, l),
                None => return Outcome::violation("error-without-location", e.rendered.clone()),
            };
            if path != oka::ROOT || line < case.txn_first || line > case.txn_last {
                return Outcome::violation(format!("error-does-not-name-the-transaction{}", shape), format!("transaction occupies lines {}..{} of {}; error points at {}:{}\n{}", case.txn_first, case.txn_last, oka::ROOT, path, line, e.rendered));
            }
            let only_assert = rs.iter().all(|r| matches!(r, Reject::AssertFalse(..)));
            // postings are applied in file order: a false assertion that stands BEFORE every other fault of the
            // transaction (the second amount-less posting, a `= 0` on a multi-commodity account; the balance check of the whole
            // transaction comes last) is the fault that is reported
            let first_assert = rs.iter().filter_map(|r| if let Reject::AssertFalse(i, _) = r { Some(*i) } else { None }).min();
            let first_other = rs
                .iter()
                .filter_map(|r| match r {
                    Reject::TwoUnconstrained(_, j) => Some(*j),
                    Reject::AssignZeroMulti(i) => Some(*i),
                    Reject::Unbalanced(..) => Some(usize::MAX),
                    Reject::AssertFalse(..) => None,
                })
                .min();
            let assert_first = match (first_assert, first_other) {
                (Some(a), Some(o)) => a < o,
                _ => false,
            };
            if assert_first && !only_assert {
                if e.variant != "BalanceAssertionFailure" {
                    return Outcome::violation(format!("false-assertion-before-another-fault-reported-as/{}{}", e.variant, shape), format!("the false assertion on posting {} stands before the other fault(s) of the transaction ({}), yet the error is:\n{}", first_assert.unwrap(), rs.iter().map(describe).collect::<Vec<_>>().join("; "), e.rendered));
                }
                let want_line = case.posting_lines[first_assert.unwrap()];
                if line != want_line {
                    return Outcome::violation(format!("assertion-error-points-at-wrong-posting{}", shape), format!("first false assertion is on line {}; error points at line {}\n{}", want_line, line, e.rendered));
                }
                return Outcome::pass("rejected/false-assertion-first-of-several-faults/located");
            }
            if only_assert {
                if e.variant != "BalanceAssertionFailure" {
                    return Outcome::violation(format!("false-assertion-reported-as/{}{}", e.variant, shape), e.rendered.clone());
                }
                if let Reject::AssertFalse(i, computed) = &rs[0] {
                    let want_line = case.posting_lines[*i];
                    if line != want_line {
                        return Outcome::violation(format!("assertion-error-points-at-wrong-posting{}", shape), format!("first false assertion is on line {}; error points at line {}\n{}", want_line, line, e.rendered));
                    }
                    match bk::parse_computed(&e.rendered) {
                        Some(c) => {
                            if bk::clean(&c) != *computed {
                                return Outcome::violation(format!("assertion-error-reports-wrong-balance{}", shape), format!("balance after that posting is {}; error reports {}\n{}", qmap_show(computed), qmap_show(&c), e.rendered));
                            }
                        }
                        None => return Outcome::violation("assertion-error-without-computed-balance", e.rendered.clone()),
                    }
                }
                Outcome::pass("rejected/false-assertion/located-and-reported")
            } else {
                Outcome::pass(format!("rejected/{}/{}", rs[0].tag(), e.variant))
            }
        }
    }
}

fn describe(r: &Reject) -> String {
    match r {
        Reject::AssertFalse(i, m) => format!("assertion on posting {} is false: balance there is {}", i, qmap_show(m)),
        Reject::Unbalanced(k, m) => format!("{} residual {}", k, qmap_show(m)),
        o => o.tag(),
    }
}

fn run(ctx: &mut Ctx) {
    bk::enumerate_depth1(ctx, &has_assertion, &judge);
    let depth = ctx.tier.pick(3, 5);
    bk::enumerate_history(ctx, depth, &judge);
    precision_family(ctx);
}

/// Assertions against balances that are finer than a commodity's declared precision: the balance an assertion sees
/// is the exact one (an inferred amount is the exact remainder, a cost is the exact product), never the figure
/// rounded for display. All (t1, t2) with t1 from 7 transactions leaving a sub-precision balance on B (inferred,
/// via a cost, explicit) and t2 from 36 assertion postings on B (exact value, value rounded to 2 and to 0 places,
/// neighbours), under 2 declared precisions of X.
fn precision_family(ctx: &mut Ctx) {
    use crate::refledger::{Ann, P};
    let t1s: Vec<Txn> = vec![
        vec![P::amt("A", "0.005", "X"), P::omitted("B")],
        vec![P::amt("A", "-0.015", "X"), P::omitted("B")],
        vec![P::amt("A", "0.333", "X"), P::omitted("B")],
        vec![P::amt("A", "1", "Y").with_ann(Ann::Rate("0.005", "X")), P::omitted("B")],
        vec![P::amt("A", "3", "Y").with_ann(Ann::Rate("1.114", "X")), P::omitted("B")],
        vec![P::amt("A", "1.114", "X"), P::amt("A", "1.114", "X"), P::amt("A", "1.114", "X"), P::omitted("B")],
        vec![P::amt("B", "-3.342", "X"), P::omitted("A")],
    ];
    const WS: [&str; 18] = ["-0.005", "-0.01", "-0.00", "0", "0.015", "0.02", "0.01", "-0.333", "-0.33", "-0.3", "-3.342", "-3.34", "-3.3", "-3", "-3.35", "-0.34", "-1", "1"];
    let mut t2s: Vec<Txn> = vec![];
    for w in WS {
        t2s.push(vec![P::amt("B", "0", "").with_bal(Bal::Val(w, "X"))]);
        t2s.push(vec![P::amt("B", "0", "X").with_bal(Bal::Val(w, "X")), P::omitted("E")]);
    }
    let precs: Vec<Prec> = vec![[("X", 2u32)].into_iter().collect(), [("X", 0u32)].into_iter().collect()];
    ctx.fact("precision_family_cases", (t1s.len() * t2s.len() * precs.len()) as u64);
    for prec in &precs {
        let header = rl::prec_header(prec);
        for t1 in &t1s {
            let st = match rl::step(&State::default(), prec, t1) {
                Exp::Accept { next, .. } => next,
                other => panic!("harness bug: precision-family history not accepted by the reference: {:?}", other),
            };
            for t2 in &t2s {
                if !ctx.next_is_mine() {
                    ctx.skip_cases(1);
                    continue;
                }
                let r = rl::render(&header, &[t1.clone(), t2.clone()], &|_, _, a| a.to_string());
                let (f, l) = r.txn_lines[1];
                let case = Case { desc: r.text.clone(), files: vec![(oka::ROOT.to_string(), r.text.clone())], txn_first: f, txn_last: l, posting_lines: r.posting_lines[1].clone(), hist_has_assert_after_omitted: false };
                ctx.case(
                    || format!("[assertion against a sub-precision balance]\n{}", case.desc),
                    || {
                        let o = judge_with(&case, &st, t2, 1, prec);
                        match o.verdict {
                            crate::fw::Verdict::Pass => Outcome::pass(format!("precision/{}", o.class)),
                            crate::fw::Verdict::DontCare => Outcome::dont_care(format!("precision/{}", o.class)),
                            crate::fw::Verdict::Violation { sig, detail } => Outcome::violation(format!("precision/{}", sig), detail),
                        }
                    },
                );
            }
        }
    }
}
