//! C01 — accepted transactions balance; unbalanced ones are rejected, not crashed on.

use crate::fw::{CheckDef, Ctx, Outcome};
use crate::oka;
use crate::q::qmap_show;
use crate::refledger::{self as rl, Ann, Exp, Prec, Reject, State, Txn, P};

pub const DEF: CheckDef = CheckDef {
    id: "C01",
    run,
    technique: "bounded-exhaustive enumeration of transaction shapes (all 1..n-posting combinations over a posting alphabet x precision contexts x start histories) executed on the real book-keeping code and compared with a reference ledger model",
    rule: "case = (precision context, start history, transaction) with the transaction drawn from ALL sequences of 1..n postings over the posting alphabet (amount values {-1,0,1,2,0.005,-0.015} x commodities {X,Y,Z} x annotations {none,@,@@,{},{{}},{}+@,zero rate,same-commodity rate}, omitted, bare 0, parenthesised spellings). states = distinct (context, history, transaction) inputs, transitions = executions of report::process compared with RefLedger; MUST = reference has a definite accept/reject verdict (implied exchange, rounding midpoints, ill-formed exchanges are DON'T-CARE but still must not crash)",
    assumptions: &[
        "RefLedger (harness/src/refledger.rs) is the reading of C01: value at lot price, else cost, else amount; residual rounded half-even to declared precision; accept iff all zero or exactly one omitted posting; two non-zero opposite-sign commodities are permitted-not-required (DON'T-CARE)",
        "amount values, commodities and accounts outside the alphabet are not explored",
    ],
    shards: 128,
    hang_s: 20,
    single_worker: false,
};

const ACCTS: [&str; 4] = ["P1", "P2", "P3", "P4"];

fn next_c(c: &str) -> &'static str {
    match c {
        "X" => "Y",
        "Y" => "Z",
        _ => "X",
    }
}
fn same_c(c: &str) -> &'static str {
    match c {
        "X" => "X",
        "Y" => "Y",
        _ => "Z",
    }
}

/// The posting alphabet (account filled in by position later).
pub fn alphabet() -> Vec<P> {
    let mut v = vec![P::omitted("?"), P::amt("?", "0", "")];
    v.push(P::amt("?", "0", "").with_ann(Ann::Rate("2", "X")));
    // assertions that hold on a fresh account: in the posting's own commodity, and `= 0` in a commodity no entry has
    // mentioned before (an assertion must not change whether a balanced transaction is accepted)
    v.push(P::amt("?", "1", "X").with_bal(crate::refledger::Bal::Val("0", "W")));
    v.push(P::amt("?", "-1", "X").with_bal(crate::refledger::Bal::Val("0", "V")));
    // assignments (`Account = X`): the assigned amount takes part in balancing like a written one
    v.push(P::assign("?", crate::refledger::Bal::Zero));
    v.push(P::assign("?", crate::refledger::Bal::Val("0", "X")));
    v.push(P::assign("?", crate::refledger::Bal::Val("1", "Y")));
    for c in ["X", "Y", "Z"] {
        let o = next_c(c);
        for val in ["1", "-1", "0", "2", "0.005", "-0.015"] {
            for ann in [
                Ann::None,
                Ann::Rate("2", o),
                Ann::Total("2", o),
                Ann::LotRate("2", o),
                Ann::LotTotal("2", o),
                Ann::LotRateAndCost("2", o, "3"),
                Ann::Rate("0", o),
                Ann::Rate("1", same_c(c)),
                // a total written with a minus sign: the posting is valued at |total| with the sign of the amount
                Ann::Total("-2", o),
                Ann::LotTotal("-2", o),
            ] {
                v.push(P::amt("?", val, same_c(c)).with_ann(ann));
            }
        }
    }
    // totals that the quantity does not divide: the posting is valued at the total itself, never at (total / quantity) * quantity
    for c in ["X", "Y", "Z"] {
        let o = next_c(c);
        v.push(P::amt("?", "3", same_c(c)).with_ann(Ann::Total("50", o)));
        v.push(P::amt("?", "3", same_c(c)).with_ann(Ann::Total("7", o)));
        v.push(P::amt("?", "-7", same_c(c)).with_ann(Ann::LotTotal("750", o)));
    }
    // a per-unit price written with a minus sign: the posting is valued at quantity x rate, sign and all
    for c in ["X", "Y"] {
        let o = next_c(c);
        v.push(P::amt("?", "1", same_c(c)).with_ann(Ann::Rate("-2", o)));
        v.push(P::amt("?", "-1", same_c(c)).with_ann(Ann::Rate("-2", o)));
        v.push(P::amt("?", "-1", same_c(c)).with_ann(Ann::LotRate("-2", o)));
    }
    // parenthesised spellings of 2 c
    for (c, sp1, sp2) in [("X", "(1 X + 1 X)", "(2 * 1 X)"), ("Y", "(1 Y + 1 Y)", "(2 * 1 Y)"), ("Z", "(1 Z + 1 Z)", "(2 * 1 Z)")] {
        let mut p = P::amt("?", "2", c);
        p.spelling = Some(sp1);
        v.push(p.clone());
        p.spelling = Some(sp2);
        v.push(p);
    }
    // a cost or lot annotation AND a (true) balance assertion on the same posting: the posting is still valued at its lot
    // price, else its cost - an assertion changes nothing about how a transaction balances
    for val in ["1", "-1", "2"] {
        for ann in [Ann::Rate("2", "Y"), Ann::Total("2", "Y"), Ann::LotRate("2", "Y"), Ann::LotRateAndCost("2", "Y", "3")] {
            v.push(P::amt("?", val, "X").with_ann(ann).with_bal(crate::refledger::Bal::Val("0", "W")));
        }
    }
    v
}

/// Reduced alphabet: simplest-first subset that still reaches every branch of check_balance.
pub fn reduced(full: &[P], n: usize) -> Vec<P> {
    let mut v: Vec<P> = vec![];
    let keep = |p: &P| -> bool {
        match &p.amt {
            None => true,
            Some((val, c)) => {
                if c.is_empty() {
                    return p.ann == Ann::None;
                }
                if p.spelling.is_some() {
                    return false;
                }
                let simple_val = matches!(*val, "1" | "-1" | "0" | "0.005");
                let simple_ann = matches!(p.ann, Ann::None | Ann::Rate("2", _) | Ann::Total("2", _) | Ann::LotRate("2", _));
                simple_val && simple_ann && (*c != "Z" || p.ann == Ann::None)
            }
        }
    };
    for p in full {
        if keep(p) {
            v.push(p.clone());
        }
    }
    v.truncate(n);
    v
}

fn precs() -> Vec<Prec> {
    vec![Prec::new(), [("X", 2u32)].into_iter().collect(), [("X", 0u32)].into_iter().collect(), [("X", 2u32), ("Y", 0u32)].into_iter().collect()]
}

fn histories() -> Vec<Vec<Txn>> {
    vec![
        vec![],
        vec![vec![P::amt("P1", "1", "X"), P::amt("P2", "-1", "X")]],
        vec![vec![P::amt("P1", "5", "Y"), P::amt("P1", "1", "X"), P::omitted("P3")]],
        vec![vec![P::amt("P1", "3", "X").with_ann(Ann::Rate("2", "Y")), P::amt("P2", "-6", "Y")], vec![P::amt("P4", "1", "Z").with_ann(Ann::Rate("2", "X")), P::omitted("P2")]],
        // an account emptied and refilled by assignments only (no ordinary posting in between)
        vec![
            vec![P::amt("P1", "10", "X"), P::omitted("P3")],
            vec![P::assign("P1", crate::refledger::Bal::Val("0", "X")), P::omitted("P3")],
            vec![P::assign("P1", crate::refledger::Bal::Val("5", "Y")), P::omitted("P3")],
        ],
    ]
}

fn with_accounts(ps: &[&P]) -> Txn {
    ps.iter().enumerate().map(|(i, p)| {
        let mut q = (*p).clone();
        q.acct = ACCTS[i];
        q
    }).collect()
}

/// Run one (prec, history, txn) case and judge it by C01's clauses.
pub fn judge_case(prec: &Prec, hist: &[Txn], txn: &Txn) -> (String, Box<dyn FnOnce() -> Outcome>) {
    judge_case_v(prec, hist, txn, Variant::Plain)
}

#[derive(Clone, Copy, PartialEq, Eq, Debug)]
pub enum Variant {
    Plain,
    /// every commodity with a declared precision is declared a second time, without a `format` line: the precision stays
    Redeclared,
    /// CRLF line ends, and the first posting of every transaction carries a trailing `; n` comment, so that some amounts
    /// end their line and others do not
    CrlfWithComments,
    /// after the history (which has used the accounts already) every account is declared with an alias, and the judged
    /// transaction is written through the aliases: which name an account is written by changes nothing about balancing
    LateAccountAliases,
}

pub fn judge_case_v(prec: &Prec, hist: &[Txn], txn: &Txn, variant: Variant) -> (String, Box<dyn FnOnce() -> Outcome>) {
    let mut header = rl::prec_header(prec);
    if variant == Variant::Redeclared {
        for (c, _) in prec {
            header.push_str(&format!("commodity {}\n\n", c));
        }
    }
    let mut all: Vec<Txn> = hist.to_vec();
    all.push(txn.clone());
    let r = if variant == Variant::LateAccountAliases {
        let h = rl::render(&header, hist, &|_, _, a| a.to_string());
        let mut header2 = h.text.clone();
        for a in ACCTS {
            header2.push_str(&format!("account {}\n  alias {}x\n\n", a, a.to_lowercase()));
        }
        rl::render(&header2, std::slice::from_ref(txn), &|_, _, a| format!("{}x", a.to_lowercase()))
    } else {
        rl::render(&header, &all, &|_, _, a| a.to_string())
    };
    let text = if variant == Variant::CrlfWithComments {
        let firsts: std::collections::BTreeSet<usize> = r.posting_lines.iter().filter_map(|pl| pl.first().copied()).collect();
        let mut out = String::new();
        for (i, l) in r.text.split_inclusive('\n').enumerate() {
            let body = l.trim_end_matches('\n');
            out.push_str(body);
            if firsts.contains(&(i + 1)) && all.iter().zip(&r.posting_lines).any(|(t, pl)| pl.first() == Some(&(i + 1)) && t[0].amt.is_some() && t[0].bal == crate::refledger::Bal::None) {
                out.push_str(" ; n");
            }
            if l.ends_with('\n') {
                out.push_str("\r\n");
            }
        }
        out
    } else {
        r.text.clone()
    };
    let prec = prec.clone();
    let hist: Vec<Txn> = hist.to_vec();
    let txn = txn.clone();
    let desc = text.clone();
    (
        desc,
        Box::new(move || {
            // reference
            let mut st = State::default();
            for h in &hist {
                match rl::step(&st, &prec, h) {
                    Exp::Accept { next, .. } => st = next,
                    other => panic!("harness bug: start history not accepted by reference: {:?}", other),
                }
            }
            let exp = rl::step(&st, &prec, &txn);
            let got = oka::process_text(&text);
            let (first, last) = *r.txn_lines.last().unwrap();
            match (&exp, &got) {
                (Exp::DontCareButIfAccepted { why, .. }, Err(e)) => Outcome::dont_care(format!("dontcare/{}/rejected/{}", why, e.variant)),
                (Exp::DontCareButIfAccepted { why, amounts, next }, Ok((bal, txns))) => {
                    if *bal != next.bal {
                        return Outcome::violation(format!("accepted-({})-but-balances-differ", why), format!("expected balances {:?}\nobserved {:?}", next.bal, bal));
                    }
                    let t = txns.last().expect("txn");
                    for (i, p) in t.postings.iter().enumerate() {
                        let mut a = p.amount.clone();
                        crate::q::qmap_clean(&mut a);
                        if a != amounts[i] {
                            return Outcome::violation(format!("accepted-({})-but-posting-amount-differs", why), format!("posting {} expected {} observed {}", i, qmap_show(&amounts[i]), qmap_show(&a)));
                        }
                    }
                    Outcome::pass(format!("open/{}/accepted-consistently", why))
                }
                (Exp::DontCare(w), Ok(_)) => Outcome::dont_care(format!("dontcare/{}/accepted", w)),
                (Exp::DontCare(w), Err(e)) => Outcome::dont_care(format!("dontcare/{}/rejected/{}", w, e.variant)),
                (Exp::Accept { amounts, next, .. }, Ok((bal, txns))) => {
                    if *bal != next.bal {
                        return Outcome::violation("accepted-but-balances-differ", format!("expected balances {:?}\nobserved {:?}", next.bal, bal));
                    }
                    let t = txns.last().expect("txn");
                    for (i, p) in t.postings.iter().enumerate() {
                        let mut a = p.amount.clone();
                        crate::q::qmap_clean(&mut a);
                        if a != amounts[i] {
                            return Outcome::violation("accepted-but-posting-amount-differs", format!("posting {} expected {} observed {}", i, qmap_show(&amounts[i]), qmap_show(&a)));
                        }
                    }
                    Outcome::pass(if txn.iter().any(|p| p.is_omitted()) { "accepted/with-omitted" } else { "accepted/all-zero" })
                }
                (Exp::Accept { .. }, Err(e)) => Outcome::violation(format!("must-accept-but-rejected/{}", e.variant), format!("reference accepts (balanced or exactly one omitted posting); okane said:\n{}", e.rendered)),
                (Exp::Reject(rs), Ok(_)) => Outcome::violation(format!("must-reject-but-accepted/{}", rs[0].tag()), format!("reference rejects: {}", rs.iter().map(|r| match r { Reject::Unbalanced(k, m) => format!("{} residual {}", k, qmap_show(m)), o => o.tag() }).collect::<Vec<_>>().join("; "))),
                (Exp::Reject(rs), Err(e)) => {
                    if e.kind != "bookkeep" {
                        return Outcome::violation(format!("rejected-with-non-bookkeeping-error/{}", e.variant), format!("{}\n{:?}", e.rendered, e.chain));
                    }
                    match oka::rendered_location(&e.rendered) {
                        Some((path, line, _)) => {
                            if path != oka::ROOT || line < first || line > last {
                                return Outcome::violation("error-does-not-name-the-transaction", format!("transaction occupies lines {}..{} of {}; error points at {}:{}\n{}", first, last, oka::ROOT, path, line, e.rendered));
                            }
                        }
                        None => return Outcome::violation("error-without-location", e.rendered.clone()),
                    }
                    let g = oka::gutter_lines(&e.rendered);
                    if g.iter().any(|l| *l < first || *l > last) {
                        return Outcome::violation("error-snippet-outside-the-transaction", format!("transaction occupies lines {}..{}; gutter shows {:?}\n{}", first, last, g, e.rendered));
                    }
                    Outcome::pass(format!("rejected/{}/{}", rs[0].tag(), e.variant))
                }
            }
        }),
    )
}

fn run(ctx: &mut Ctx) {
    let full = alphabet();
    let precs = precs();
    let hists = histories();
    let empty: Vec<Txn> = vec![];
    ctx.fact("alphabet_size", full.len() as u64);
    let mut emit = |ctx: &mut Ctx, prec: &Prec, hist: &[Txn], ps: &[&P]| {
        if !ctx.next_is_mine() {
            ctx.skip_cases(1);
            return;
        }
        let txn = with_accounts(ps);
        let (desc, run) = judge_case(prec, hist, &txn);
        ctx.case(|| desc, run);
    };
    // (1) all 1- and 2-posting transactions over the full alphabet x precision contexts
    for prec in &precs {
        for a in &full {
            emit(ctx, prec, &empty, &[a]);
        }
        for a in &full {
            for b in &full {
                emit(ctx, prec, &empty, &[a, b]);
            }
        }
    }
    // (2) all 3-posting transactions over a sub-alphabet (quick) / the full alphabet (thorough)
    let n3 = ctx.tier.pick(40, usize::MAX);
    let a3: Vec<P> = if n3 == usize::MAX { full.clone() } else { reduced(&full, n3) };
    ctx.fact("alphabet3_size", a3.len() as u64);
    for prec in &precs {
        for a in &a3 {
            for b in &a3 {
                for c in &a3 {
                    emit(ctx, prec, &empty, &[a, b, c]);
                }
            }
        }
    }
    // (3) 4-posting transactions over a small alphabet
    let a4 = reduced(&full, ctx.tier.pick(12, 30));
    ctx.fact("alphabet4_size", a4.len() as u64);
    for prec in &precs[..2] {
        for a in &a4 {
            for b in &a4 {
                for c in &a4 {
                    for d in &a4 {
                        emit(ctx, prec, &empty, &[a, b, c, d]);
                    }
                }
            }
        }
    }
    // (4) after non-empty histories: acceptance must not depend on what came before
    let ah = reduced(&full, ctx.tier.pick(40, 80));
    for hist in &hists[1..] {
        for prec in &precs[..2] {
            for a in &ah {
                emit(ctx, prec, hist, &[a]);
            }
            for a in &ah {
                for b in &ah {
                    emit(ctx, prec, hist, &[a, b]);
                }
            }
        }
    }
    // (5) after a LONG history written with parenthesised expressions (700 transactions, 2 100 operators in all): a limit
    // that is meant per expression must not add up over the file. Every 1- and 2-posting transaction with a parenthesised
    // posting first, over the reduced alphabet
    {
        let mut long: Vec<Txn> = vec![];
        for _ in 0..700 {
            let mut a = P::amt("P1", "2", "X");
            a.spelling = Some("(1 X + 1 X)");
            let mut b = P::amt("P2", "-2", "X");
            b.spelling = Some("(0 X - 1 X - 1 X)");
            long.push(vec![a, b]);
        }
        let spelled: Vec<P> = full.iter().filter(|p| p.spelling.is_some()).cloned().collect();
        ctx.fact("long_history_transactions", long.len() as u64);
        for a in &spelled {
            emit(ctx, &precs[0], &long, &[a]);
            for b in &ah {
                emit(ctx, &precs[0], &long, &[a, b]);
            }
        }
    }
    // (6) two renderings of the same ledgers: commodities declared twice (the second time without `format`), and CRLF
    // files in which some amounts end their line and others are followed by a comment. All 1- and 2-posting
    // transactions over the full alphabet, 3-posting ones over the reduced alphabet of (4), empty history and history 1
    for variant in [Variant::Redeclared, Variant::CrlfWithComments, Variant::LateAccountAliases] {
        let ps: &[Prec] = match variant {
            Variant::Redeclared => &precs[1..],
            Variant::LateAccountAliases => &precs[..1],
            _ => &precs[..2],
        };
        for prec in ps {
            // the alias variant needs accounts that were used before their declaration: the one-transaction history and the
            // assignment-only history
            for hist in if variant == Variant::LateAccountAliases { [&hists[1], &hists[4]] } else { [&empty, &hists[1]] } {
                let mut emit_v = |ctx: &mut Ctx, sel: &[&P]| {
                    if !ctx.next_is_mine() {
                        ctx.skip_cases(1);
                        return;
                    }
                    let txn = with_accounts(sel);
                    let (desc, run) = judge_case_v(prec, hist, &txn, variant);
                    ctx.case(
                        || format!("[{:?}]\n{}", variant, desc),
                        || {
                            let o = run();
                            match o.verdict {
                                crate::fw::Verdict::Violation { sig, detail } => Outcome::violation(format!("{}/{:?}", sig, variant), detail),
                                _ => o,
                            }
                        },
                    );
                };
                for a in &full {
                    emit_v(ctx, &[a]);
                    for b in &full {
                        emit_v(ctx, &[a, b]);
                    }
                }
                let a3v = reduced(&full, 20);
                for a in &a3v {
                    for b in &a3v {
                        for c in &a3v {
                            emit_v(ctx, &[a, b, c]);
                        }
                    }
                }
            }
        }
    }
}
