//! C09 — commodity conversion uses the right price.

use std::collections::BTreeMap;

use okane_core::report::query::EvalContext;

use crate::fw::{CheckDef, Ctx, Outcome, Tier};
use crate::oka;
use crate::q::Q;

pub const DEF: CheckDef = CheckDef {
    id: "C09",
    run,
    technique: "exhaustive enumeration of all sets (as histories in two file orders) of up to 3-4 dated price facts over small commodity graphs x all (from,to,date) queries; facts are realised as real ledger transactions / price-DB lines, conversion is run on the real code and compared with a brute-force all-simple-paths reference",
    rule: "case = one set of price facts (every subset of size <= 3, thorough also size 4, of the fact alphabet: unordered commodity pair x date {10,20,30} x rate {2,3} x source {cost @, price-db line}, plus @@ / {} / implied two-commodity exchange / reverse-direction facts), rendered in ascending and in reversed file order; inside a case ALL ordered (from,to) pairs incl. from=to x query dates {9,10,15,20,31} are converted. states = distinct fact multisets (canonical key: conversion can depend on nothing else, and the reversed-order rendering checks exactly that), transitions = conversions executed and compared. A conversion is MUST when the reference accept-set is a single rate or no chain exists; genuine ties (same pair+date twice, chains equal in all ranking criteria) only require the result to lie in the accept-set",
    assumptions: &[
        "RefPrices: as-of selection per edge (latest date <= D), price-db facts replace ledger facts of the same unordered pair, chain ranking (ledger steps, steps, staleness) with staleness read both as max and as sum of ages (either accepted)",
        "rates 2, 3 and reciprocals; results compared with relative tolerance 1e-20 because reciprocals are 28-digit decimals",
    ],
    shards: 128,
    hang_s: 30,
    single_worker: false,
};

#[derive(Clone, Copy, Debug, PartialEq, Eq, PartialOrd, Ord)]
pub enum Src {
    Cost,
    Db,
    Total,
    Lot,
    Implied,
    /// the same fact stated by a SALE: `-2 x @@ 2r y`, `-2 x {{2r y}}`, `-1 x @ r y`
    SaleTotal,
    SaleLotTotal,
    SaleCost,
    /// a purchase / a sale that carries a lot price WITH a lot date (and note) besides its cost: the price is the cost,
    /// stated on the TRANSACTION date (the lot date, 2024/01/02, lies before every query date)
    LotDatedCost,
    SaleLotDatedCost,
}

/// 1 x = rate y, stated on `date` by `src`.
#[derive(Clone, Copy, Debug, PartialEq, Eq, PartialOrd, Ord)]
pub struct Fact {
    pub date: u32,
    pub x: usize,
    pub y: usize,
    pub rate: u32,
    pub src: Src,
}

pub const NAMES: [&str; 5] = ["AAA", "BBB", "CCC", "DDD", "EEE"];
const QD: [u32; 5] = [9, 10, 15, 20, 31];

pub fn alphabet(ncom: usize) -> Vec<Fact> {
    let mut v = vec![];
    // simplest first
    for date in [10u32, 20, 30] {
        for x in 0..ncom {
            for y in x + 1..ncom {
                for rate in [2u32, 3] {
                    for src in [Src::Cost, Src::Db] {
                        v.push(Fact { date, x, y, rate, src });
                    }
                }
            }
        }
    }
    for x in 0..ncom {
        for y in x + 1..ncom {
            v.push(Fact { date: 20, x, y, rate: 2, src: Src::Total });
            v.push(Fact { date: 20, x, y, rate: 2, src: Src::Lot });
            v.push(Fact { date: 20, x, y, rate: 2, src: Src::Implied });
            v.push(Fact { date: 20, x, y, rate: 2, src: Src::SaleTotal });
            v.push(Fact { date: 20, x, y, rate: 3, src: Src::SaleLotTotal });
            v.push(Fact { date: 30, x, y, rate: 2, src: Src::SaleCost });
            v.push(Fact { date: 20, x, y, rate: 3, src: Src::LotDatedCost });
            v.push(Fact { date: 30, x, y, rate: 3, src: Src::SaleLotDatedCost });
            // reverse direction: 1 y = 2 x
            v.push(Fact { date: 20, x: y, y: x, rate: 2, src: Src::Cost });
        }
    }
    v
}

pub fn render(ncom: usize, facts: &[Fact]) -> (String, String) {
    render_opt(ncom, facts, true)
}

/// `declare = false`: no prelude, the commodities become known only through the facts themselves
/// (a price-database line may then mention two commodities the ledger has never seen)
pub fn render_opt(ncom: usize, facts: &[Fact], declare: bool) -> (String, String) {
    let mut text = String::new();
    if declare {
        text.push_str("2020/01/01 declare\n");
        for c in &NAMES[..ncom] {
            text.push_str(&format!("  Z  0 {}\n", c));
        }
        text.push('\n');
    } else {
        text.push_str("; no commodity is declared\n\n");
    }
    let mut db = String::new();
    for f in facts {
        let (x, y, r, d) = (NAMES[f.x], NAMES[f.y], f.rate, f.date);
        match f.src {
            Src::Db => db.push_str(&format!("P 2024/01/{} {} {} {}\n", d, x, r, y)),
            Src::Cost => text.push_str(&format!("2024/01/{} f\n  P  1 {} @ {} {}\n  Q  -{} {}\n\n", d, x, r, y, r, y)),
            Src::Total => text.push_str(&format!("2024/01/{} f\n  P  2 {} @@ {} {}\n  Q  -{} {}\n\n", d, x, 2 * r, y, 2 * r, y)),
            Src::Lot => text.push_str(&format!("2024/01/{} f\n  P  1 {} {{{} {}}}\n  Q  -{} {}\n\n", d, x, r, y, r, y)),
            Src::Implied => text.push_str(&format!("2024/01/{} f\n  P  1 {}\n  Q  -{} {}\n\n", d, x, r, y)),
            Src::SaleTotal => text.push_str(&format!("2024/01/{} f\n  P  -2 {} @@ {} {}\n  Q  {} {}\n\n", d, x, 2 * r, y, 2 * r, y)),
            Src::SaleLotTotal => text.push_str(&format!("2024/01/{} f\n  P  -2 {} {{{{{} {}}}}}\n  Q  {} {}\n\n", d, x, 2 * r, y, 2 * r, y)),
            Src::SaleCost => text.push_str(&format!("2024/01/{} f\n  P  -1 {} @ {} {}\n  Q  {} {}\n\n", d, x, r, y, r, y)),
            Src::LotDatedCost => text.push_str(&format!("2024/01/{} f\n  P  1 {} {{{} {}}} [2024/01/02] (lot) @ {} {}\n  Q\n\n", d, x, r, y, r, y)),
            Src::SaleLotDatedCost => text.push_str(&format!("2024/01/{} f\n  P  -1 {} {{{} {}}} [2024/01/02] @ {} {}\n  Q\n\n", d, x, r, y, r, y)),
        }
    }
    (text, db)
}

/// A price fact with a rational rate: on day `date`, 1 x = rate y; `db` = from the price database.
#[derive(Clone, Copy, Debug, PartialEq)]
pub struct GFact {
    pub date: u32,
    pub x: usize,
    pub y: usize,
    pub rate: Q,
    pub db: bool,
}

/// Reference: set of acceptable rates for 1 `from` in `to` as of day `qd`; None = no chain.
pub fn refprice(ncom: usize, facts: &[Fact], from: usize, to: usize, qd: u32) -> Option<Vec<Q>> {
    let g: Vec<GFact> = facts.iter().map(|f| GFact { date: f.date, x: f.x, y: f.y, rate: Q::int(f.rate as i128), db: f.src == Src::Db }).collect();
    refprice_q(ncom, &g, from, to, qd)
}

thread_local! {
    /// set by `refprice_q` when the search met an edge whose most recent price is exactly zero from the side that has no
    /// reciprocal: whether an OLDER non-zero price may then be used in that direction is not something the statement fixes
    static ZERO_REVERSE_SEEN: std::cell::Cell<bool> = const { std::cell::Cell::new(false) };
}
pub fn zero_reverse_seen() -> bool {
    ZERO_REVERSE_SEEN.with(|z| z.get())
}

pub fn refprice_q(ncom: usize, facts: &[GFact], from: usize, to: usize, qd: u32) -> Option<Vec<Q>> {
    ZERO_REVERSE_SEEN.with(|z| z.set(false));
    if from == to {
        return Some(vec![Q::ONE]);
    }
    // per unordered pair (min,max): (is_db, [(date, rate as 1 min = r max)])
    let mut edge: BTreeMap<(usize, usize), (bool, Vec<(u32, Q)>)> = BTreeMap::new();
    for f in facts {
        let k = (f.x.min(f.y), f.x.max(f.y));
        if f.x > f.y && f.rate.is_zero() {
            panic!("harness bug: a zero price must be stated as `1 x = 0 y` with x < y in the reference");
        }
        let r = if f.x < f.y { f.rate } else { Q::ONE.div(f.rate) };
        let db = f.db;
        let e = edge.entry(k).or_insert((false, vec![]));
        if db && !e.0 {
            e.0 = true;
            e.1.clear();
        }
        if db == e.0 {
            e.1.push((f.date, r));
        }
    }
    let mut usable: BTreeMap<(usize, usize), (bool, u32, Vec<Q>)> = BTreeMap::new();
    for (k, (db, v)) in &edge {
        if let Some(l) = v.iter().filter(|(d, _)| *d <= qd).map(|(d, _)| *d).max() {
            // (qd - l) below cannot underflow: l <= qd
            usable.insert(*k, (*db, l, v.iter().filter(|(d, _)| *d == l).map(|(_, r)| *r).collect()));
        }
    }
    type Key = (usize, usize, u32, u32);
    #[allow(clippy::too_many_arguments)]
    fn dfs(cur: usize, to: usize, visited: &mut Vec<usize>, usable: &BTreeMap<(usize, usize), (bool, u32, Vec<Q>)>, qd: u32, n: usize, acc: (usize, usize, u32, u32, Vec<Q>), out: &mut Vec<(Key, Vec<Q>)>) {
        if cur == to {
            out.push(((acc.0, acc.1, acc.2, acc.3), acc.4));
            return;
        }
        for nx in 0..n {
            if visited.contains(&nx) {
                continue;
            }
            let k = (cur.min(nx), cur.max(nx));
            if let Some((db, l, rates)) = usable.get(&k) {
                let st = qd - l;
                let mut newrates = vec![];
                for a in &acc.4 {
                    for r in rates {
                        if cur > nx && r.is_zero() {
                            // a price of zero has no reciprocal: the edge cannot be walked in this direction
                            ZERO_REVERSE_SEEN.with(|z| z.set(true));
                            continue;
                        }
                        let rr = if cur < nx { *r } else { Q::ONE.div(*r) };
                        newrates.push(a.mul(rr));
                    }
                }
                if newrates.is_empty() {
                    continue;
                }
                visited.push(nx);
                dfs(nx, to, visited, usable, qd, n, (acc.0 + if *db { 0 } else { 1 }, acc.1 + 1, acc.2.max(st), acc.3 + st, newrates), out);
                visited.pop();
            }
        }
    }
    let mut out = vec![];
    dfs(from, to, &mut vec![from], &usable, qd, ncom, (0, 0, 0, 0, vec![Q::ONE]), &mut out);
    if out.is_empty() {
        return None;
    }
    let m1 = out.iter().map(|(k, _)| (k.0, k.1, k.2)).min().unwrap();
    let m2 = out.iter().map(|(k, _)| (k.0, k.1, k.3)).min().unwrap();
    let mut acc: Vec<Q> = vec![];
    for (k, r) in &out {
        if (k.0, k.1, k.2) == m1 || (k.0, k.1, k.3) == m2 {
            for x in r {
                if !acc.contains(x) {
                    acc.push(*x);
                }
            }
        }
    }
    Some(acc)
}

fn judge(ncom: usize, facts: &[Fact], text: &str, db: &str, dbpath: &std::path::Path) -> (Outcome, u64, u64) {
    judge_known(ncom, facts, text, db, dbpath, [true; 5])
}

fn judge_known(ncom: usize, facts: &[Fact], text: &str, db: &str, dbpath: &std::path::Path, known: [bool; 5]) -> (Outcome, u64, u64) {
    let dbopt = if db.is_empty() {
        None
    } else {
        std::fs::write(dbpath, db).expect("write price db");
        Some(dbpath)
    };
    let mut conversions = 0u64;
    let mut must = 0u64;
    let out = oka::with_ledger(&[(oka::ROOT, text)], oka::ROOT, dbopt, |r| {
        let (l, ctx) = match r {
            Ok(x) => x,
            Err(e) => return Outcome::violation(format!("fact-ledger-rejected/{}", e.variant), format!("{}\n{:?}", e.rendered, e.chain)),
        };
        let mut ties = 0;
        for from in 0..ncom {
            for to in 0..ncom {
                if !known[from] || !known[to] {
                    // a commodity that occurs nowhere: what a query about it answers is not C09's business
                    continue;
                }
                for qd in QD {
                    conversions += 1;
                    let exp = refprice(ncom, facts, from, to, qd);
                    // a ZERO quantity is converted like any other: no chain, no conversion ("if no chain exists the conversion
                    // fails"); with a chain the result is zero
                    {
                        conversions += 1;
                        let got0 = l.eval(ctx, &format!("0 {}", NAMES[from]), &EvalContext { date: oka::date(2024, 1, qd), exchange: Some(NAMES[to].to_string()) });
                        let q0 = format!("0 {} -> {} as of 2024/01/{:02}", NAMES[from], NAMES[to], qd);
                        match (&exp, &got0) {
                            (None, Err(_)) => must += 1,
                            (None, Ok(a)) => return Outcome::violation("zero-quantity/converted-without-any-chain", format!("{}: no chain of prices dated on or before the query date exists, but got {}", q0, a.as_inline_display())),
                            (Some(_), Err(e)) => return Outcome::violation("zero-quantity/conversion-failed-although-chain-exists", format!("{}: got error {}", q0, e)),
                            (Some(_), Ok(a)) => {
                                must += 1;
                                if oka::amount_to_decmap(a).iter().any(|(c, v)| !v.is_zero() || c != NAMES[to]) {
                                    return Outcome::violation("zero-quantity/conversion-value", format!("{}: got {}", q0, a.as_inline_display()));
                                }
                            }
                        }
                    }
                    let got = l.eval(ctx, &format!("2 {}", NAMES[from]), &EvalContext { date: oka::date(2024, 1, qd), exchange: Some(NAMES[to].to_string()) });
                    let q = format!("2 {} -> {} as of 2024/01/{:02}", NAMES[from], NAMES[to], qd);
                    match (&exp, &got) {
                        (None, Err(_)) => must += 1,
                        (None, Ok(a)) => return Outcome::violation("converted-without-any-chain", format!("{}: no chain of prices dated on or before the query date exists, but got {}", q, a.as_inline_display())),
                        (Some(acc), Err(e)) => return Outcome::violation("conversion-failed-although-chain-exists", format!("{}: expected one of {:?}, got error {}", q, acc.iter().map(|r| r.mul(Q::int(2)).to_string()).collect::<Vec<_>>(), e)),
                        (Some(acc), Ok(a)) => {
                            let m = oka::amount_to_decmap(a);
                            if m.len() != 1 || !m.contains_key(NAMES[to]) {
                                return Outcome::violation("conversion-result-in-wrong-commodity", format!("{}: got {}", q, a.as_inline_display()));
                            }
                            let v = m[NAMES[to]];
                            if acc.len() > 1 {
                                ties += 1;
                            } else {
                                must += 1;
                            }
                            let ok = if from == to { Q::from_decimal(v) == Q::int(2) } else { acc.iter().any(|r| r.mul(Q::int(2)).approx_eq_decimal(v, 20)) };
                            if !ok {
                                let kind = if from == to {
                                    "identity"
                                } else if acc.len() > 1 {
                                    "outside-accept-set-of-tie"
                                } else {
                                    "wrong-rate"
                                };
                                return Outcome::violation(format!("conversion-value/{}", kind), format!("{}: expected {} got {}", q, acc.iter().map(|r| r.mul(Q::int(2)).to_string()).collect::<Vec<_>>().join(" or "), v));
                            }
                        }
                    }
                }
            }
        }
        let kinds: std::collections::BTreeSet<&str> = facts
            .iter()
            .map(|f| match f.src {
                Src::Db => "db",
                _ => "ledger",
            })
            .collect();
        Outcome::pass(format!("facts{}/{}{}", facts.len(), kinds.into_iter().collect::<Vec<_>>().join("+"), if ties > 0 { "/with-ties" } else { "" }))
    });
    (out, conversions, must)
}

fn run(ctx: &mut Ctx) {
    let dir = oka::scratch_dir("c09");
    let dbpath = dir.join(format!("pricedb-{}.txt", ctx.shard));
    let mut emit = |ctx: &mut Ctx, ncom: usize, facts: Vec<Fact>, reversed: bool| {
        if !ctx.next_is_mine() {
            ctx.skip_cases(1);
            return;
        }
        let ordered: Vec<Fact> = if reversed { facts.iter().rev().cloned().collect() } else { facts.clone() };
        let (text, db) = render(ncom, &ordered);
        let mut conv = 0;
        let mut must = 0;
        ctx.case(
            || format!("{}-- price db --\n{}", text, db),
            || {
                let (o, c, m) = judge(ncom, &facts, &text, &db, &dbpath);
                conv = c;
                must = m;
                o
            },
        );
        ctx.count("transitions", conv);
        ctx.count("validated", must);
        ctx.count("states", if reversed { 0 } else { 1 });
    };
    // 3 commodities: all sets of size <= 3, both file orders
    let a3 = alphabet(3);
    ctx.fact("fact_alphabet_3_commodities", a3.len() as u64);
    emit(ctx, 3, vec![], false);
    for i in 0..a3.len() {
        emit(ctx, 3, vec![a3[i]], false);
    }
    for i in 0..a3.len() {
        for j in i + 1..a3.len() {
            emit(ctx, 3, vec![a3[i], a3[j]], false);
            emit(ctx, 3, vec![a3[i], a3[j]], true);
        }
    }
    for i in 0..a3.len() {
        for j in i + 1..a3.len() {
            for k in j + 1..a3.len() {
                emit(ctx, 3, vec![a3[i], a3[j], a3[k]], false);
                if ctx.tier == Tier::Thorough || (i + j + k) % 4 == 0 {
                    emit(ctx, 3, vec![a3[i], a3[j], a3[k]], true);
                }
            }
        }
    }
    // 4 commodities (3-hop chains, two disjoint components): sets of size <= 2 (quick) / <= 3 (thorough)
    let a4 = alphabet(4);
    ctx.fact("fact_alphabet_4_commodities", a4.len() as u64);
    for i in 0..a4.len() {
        for j in i + 1..a4.len() {
            emit(ctx, 4, vec![a4[i], a4[j]], false);
        }
    }
    // the chain shapes that need three edges: all triples that touch all four commodities
    for i in 0..a4.len() {
        for j in i + 1..a4.len() {
            for k in j + 1..a4.len() {
                let t = [a4[i], a4[j], a4[k]];
                let mut seen = [false; 4];
                for f in &t {
                    seen[f.x] = true;
                    seen[f.y] = true;
                }
                let simple = t.iter().all(|f| f.rate == 2 || f.date == 10);
                if seen.iter().all(|s| *s) && (ctx.tier == Tier::Thorough || simple) {
                    emit(ctx, 4, t.to_vec(), false);
                }
            }
        }
    }
    // price-database-only chains over commodities the ledger never mentions: every triple of database facts that
    // touches all four commodities, in all 6 file orders of the three lines, without any declaration
    {
        let dbf: Vec<Fact> = a4.iter().filter(|f| f.src == Src::Db && (ctx.tier == Tier::Thorough || f.date == 10)).cloned().collect();
        const PERMS: [[usize; 3]; 6] = [[0, 1, 2], [0, 2, 1], [1, 0, 2], [1, 2, 0], [2, 0, 1], [2, 1, 0]];
        for i in 0..dbf.len() {
            for j in i + 1..dbf.len() {
                for k in j + 1..dbf.len() {
                    let t = [dbf[i], dbf[j], dbf[k]];
                    let mut seen = [false; 5];
                    for f in &t {
                        seen[f.x] = true;
                        seen[f.y] = true;
                    }
                    if !seen[..4].iter().all(|s| *s) {
                        continue;
                    }
                    for perm in PERMS {
                        if !ctx.next_is_mine() {
                            ctx.skip_cases(1);
                            continue;
                        }
                        let ordered: Vec<Fact> = perm.iter().map(|x| t[*x]).collect();
                        let (text, db) = render_opt(4, &ordered, false);
                        let mut conv = 0;
                        let mut must = 0;
                        ctx.case(
                            || format!("{}-- price db --\n{}", text, db),
                            || {
                                let (o, c, m) = judge_known(4, &t, &text, &db, &dbpath, seen);
                                conv = c;
                                must = m;
                                match o.verdict {
                                    crate::fw::Verdict::Pass => Outcome::pass(format!("undeclared/{}", o.class)),
                                    _ => o,
                                }
                            },
                        );
                        ctx.count("transitions", conv);
                        ctx.count("validated", must);
                    }
                }
            }
        }
    }
    // five commodities: a diamond AAA-BBB-CCC / AAA-DDD-CCC with a tail CCC-EEE. Every edge comes from the ledger or the
    // database and is dated d1 or d2 (4^5 = 1024 graphs): the better branch of the diamond must also be the one used for
    // the commodity BEHIND the diamond (a search that settles a node too early gets CCC right and EEE wrong)
    {
        const EDGES: [(usize, usize, u32); 5] = [(0, 1, 2), (1, 2, 3), (0, 3, 5), (3, 2, 7), (2, 4, 11)];
        for code in 0..1024u32 {
            let facts: Vec<Fact> = EDGES.iter().enumerate().map(|(i, (x, y, rate))| {
                let o = (code >> (2 * i)) & 3;
                Fact { date: if o & 1 == 0 { 10 } else { 20 }, x: *x, y: *y, rate: *rate, src: if o & 2 == 0 { Src::Cost } else { Src::Db } }
            }).collect();
            emit(ctx, 5, facts, false);
        }
    }
    // a diamond AAA-BBB-DDD / AAA-CCC-DDD whose edges are quoted once (day 10 or day 20), or twice: day 10 and day 20 with the
    // SAME rate (a repeated quote is still the most recent quote: its age counts from day 20), or with different rates.
    // 4^4 graphs x {all from the database, all from the ledger}: the chain whose quotes are less stale must win
    {
        const EDGES: [(usize, usize, u32); 4] = [(0, 1, 2), (1, 3, 3), (0, 2, 5), (2, 3, 7)];
        for src in [Src::Db, Src::Cost] {
            for code in 0..256u32 {
                let mut facts: Vec<Fact> = vec![];
                for (i, (x, y, rate)) in EDGES.iter().enumerate() {
                    match (code >> (2 * i)) & 3 {
                        0 => facts.push(Fact { date: 10, x: *x, y: *y, rate: *rate, src }),
                        1 => facts.push(Fact { date: 20, x: *x, y: *y, rate: *rate, src }),
                        2 => {
                            facts.push(Fact { date: 10, x: *x, y: *y, rate: *rate, src });
                            facts.push(Fact { date: 20, x: *x, y: *y, rate: *rate, src });
                        }
                        _ => {
                            facts.push(Fact { date: 10, x: *x, y: *y, rate: *rate + 10, src });
                            facts.push(Fact { date: 20, x: *x, y: *y, rate: *rate, src });
                        }
                    }
                }
                emit(ctx, 4, facts, false);
            }
        }
    }
    // effective dates: a transaction `2024/01/20=2024/01/05` or `=2024/01/25` states its price on its DATE (day 20); the
    // secondary date after `=` moves nothing. Every single fact and every pair of the 3-commodity alphabet with at least one
    // ledger fact of day 20, with both secondary dates put on all day-20 transactions
    {
        for eff in ["2024/01/05", "2024/01/25"] {
            let mut sets: Vec<Vec<Fact>> = vec![];
            for i in 0..a3.len() {
                sets.push(vec![a3[i]]);
                for j in i + 1..a3.len() {
                    sets.push(vec![a3[i], a3[j]]);
                }
            }
            for facts in sets {
                if !facts.iter().any(|f| f.src != Src::Db && f.date == 20) {
                    continue;
                }
                if !ctx.next_is_mine() {
                    ctx.skip_cases(1);
                    continue;
                }
                let (text, db) = render(3, &facts);
                let text = text.replace("2024/01/20 f\n", &format!("2024/01/20={} f\n", eff));
                let mut conv = 0;
                let mut must = 0;
                ctx.case(
                    || format!("{}-- price db --\n{}", text, db),
                    || {
                        let (o, c, m) = judge(3, &facts, &text, &db, &dbpath);
                        conv = c;
                        must = m;
                        match o.verdict {
                            crate::fw::Verdict::Pass => Outcome::pass(format!("effective-date/{}", o.class)),
                            _ => o,
                        }
                    },
                );
                ctx.count("transitions", conv);
                ctx.count("validated", must);
            }
        }
    }
    // a price of exactly zero is a price: `P d AAA 0 BBB` makes 1 AAA worth 0 BBB from d on (the reverse direction has no
    // finite rate and is not judged). With and without an older non-zero price for the pair from the ledger or the database.
    {
        let older: [(&str, &str, Vec<GFact>); 4] = [
            ("", "", vec![]),
            ("2024/01/10 f\n  P  1 AAA @ 2 BBB\n  Q  -2 BBB\n\n", "", vec![GFact { date: 10, x: 0, y: 1, rate: Q::int(2), db: false }]),
            ("", "P 2024/01/10 AAA 2 BBB\n", vec![GFact { date: 10, x: 0, y: 1, rate: Q::int(2), db: true }]),
            ("2024/01/30 f\n  P  1 AAA @ 3 BBB\n  Q  -3 BBB\n\n", "", vec![GFact { date: 30, x: 0, y: 1, rate: Q::int(3), db: false }]),
        ];
        for (ltext, dbolder, ofacts) in older.iter() {
            for zero_first in [false, true] {
                if !ctx.next_is_mine() {
                    ctx.skip_cases(1);
                    continue;
                }
                let text = format!("2020/01/01 declare\n  Z  0 AAA\n  Z  0 BBB\n\n{}", ltext);
                let zero_line = "P 2024/01/20 AAA 0 BBB\n";
                let db = if zero_first { format!("{}{}", zero_line, dbolder) } else { format!("{}{}", dbolder, zero_line) };
                let mut facts = ofacts.clone();
                facts.push(GFact { date: 20, x: 0, y: 1, rate: Q::ZERO, db: true });
                let mut conv = 0u64;
                ctx.case(
                    || format!("{}-- price db --\n{}", text, db),
                    || {
                        std::fs::write(&dbpath, &db).expect("write price db");
                        oka::with_ledger(&[(oka::ROOT, text.as_str())], oka::ROOT, Some(&dbpath), |r| {
                            let (l, c) = match r {
                                Ok(x) => x,
                                Err(e) => return Outcome::violation(format!("fact-ledger-rejected/{}", e.variant), format!("{}\n{:?}", e.rendered, e.chain)),
                            };
                            for qd in QD {
                                conv += 1;
                                // forward direction only: 2 AAA in BBB
                                let exp = refprice_q(2, &facts, 0, 1, qd);
                                let got = l.eval(c, "2 AAA", &EvalContext { date: oka::date(2024, 1, qd), exchange: Some("BBB".to_string()) });
                                let q = format!("2 AAA -> BBB as of 2024/01/{:02}", qd);
                                match (&exp, &got) {
                                    (None, Err(_)) => {}
                                    (None, Ok(a)) => return Outcome::violation("zero-price/converted-without-any-chain", format!("{}: got {}", q, a.as_inline_display())),
                                    (Some(acc), Err(e)) => return Outcome::violation("zero-price/conversion-failed-although-a-price-exists", format!("{}: expected {:?}, got error {}", q, acc.iter().map(|r| r.mul(Q::int(2)).to_string()).collect::<Vec<_>>(), e)),
                                    (Some(acc), Ok(a)) => {
                                        let m = oka::amount_to_qmap(a);
                                        let v = m.get("BBB").copied().unwrap_or(Q::ZERO);
                                        if !acc.iter().any(|r| r.mul(Q::int(2)) == v) || m.iter().any(|(k, x)| k != "BBB" && !x.is_zero()) {
                                            return Outcome::violation("zero-price/wrong-rate", format!("{}: expected {} BBB got {}", q, acc.iter().map(|r| r.mul(Q::int(2)).to_string()).collect::<Vec<_>>().join(" or "), a.as_inline_display()));
                                        }
                                    }
                                }
                            }
                            Outcome::pass("zero-price/most-recent-price-used")
                        })
                    },
                );
                ctx.count("transitions", conv);
                ctx.count("validated", conv);
            }
        }
    }
    // a dead end next to a chain: BBB -> CCC -> DDD are quoted (2, 5) on day 15; AAA has one quote only, of exactly zero,
    // into one of the three (older or newer than the chain, first or last line of the database). AAA leads nowhere, but
    // every conversion among BBB, CCC, DDD still has its chain and its value
    {
        for zero_into in 1..=3usize {
            for zero_day in [10u32, 20] {
                for zero_first in [false, true] {
                    for chain_src in [Src::Db, Src::Cost] {
                        if !ctx.next_is_mine() {
                            ctx.skip_cases(1);
                            continue;
                        }
                        let chain = vec![Fact { date: 15, x: 1, y: 2, rate: 2, src: chain_src }, Fact { date: 15, x: 2, y: 3, rate: 5, src: chain_src }];
                        let (text, chain_db) = render(4, &chain);
                        let zero_line = format!("P 2024/01/{} AAA 0 {}\n", zero_day, NAMES[zero_into]);
                        let db = if zero_first { format!("{}{}", zero_line, chain_db) } else { format!("{}{}", chain_db, zero_line) };
                        let mut conv = 0u64;
                        ctx.case(
                            || format!("{}-- price db --\n{}", text, db),
                            || {
                                std::fs::write(&dbpath, &db).expect("write price db");
                                oka::with_ledger(&[(oka::ROOT, text.as_str())], oka::ROOT, Some(&dbpath), |r| {
                                    let (l, c) = match r {
                                        Ok(x) => x,
                                        Err(e) => return Outcome::violation(format!("fact-ledger-rejected/{}", e.variant), format!("{}\n{:?}", e.rendered, e.chain)),
                                    };
                                    let rate = |from: usize, to: usize| -> Q {
                                        // 1 BBB = 2 CCC, 1 CCC = 5 DDD (reciprocals are exact decimals)
                                        let v = [Q::ONE, Q::int(2), Q::int(10)];
                                        v[to - 1].div(v[from - 1])
                                    };
                                    for from in 1..=3usize {
                                        for to in 1..=3usize {
                                            for qd in [15u32, 20, 31] {
                                                conv += 1;
                                                let got = l.eval(c, &format!("6 {}", NAMES[from]), &EvalContext { date: oka::date(2024, 1, qd), exchange: Some(NAMES[to].to_string()) });
                                                let want = rate(from, to).mul(Q::int(6));
                                                let q = format!("6 {} -> {} as of 2024/01/{:02}", NAMES[from], NAMES[to], qd);
                                                match got {
                                                    Err(e) => return Outcome::violation("dead-end-zero-quote/conversion-failed-although-chain-exists", format!("{}: expected {} {}, got error {}", q, want, NAMES[to], e)),
                                                    Ok(a) => {
                                                        let m = oka::amount_to_qmap(&a);
                                                        let v = m.get(NAMES[to]).copied().unwrap_or(Q::ZERO);
                                                        if v != want || m.iter().any(|(k, x)| k != NAMES[to] && !x.is_zero()) {
                                                            return Outcome::violation("dead-end-zero-quote/wrong-rate", format!("{}: expected {} {} got {}", q, want, NAMES[to], a.as_inline_display()));
                                                        }
                                                    }
                                                }
                                            }
                                        }
                                    }
                                    Outcome::pass("dead-end-zero-quote/chain-unaffected")
                                })
                            },
                        );
                        ctx.count("transitions", conv);
                        ctx.count("validated", conv);
                    }
                }
            }
        }
    }
    // ---- the command line: `okane primitive eval --date D -X TO -f FILE [--price-db DB] 2 FROM` ----
    // the same oracle through the documented observation point of the binary (run in-process exactly as main() runs it):
    // every single fact and every pair of facts over 3 commodities (thorough: both file orders), every (from, to, D),
    // and `--now` absent (today, after every price), on the first day of the month (before every price) and equal to a
    // price date: the conversion date is --date, whatever --now says
    {
        let ldir = oka::scratch_dir("c09");
        let lpath = ldir.join(format!("cli-{}.ledger", ctx.shard));
        let cdb = ldir.join(format!("cli-pricedb-{}.txt", ctx.shard));
        let mut sets: Vec<Vec<Fact>> = vec![vec![]];
        for i in 0..a3.len() {
            sets.push(vec![a3[i]]);
        }
        for i in 0..a3.len() {
            for j in i + 1..a3.len() {
                if ctx.tier == Tier::Thorough || (i + j) % 3 == 0 {
                    sets.push(vec![a3[i], a3[j]]);
                }
                if ctx.tier == Tier::Thorough {
                    sets.push(vec![a3[j], a3[i]]);
                }
            }
        }
        ctx.fact("cli_eval_fact_sets", sets.len() as u64);
        for facts in &sets {
            for now in [None, Some("2024-01-01"), Some("2024-01-15")] {
                if !ctx.next_is_mine() {
                    ctx.skip_cases(1);
                    continue;
                }
                let (text, db) = render(3, facts);
                let mut conv = 0u64;
                ctx.case(
                    || format!("$ okane primitive eval --date 2024-01-<D> -X <TO> {}-f <ledger> {}2 <FROM>   for every FROM, TO, D in {:?}\n{}-- price db --\n{}", now.map(|n| format!("--now {} ", n)).unwrap_or_default(), if db.is_empty() { "" } else { "--price-db <db> " }, QD, text, db),
                    || {
                        std::fs::write(&lpath, &text).expect("write ledger");
                        if !db.is_empty() {
                            std::fs::write(&cdb, &db).expect("write price db");
                        }
                        for from in 0..3usize {
                            for to in 0..3usize {
                                for qd in QD {
                                    conv += 1;
                                    let mut args: Vec<String> = vec!["okane".into(), "primitive".into(), "eval".into(), "--date".into(), format!("2024-01-{:02}", qd), "-X".into(), NAMES[to].into(), "-f".into(), lpath.to_string_lossy().to_string()];
                                    if let Some(n) = now {
                                        args.push("--now".into());
                                        args.push(n.into());
                                    }
                                    if !db.is_empty() {
                                        args.push("--price-db".into());
                                        args.push(cdb.to_string_lossy().to_string());
                                    }
                                    args.push(format!("2 {}", NAMES[from]));
                                    let out = super::c13::run_cli(&args);
                                    let exp = refprice(3, facts, from, to, qd);
                                    let q = format!("okane primitive eval --date 2024-01-{:02} -X {} {}... 2 {}", qd, NAMES[to], now.map(|n| format!("--now {} ", n)).unwrap_or_default(), NAMES[from]);
                                    let ok = out.starts_with("EXIT 0");
                                    match (&exp, ok) {
                                        (None, false) => {}
                                        (None, true) => return Outcome::violation("cli-eval/converted-without-any-chain", format!("{}: no chain of prices dated on or before --date exists, but:\n{}", q, out)),
                                        (Some(acc), false) => return Outcome::violation("cli-eval/conversion-failed-although-chain-exists", format!("{}: expected one of {:?}, but:\n{}", q, acc.iter().map(|r| r.mul(Q::int(2)).to_string()).collect::<Vec<_>>(), out)),
                                        (Some(acc), true) => {
                                            let line = out.lines().nth(1).unwrap_or("").trim();
                                            let parsed = line.split_once(' ').and_then(|(v, c)| v.parse::<rust_decimal::Decimal>().ok().map(|d| (d, c.to_string())));
                                            let (v, c) = match parsed {
                                                Some(x) => x,
                                                None => return Outcome::violation("cli-eval/unreadable-output", format!("{}:\n{}", q, out)),
                                            };
                                            if c != NAMES[to] {
                                                return Outcome::violation("cli-eval/conversion-result-in-wrong-commodity", format!("{}: printed {}", q, line));
                                            }
                                            let good = if from == to { Q::from_decimal(v) == Q::int(2) } else { acc.iter().any(|r| r.mul(Q::int(2)).approx_eq_decimal(v, 20)) };
                                            if !good {
                                                return Outcome::violation("cli-eval/conversion-value", format!("{}: expected {} printed {}", q, acc.iter().map(|r| r.mul(Q::int(2)).to_string()).collect::<Vec<_>>().join(" or "), line));
                                            }
                                        }
                                    }
                                }
                            }
                        }
                        Outcome::pass(format!("cli-eval/facts{}/now-{}", facts.len(), now.unwrap_or("today")))
                    },
                );
                ctx.count("transitions", conv);
                ctx.count("validated", conv);
            }
        }
        let _ = std::fs::remove_file(&lpath);
        let _ = std::fs::remove_file(&cdb);
    }
    if ctx.tier == Tier::Thorough {
        // sets of 4 facts over the 3-commodity alphabet restricted to cost/db sources
        let b: Vec<Fact> = a3.iter().filter(|f| matches!(f.src, Src::Cost | Src::Db) && f.x < f.y).cloned().collect();
        for i in 0..b.len() {
            for j in i + 1..b.len() {
                for k in j + 1..b.len() {
                    for l in k + 1..b.len() {
                        emit(ctx, 3, vec![b[i], b[j], b[k], b[l]], false);
                    }
                }
            }
        }
    }
    let _ = std::fs::remove_file(&dbpath);
}
