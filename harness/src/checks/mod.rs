//! Check registry.
use crate::fw::CheckDef;

pub mod bk;
pub mod c01;
pub mod c02;
pub mod c03;
pub mod c04;
pub mod c05;
pub mod c06;
pub mod c07;
pub mod c08;
pub mod c09;
pub mod c10;
pub mod c11;
pub mod c12;
pub mod c13;
pub mod c14;
pub mod c15;
pub mod c16;
pub mod c17;
pub mod c18;
pub mod c19;
pub mod c20;

pub fn registry() -> &'static [CheckDef] {
    static R: &[CheckDef] = &[
        c01::DEF, c02::DEF, c03::DEF, c04::DEF, c05::DEF, c06::DEF, c07::DEF, c08::DEF, c09::DEF, c10::DEF,
        c11::DEF, c12::DEF, c13::DEF, c14::DEF, c15::DEF, c16::DEF, c17::DEF, c18::DEF, c19::DEF, c20::DEF,
    ];
    R
}
