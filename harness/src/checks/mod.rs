//! Check registry.
use crate::fw::CheckDef;

pub mod bk;
pub mod c01;
pub mod c02;
pub mod c03;
pub mod c07;

pub fn registry() -> &'static [CheckDef] {
    static R: &[CheckDef] = &[c01::DEF, c02::DEF, c03::DEF, c07::DEF];
    R
}
