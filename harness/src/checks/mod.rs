//! Check registry.
use crate::fw::CheckDef;

pub mod c07;

pub fn registry() -> &'static [CheckDef] {
    static R: &[CheckDef] = &[c07::DEF];
    R
}
