//! C13 — same input, same output: runs are deterministic.
//!
//! Deciding pass: for every (ledger, command) of the corpus, run the command in-process through the
//! real CLI entry point once with the default (insertion) iteration order of every internal map and
//! then once for EVERY combination of up to d non-default iteration orders (stateless choice-tree
//! search over the `okane_core::verif` oracle; d = 1 quick, 2 thorough). All observations (stdout
//! bytes, success/failure, error-chain text) must be identical.

use std::cell::RefCell;
use std::collections::BTreeSet;
use std::path::Path;
use std::rc::Rc;

use crate::fw::{CheckDef, Ctx, Outcome};
use crate::oka;

pub const DEF: CheckDef = CheckDef {
    id: "C13",
    run,
    technique: "stateless choice-tree search over the iteration orders of okane's internal hash maps (order-controllable map behind --cfg okane_verif): every execution with <= d non-default orders is run on the real CLI code path and all observations must be byte-identical; plus a labelled free-running sample of fresh hooks-off processes",
    rule: "case = (ledger, command). Ledgers: all sequences of <= 2 (thorough <= 3) transactions from a 10-transaction alphabet (multi-commodity accounts, multi-account, inferred multi-commodity postings, prices incl. tied chains, a failing multi-commodity assertion, an unbalanced 3-commodity transaction). Commands: format, accounts, balance, balance -X (up-to-date and --historical), register, register <account>, primitive eval (with and without -X). Inside a case the explorer enumerates the choice tree of map-iteration orders (n! orders for maps of <= 4 keys, identity/reversal/rotations above) with at most d deviations from insertion order. states = choice-tree nodes visited (executions), transitions = executions compared with the default run",
    assumptions: &[
        "exhaustive over iteration orders of the maps behind the hook (report/balance.rs, report/eval/amount.rs, report/price_db.rs, report/intern.rs); maps left on std (lookup-only) and the import path are covered only by the free-running sample, which is sampling and labelled so",
        "--now is always passed (its default, today's date, is an input, not nondeterminism)",
    ],
    shards: 64,
    hang_s: 60,
    single_worker: false,
};

/// One execution under a choice prefix; returns (observation, trace of (n, chosen)).
fn exec(prefix: &[usize], f: &dyn Fn() -> String) -> (String, Vec<(usize, usize)>) {
    let trace: Rc<RefCell<Vec<(usize, usize)>>> = Rc::new(RefCell::new(Vec::new()));
    let t2 = trace.clone();
    let pre = prefix.to_vec();
    okane_core::verif::set_oracle(Some(Box::new(move |n| {
        let i = t2.borrow().len();
        let c = if i < pre.len() { pre[i] } else { 0 };
        if c >= n {
            // the recorded prefix does not fit this execution: uncontrolled nondeterminism in the harness
            panic!("harness bug: divergence while replaying a choice prefix (choice {} of {} at point {})", c, n, i);
        }
        t2.borrow_mut().push((n, c));
        c
    })));
    let out = f();
    okane_core::verif::set_oracle(None);
    let t = trace.borrow().clone();
    (out, t)
}

pub struct Explored {
    pub executions: u64,
    pub max_points: usize,
    pub outcomes: BTreeSet<String>,
    pub witness: Option<(Vec<usize>, String)>,
}

/// All executions with at most `bound` non-default choices.
pub fn explore(bound: usize, f: &dyn Fn() -> String, tick: &dyn Fn()) -> Explored {
    let mut ex = Explored { executions: 0, max_points: 0, outcomes: BTreeSet::new(), witness: None };
    let (base, trace0) = exec(&[], f);
    ex.executions = 1;
    ex.max_points = trace0.len();
    ex.outcomes.insert(base.clone());
    fn rec(prefix: Vec<usize>, trace: &[(usize, usize)], dev: usize, bound: usize, f: &dyn Fn() -> String, base: &str, ex: &mut Explored, tick: &dyn Fn()) {
        if dev >= bound {
            return;
        }
        for i in prefix.len()..trace.len() {
            for alt in 1..trace[i].0 {
                let mut p: Vec<usize> = trace[..i].iter().map(|x| x.1).collect();
                p.push(alt);
                let (out, t) = exec(&p, f);
                tick();
                ex.executions += 1;
                ex.max_points = ex.max_points.max(t.len());
                if out != base && ex.witness.is_none() {
                    ex.witness = Some((p.clone(), out.clone()));
                }
                ex.outcomes.insert(out);
                if ex.executions > 200_000 {
                    return;
                }
                rec(p, &t, dev + 1, bound, f, base, ex, tick);
            }
        }
    }
    rec(vec![], &trace0, 0, bound, f, &base, &mut ex, tick);
    ex
}

/// Run the CLI in-process exactly like the binary does, returning one observation string.
pub fn run_cli(args: &[String]) -> String {
    use clap::Parser as _;
    let cli = match okane::cmd::Cli::try_parse_from(args) {
        Ok(c) => c,
        Err(e) => return format!("CLAP-ERROR {}", e),
    };
    let mut out: Vec<u8> = vec![];
    match cli.run(&mut out) {
        Ok(()) => format!("EXIT 0\n{}", String::from_utf8_lossy(&out)),
        Err(err) => {
            use std::error::Error;
            let mut s = format!("EXIT 1\n{}--stderr--\n{}\n", String::from_utf8_lossy(&out), err);
            let mut cur: &dyn Error = &err;
            while let Some(src) = cur.source() {
                s.push_str(&format!("Caused by {}\n", src));
                cur = src;
            }
            s
        }
    }
}

fn txn_alphabet() -> Vec<&'static str> {
    vec![
        // multi-commodity account, inferred multi-commodity posting
        "2024/01/10 a\n  A  1 X\n  A  2 Y\n  A  3 Z\n  B\n\n",
        "2024/01/11 b\n  B  5 X\n  C  -5 X\n\n",
        // prices: X->Y, Y->Z, X->Z (tied chains possible)
        "2024/01/12 c\n  A  1 X @ 2 Y\n  B  -2 Y\n\n",
        "2024/01/12 d\n  A  1 Y @ 3 Z\n  B  -3 Z\n\n",
        "2024/01/12 e\n  A  1 X @ 7 Z\n  B  -7 Z\n\n",
        // two price chains X->Y->Z (6) and X->W->Z (8) that tie in every ranking criterion, and a holding of X
        "2024/01/13 f\n  A  1 X @ 2 Y\n  A  1 Y @ 3 Z\n  A  1 X @ 2 W\n  A  1 W @ 4 Z\n  B\n\n",
        // implied exchange
        "2024/01/14 g\n  A  2 X\n  B  -6 Y\n\n",
        // failing: assertion on a multi-commodity account (diagnostic prints the computed balance)
        "2024/01/15 h\n  A  1 X = 100 X\n  A  1 Y\n  A  1 Z\n  B\n\n",
        // failing: three-commodity residual
        "2024/01/16 i\n  A  1 X\n  B  2 Y\n  C  3 Z\n\n",
        // failing: three-commodity residual of mixed signs (whether two of them look like an implied exchange must not
        // depend on which two are looked at first)
        "2024/01/16 m\n  A  10 X\n  B  -5 Y\n  C  3 Z\n\n",
        // cost with a multi-commodity expression (must be rejected the same way every time)
        "2024/01/17 j\n  A  5 W @ (1 X + 2 Y)\n  B\n\n",
        // three holdings whose values in Z have 29 significant digits: decimal addition rounds when the running sum
        // exceeds 96 bits, so (a + b) - b and a + (b - b) differ in the last digit - a conversion that sums in map
        // order prints different figures per run
        // account names that differ only by case: any ordering key coarser than the name itself leaves them tied
        "2024/01/19 l\n  Assets:Bank  1 X\n  Assets:bank  2 X\n  ASSETS:BANK  3 X\n  assets:Bank  -6 X\n\n",
        // five commodities: S is quoted in P and in Q, both are quoted only in Y, Y in Z - two three-hop chains of identical
        // rank that split BELOW the target's neighbour (30 Z or 48 Z for one S)
        "2024/01/20 n\n  A  1 S @ 3 P\n  A  1 S @ 4 Q\n  A  1 P @ 5 Y\n  A  1 Q @ 6 Y\n  A  1 Y @ 2 Z\n  B\n\n",
        // a residual below the declared precision of F next to a commodity without any declaration (its total is an exact
        // zero entry of the same amount): whether the transaction balances must not depend on which is visited first
        "commodity F\n  format 1.00 F\n\n2024/01/21 o\n  A  1.00475 F\n  B  -1 F\n  A  1 X\n  B  -1 X\n\n",
        // a posting amount whose expression leaves a zero-valued second commodity behind: accepted or refused, but the same way
        // every time
        "2024/01/22 q\n  A  (100 X + 5 Y - 5 Y)\n  B\n\n",
        // an amount-less posting next to explicit postings in which one commodity already cancels: the inferred amount
        // carries a zero-valued X next to a non-zero Y, and a conversion walks over both entries of that map
        "2024/01/23 r\n  A  1 X\n  A  2 Y\n  C  -1 X\n  B\n\n",
        // failing: a residual of exactly two commodities on the same side (the forgotten minus sign of an exchange)
        "2024/01/24 s\n  A  1 X\n  B  2 Y\n\n",
        // two commodities whose names differ only in letter case, and a command that asks for a third spelling
        "2024/01/25 u\n  A  1 Zz\n  A  1 zZ\n  A  1 Z\n  B\n\n",
        "2024/01/18 k\n  H  1 P @ 5.1111111111111111111111111111 Z\n  H  1 Q @ 4.0000000000000000000000000004 Z\n  H  -1 R @ 4.0000000000000000000000000004 Z\n  B\n\n",
    ]
}

fn commands(path: &str) -> Vec<Vec<String>> {
    let s = |v: &[&str]| -> Vec<String> { v.iter().map(|x| x.to_string()).collect() };
    vec![
        s(&["okane", "balance", path]),
        s(&["okane", "register", path]),
        s(&["okane", "register", path, "A"]),
        s(&["okane", "accounts", path]),
        s(&["okane", "format", path]),
        s(&["okane", "balance", "-X", "Z", "--now", "2024-02-01", path]),
        s(&["okane", "balance", "-X", "Y", "--historical", "--now", "2024-02-01", path]),
        s(&["okane", "balance", "-X", "X", "--now", "2024-01-12", "--start", "2024-01-11", path]),
        s(&["okane", "primitive", "eval", "--date", "2024-02-01", "-f", path, "1 X + 2 Y + 3 Z"]),
        s(&["okane", "primitive", "eval", "--date", "2024-02-01", "-X", "Z", "-f", path, "1 X + 2 Y"]),
        // an expression that leaves a zero-valued commodity next to a non-zero one, converted
        s(&["okane", "primitive", "eval", "--date", "2024-02-01", "-X", "Z", "-f", path, "1 X - 1 X + 2 Y"]),
        s(&["okane", "balance", "-X", "Z", "--historical", "--now", "2024-02-01", path]),
        // a target that is no commodity's exact name (but equals two of them up to letter case)
        s(&["okane", "balance", "-X", "ZZ", "--now", "2024-02-01", path]),
    ]
}

const PRELUDE: &str = "2024/01/01 declare\n  Z0  0 X\n  Z0  0 Y\n  Z0  0 Z\n  Z0  0 W\n  Z0  0 P\n  Z0  0 Q\n  Z0  0 R\n  Z0  0 S\n\n";

fn judge(text: &str, cmd_index: usize, path: &Path, bound: usize, ctx_tick: &dyn Fn(), execs: &mut u64) -> Outcome {
    std::fs::write(path, text).expect("write scratch ledger");
    let args = commands(&path.to_string_lossy())[cmd_index].clone();
    let pstr = path.to_string_lossy().to_string();
    // the scratch path contains the worker's pid: it is an input, not part of the observation
    let f = || run_cli(&args).replace(&pstr, "<file>");
    let ex = explore(bound, &f, ctx_tick);
    *execs = ex.executions;
    let cmdname = args[1..].iter().filter(|a| !a.contains('/')).cloned().collect::<Vec<_>>().join(" ");
    if ex.outcomes.len() > 1 {
        let base = ex.outcomes.iter().next().unwrap().clone();
        let (choices, other) = ex.witness.clone().unwrap();
        let base_run = {
            let (b, _) = exec(&[], &f);
            b
        };
        let kind = if base_run.starts_with("EXIT 0") != other.starts_with("EXIT 0") {
            "success-or-failure-differs"
        } else if base_run.starts_with("EXIT 0") {
            "stdout-differs"
        } else {
            "error-text-differs"
        };
        let _ = base;
        return Outcome::violation(
            format!("{}/{}", kind, args[1..].iter().filter(|a| !a.contains('/') && !a.contains("2024")).cloned().collect::<Vec<_>>().join("_")),
            format!("command: okane {}\n{} distinct observations over {} executions; map-order choice vector {:?}\n--- default order ---\n{}\n--- other order ---\n{}", cmdname, ex.outcomes.len(), ex.executions, choices, base_run, other),
        );
    }
    let ok = ex.outcomes.iter().next().map(|o| o.starts_with("EXIT 0")).unwrap_or(false);
    Outcome::pass(format!("deterministic/{}/{}/points{}", args[1], if ok { "ok" } else { "fails" }, ex.max_points.min(9)))
}

pub const OFF_BINARY: &str = "/verif/target/off/release/okane";

/// Free-running pass (SAMPLING, labelled as such): the hooks-off binary in `runs` fresh processes
/// (fresh random hash state each), observations compared byte for byte.
fn free_running(args: &[String], runs: usize, tick: &dyn Fn()) -> Outcome {
    if !Path::new(OFF_BINARY).exists() {
        panic!("harness bug: hooks-off binary {} is missing (./okv build creates it)", OFF_BINARY);
    }
    let mut first: Option<String> = None;
    for i in 0..runs {
        let out = std::process::Command::new(OFF_BINARY).args(&args[1..]).env_remove("RUST_LOG").output().expect("spawn okane");
        tick();
        let obs = format!("status={:?}\n--stdout--\n{}--stderr--\n{}", out.status.code(), String::from_utf8_lossy(&out.stdout), String::from_utf8_lossy(&out.stderr));
        match &first {
            None => first = Some(obs),
            Some(f) => {
                if *f != obs {
                    return Outcome::violation(
                        format!("free-running/process-output-differs/{}", args[1]),
                        format!("fresh process #{} differs from process #0 for: okane {}\n--- #0 ---\n{}\n--- #{} ---\n{}", i, args[1..].join(" "), f, i, obs),
                    );
                }
            }
        }
    }
    Outcome::pass(format!("free-running-sample/{}/{}-processes-identical", args[1], runs))
}

fn run(ctx: &mut Ctx) {
    let alpha = txn_alphabet();
    let n = alpha.len() as u64;
    let maxlen = ctx.tier.pick(2u32, 3u32);
    let bound = ctx.tier.pick(1usize, 2usize);
    ctx.fact("deviation_bound", bound as u64);
    let dir = oka::scratch_dir("c13");
    let path = dir.join(format!("case-{}.ledger", ctx.shard));
    let ncmd = commands("x").len();
    for len in 1..=maxlen {
        for k in 0..n.pow(len) {
            let mut text = String::from(PRELUDE);
            let mut x = k;
            for _ in 0..len {
                text.push_str(alpha[(x % n) as usize]);
                x /= n;
            }
            for ci in 0..ncmd {
                if !ctx.next_is_mine() {
                    ctx.skip_cases(1);
                    continue;
                }
                let mut execs = 0u64;
                let tick_ctx: *const Ctx = ctx;
                let tick = move || unsafe { (*tick_ctx).tick() };
                let desc_cmd = commands("<file>")[ci].join(" ");
                ctx.case(|| format!("$ {}\n{}", desc_cmd, text), || judge(&text, ci, &path, bound, &tick, &mut execs));
                ctx.count("states", execs);
                ctx.count("transitions", execs);
                ctx.count("validated", execs);
            }
        }
    }
    // ---- import: rewrite rules whose AND element has several fields (the fields live in a hash map) ----
    // every pair / triple of fields from a 5-field alphabet as one AND element, on 3 records, through `okane import`;
    // the order in which the element's fields are applied is a choice point (hook in cli/src/import/extract.rs)
    {
        // Camt053: every regex field may capture payee / code, and the `payee` field matches the payee captured so far
        let fields: [(&str, &str); 6] = [
            ("creditor_name", "'(?P<payee>.+)'"),
            ("debtor_name", "'(?P<payee>.+)'"),
            ("remittance_unstructured_info", "'(?P<payee>[A-Z ]{5,})'"),
            ("additional_transaction_info", "'(?P<code>\\d{5,})'"),
            ("additional_entry_info", "'Payment (?P<payee>order)'"),
            ("payee", "'(?i)okane'"),
        ];
        let mut elements: Vec<Vec<usize>> = vec![];
        for a in 0..fields.len() {
            for b in a + 1..fields.len() {
                if fields[a].0 != fields[b].0 {
                    elements.push(vec![a, b]);
                }
                for c in b + 1..fields.len() {
                    let ks = [fields[a].0, fields[b].0, fields[c].0];
                    if ks[0] != ks[1] && ks[1] != ks[2] && ks[0] != ks[2] {
                        elements.push(vec![a, b, c]);
                    }
                }
            }
        }
        ctx.fact("import_and_elements", elements.len() as u64);
        let stmt = std::fs::read_to_string("/repo/cli/tests/testdata/import/iso_camt.xml").expect("the repository's camt053 sample");
        let idir = dir.join(format!("import-{}", ctx.shard));
        for el in &elements {
            if !ctx.next_is_mine() {
                ctx.skip_cases(1);
                continue;
            }
            let mut matcher = String::new();
            for (i, f) in el.iter().enumerate() {
                matcher.push_str(&format!("{}{}: {}\n", if i == 0 { "    - " } else { "      " }, fields[*f].0, fields[*f].1));
            }
            let cfg = format!("path: \"iso_camt\"\nencoding: UTF-8\naccount: \"Assets:Okane Bank\"\naccount_type: asset\noperator: Okane Bank\ncommodity: CHF\nrewrite:\n  - account: Expenses:Matched\n    matcher:\n{}", matcher);
            let mut execs = 0u64;
            let tick_ctx: *const Ctx = ctx;
            let tick = move || unsafe { (*tick_ctx).tick() };
            ctx.case(
                || format!("$ okane import --config c.yml iso_camt.xml   (the repository's sample statement cli/tests/testdata/import/iso_camt.xml)\n== c.yml ==\n{}", cfg),
                || {
                    std::fs::create_dir_all(&idir).expect("mkdir");
                    let cp = idir.join("c.yml");
                    let sp = idir.join("iso_camt.xml");
                    std::fs::write(&cp, &cfg).expect("write config");
                    std::fs::write(&sp, &stmt).expect("write statement");
                    let args: Vec<String> = ["okane", "import", "--config", &cp.to_string_lossy(), &sp.to_string_lossy()].iter().map(|x| x.to_string()).collect();
                    let dstr = idir.to_string_lossy().to_string();
                    let f = || run_cli(&args).replace(&dstr, "<dir>");
                    let ex = explore(bound.max(1), &f, &tick);
                    execs = ex.executions;
                    if ex.outcomes.len() > 1 {
                        let (choices, other) = ex.witness.clone().unwrap();
                        let (base_run, _) = exec(&[], &f);
                        return Outcome::violation(
                            "stdout-differs/import/and-element-field-order",
                            format!("{} distinct observations over {} executions; field-order choice vector {:?}\n--- default order ---\n{}\n--- other order ---\n{}", ex.outcomes.len(), ex.executions, choices, base_run, other),
                        );
                    }
                    let o = ex.outcomes.iter().next().cloned().unwrap_or_default();
                    Outcome::pass(format!("deterministic/import/{}/points{}", if o.starts_with("EXIT 0") { "ok" } else { "fails" }, ex.max_points.min(9)))
                },
            );
            ctx.count("states", execs);
            ctx.count("transitions", execs);
            ctx.count("validated", execs);
        }
    }
    // ---- import: the CSV field map (format.fields is a hash map; hook in cli/src/import/csv.rs) ----
    // every subset of >= 2 of 4 optional fields, each field valid or carrying a broken template: the diagnostic
    // (which broken field is named) and the output must not depend on the order in which the map yields its entries
    {
        let opt: [(&str, &str, &str); 4] = [
            ("note", "      template: \"{category} x\"", "      template: \"{nosuch1\""),
            ("category", "category", "      template: \"{nosuch2\""),
            ("commodity", "commodity", "      template: \"{nosuch3\""),
            ("payee", "payee", "      template: \"{nosuch4\""),
        ];
        let csv = "date,payee,amount,category,commodity\n2024-01-05,MIGROS 1234 Zurich,-20.50,Grocery stores,CHF\n2024-01-07,Salary,1000.00,Income,CHF\n";
        let fdir = dir.join(format!("fieldmap-{}", ctx.shard));
        // state of each optional field: 0 = absent, 1 = valid, 2 = broken template
        for code in 0..81u32 {
            let st: Vec<u32> = (0..4).map(|i| (code / 3u32.pow(i)) % 3).collect();
            if st[3] == 0 || st.iter().filter(|x| **x == 2).count() < 2 {
                // payee is mandatory; with fewer than two broken fields there is nothing to choose between
                continue;
            }
            if !ctx.next_is_mine() {
                ctx.skip_cases(1);
                continue;
            }
            let mut fields = String::from("    date: date\n    amount: amount\n");
            for (i, (name, valid, broken)) in opt.iter().enumerate() {
                match st[i] {
                    1 if valid.starts_with(' ') => fields.push_str(&format!("    {}:\n{}\n", name, valid)),
                    1 => fields.push_str(&format!("    {}: {}\n", name, valid)),
                    2 => fields.push_str(&format!("    {}:\n{}\n", name, broken)),
                    _ => {}
                }
            }
            let cfg = format!("path: \"stmt\"\nencoding: UTF-8\naccount: \"Assets:Bank\"\naccount_type: asset\ncommodity: CHF\nformat:\n  date: \"%Y-%m-%d\"\n  fields:\n{}rewrite: []\n", fields);
            let mut execs = 0u64;
            let tick_ctx: *const Ctx = ctx;
            let tick = move || unsafe { (*tick_ctx).tick() };
            ctx.case(
                || format!("$ okane import --config c.yml stmt.csv\n== c.yml ==\n{}== stmt.csv ==\n{}", cfg, csv),
                || {
                    std::fs::create_dir_all(&fdir).expect("mkdir");
                    let cp = fdir.join("c.yml");
                    let sp = fdir.join("stmt.csv");
                    std::fs::write(&cp, &cfg).expect("write config");
                    std::fs::write(&sp, csv).expect("write statement");
                    let args: Vec<String> = ["okane", "import", "--config", &cp.to_string_lossy(), &sp.to_string_lossy()].iter().map(|x| x.to_string()).collect();
                    let dstr = fdir.to_string_lossy().to_string();
                    let f = || run_cli(&args).replace(&dstr, "<dir>");
                    let ex = explore(bound.max(1), &f, &tick);
                    execs = ex.executions;
                    if ex.outcomes.len() > 1 {
                        let (choices, other) = ex.witness.clone().unwrap();
                        let (base_run, _) = exec(&[], &f);
                        return Outcome::violation(
                            "error-text-differs/import/csv-field-map-order",
                            format!("{} distinct observations over {} executions; entry-order choice vector {:?}\n--- default order ---\n{}\n--- other order ---\n{}", ex.outcomes.len(), ex.executions, choices, base_run, other),
                        );
                    }
                    let o = ex.outcomes.iter().next().cloned().unwrap_or_default();
                    Outcome::pass(format!("deterministic/import-field-map/{}/points{}", if o.starts_with("EXIT 0") { "ok" } else { "fails" }, ex.max_points.min(9)))
                },
            );
            ctx.count("states", execs);
            ctx.count("transitions", execs);
            ctx.count("validated", execs);
        }
    }
    // ---- free-running sample (not the basis of the verdict of the pass above; a difference IS a violation) ----
    let runs = ctx.tier.pick(6usize, 12usize);
    let fr_path = dir.join(format!("free-{}.ledger", ctx.shard));
    for k in 0..n.pow(2) {
        if k % 3 != 0 {
            continue;
        }
        let text = format!("{}{}{}", PRELUDE, alpha[(k % n) as usize], alpha[(k / n) as usize]);
        for ci in [0usize, 1, 5, 8] {
            if !ctx.next_is_mine() {
                ctx.skip_cases(1);
                continue;
            }
            let tick_ctx: *const Ctx = ctx;
            let tick = move || unsafe { (*tick_ctx).tick() };
            let desc_cmd = commands("<file>")[ci].join(" ");
            ctx.case(
                || format!("[free-running sample, {} fresh processes] $ {}\n{}", runs, desc_cmd, text),
                || {
                    std::fs::write(&fr_path, &text).expect("write scratch ledger");
                    free_running(&commands(&fr_path.to_string_lossy())[ci], runs, &tick)
                },
            );
        }
    }
    // import with a label-based field map whose labels are missing from the CSV header (2, 3 and 4 missing labels): the
    // diagnostic lists them - in the same order every time
    {
        let ldir = dir.join(format!("labels-{}", ctx.shard));
        for missing in 2..=4usize {
            let names = ["Balance", "Memo", "Category", "Currency"];
            let mut fields = String::from("    date: Date\n    payee: Payee\n    amount: Amount\n");
            for (k, n) in [("balance", names[0]), ("note", names[1]), ("category", names[2]), ("commodity", names[3])].iter().take(missing) {
                fields.push_str(&format!("    {}: {}\n", k, n));
            }
            let cfg = format!("path: \"stmt\"\nencoding: UTF-8\naccount: \"Assets:Bank\"\naccount_type: asset\ncommodity: CHF\nformat:\n  date: \"%Y-%m-%d\"\n  fields:\n{}rewrite: []\n", fields);
            let tick_ctx: *const Ctx = ctx;
            let tick = move || unsafe { (*tick_ctx).tick() };
            ctx.case(
                || format!("[free-running sample, {} fresh processes] $ okane import --config c.yml stmt.csv (header lacks {} configured labels)\n{}", runs * 2, missing, cfg),
                || {
                    std::fs::create_dir_all(&ldir).expect("mkdir");
                    let cp = ldir.join("c.yml");
                    let sp = ldir.join("stmt.csv");
                    std::fs::write(&cp, &cfg).expect("write config");
                    std::fs::write(&sp, "Date,Payee,Amount\n2024-01-05,Shop,-20.50\n").expect("write statement");
                    let args: Vec<String> = ["okane", "import", "--config", &cp.to_string_lossy(), &sp.to_string_lossy()].iter().map(|x| x.to_string()).collect();
                    free_running(&args, runs * 2, &tick)
                },
            );
        }
    }
    // import with a configuration made of several matching fragments: one common fragment plus 2, 3 or 4 fragments whose
    // paths have the SAME length (per-card / per-year / per-month / per-bank) and which disagree on the account and on an
    // overlapping rewrite rule: the merge order among equals is the document order, every time
    {
        let mdir = dir.join(format!("frags-{}", ctx.shard));
        for k in 2..=4usize {
            let keys = ["visa_", "2024_", "_jan_", "bank_"];
            let mut cfg = String::from("path: \"csv/\"\nencoding: UTF-8\naccount: \"Assets:Common\"\naccount_type: asset\ncommodity: CHF\nformat:\n  date: \"%Y-%m-%d\"\n  fields:\n    date: Date\n    payee: Payee\n    amount: Amount\nrewrite: []\n");
            for (i, key) in keys.iter().take(k).enumerate() {
                cfg.push_str(&format!("---\npath: \"{}\"\naccount: \"Assets:Frag{}\"\nrewrite:\n  - matcher:\n      payee: Shop\n    account: \"Expenses:Rule{}\"\n", key, i, i));
            }
            let tick_ctx: *const Ctx = ctx;
            let tick = move || unsafe { (*tick_ctx).tick() };
            ctx.case(
                || format!("[free-running sample, {} fresh processes] $ okane import --config c.yml csv/bank_visa_2024_jan_.csv ({} matching fragments with paths of equal length)\n{}", runs * 2, k, cfg),
                || {
                    std::fs::create_dir_all(mdir.join("csv")).expect("mkdir");
                    let cp = mdir.join("c.yml");
                    let sp = mdir.join("csv").join("bank_visa_2024_jan_.csv");
                    std::fs::write(&cp, &cfg).expect("write config");
                    std::fs::write(&sp, "Date,Payee,Amount\n2024-01-05,Shop,-20.50\n2024-01-06,Other,-1.00\n").expect("write statement");
                    let args: Vec<String> = ["okane", "import", "--config", &cp.to_string_lossy(), &sp.to_string_lossy()].iter().map(|x| x.to_string()).collect();
                    let o = free_running(&args, runs * 2, &tick);
                    // (guard against a vacuous sample: the import must have succeeded)
                    let out = std::process::Command::new(OFF_BINARY).args(&args[1..]).output().expect("spawn okane");
                    if !out.status.success() {
                        panic!("harness bug: multi-fragment import sample does not import: {}", String::from_utf8_lossy(&out.stderr));
                    }
                    o
                },
            );
        }
    }
    // import on the repository's own statement samples
    let tdir = "/repo/cli/tests/testdata/import";
    for f in ["csv_multi_currency.csv", "csv_template.csv", "index_amount.csv", "label_credit_debit.csv", "iso_camt.xml", "viseca.txt"] {
        let args: Vec<String> = ["okane", "import", "--config", &format!("{}/test_config.yml", tdir), &format!("{}/{}", tdir, f)].iter().map(|x| x.to_string()).collect();
        let tick_ctx: *const Ctx = ctx;
        let tick = move || unsafe { (*tick_ctx).tick() };
        ctx.case(|| format!("[free-running sample, {} fresh processes] $ {}", runs * 2, args.join(" ")), || free_running(&args, runs * 2, &tick));
    }
}
