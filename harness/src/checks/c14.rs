//! C14 — diagnostics name the right file and line.
//!
//! case = (prefix context, fault, location, file system).
//!
//! A *bad file* is assembled by the generator as a list of lines
//!     [lead blank lines] [valid prefix content] [setup entries] [gap blank lines] BAD ENTRY [gap] [valid suffix]
//! joined with LF or CRLF, with or without a final line end. The generator therefore knows, in ORIGINAL-file
//! numbering, the first line of the bad entry, its last line and the line carrying the injected fault. The bad
//! file is the root, or is reached from a root (which has its own content before the include line) through a
//! literal or glob include at depth 1 or 2. The real okane code (`report::process` over `FakeFileSystem`, and
//! for a deterministic subset the in-process CLI over real files) must reject it; its diagnostic (top error +
//! `source()` chain, i.e. exactly what cli/src/bin/okane.rs prints) is parsed and judged:
//!
//! A third family puts an `include` line (of an empty, blank, comment-only or valid file, literal or glob) into the
//! bad file itself BEFORE the bad entry: files that were included and finished must not be named.
//!
//! A fourth family runs the real `okane` binary (every sub-command that loads a ledger) and judges its stderr: the
//! only observation point that executes `main`, which decides how much of the error chain is printed.
//!
//! An eighth family (adjacency) puts the bad entry DIRECTLY, without a blank line, before / after every kind of
//! top-level entry of doc/syntax.md (top comment with each comment prefix, account / commodity declaration, apply tag,
//! end apply tag, include, transaction), with every kind of last line of the bad entry itself (for declarations:
//! alias / note / format / comment line with each of the 5 comment prefixes): a neighbour is another entry.
//!
//!  F  the diagnostic names the bad file (` --> path:l:c` / `failed to parse file path`), and NO location header
//!     names the root, a sibling or an intermediate file (a second, contradicting header is a violation);
//!  L  every line number it shows (gutter numbers and `l` of `-->`) is >= the first line of the bad entry, and
//!     <= its last line (semantic fault) resp. <= the fault line (syntax fault; numbers between the fault line and
//!     the end of the entry are DON'T-CARE, numbers beyond the entry are violations);
//!  T  the source text printed next to gutter number N is line N of the ORIGINAL bad file (catches any off-by-k).

use std::collections::BTreeMap;
use std::path::PathBuf;

use crate::fw::{CheckDef, Ctx, Outcome, Tier};
use crate::oka;

pub const DEF: CheckDef = CheckDef {
    id: "C14",
    run,
    technique: "bounded-exhaustive enumeration of (prefix context x fault x include location) with generator-computed first/last/fault line of the one invalid entry in original-file numbering; the rendered error chain of the real loader/parser/book-keeper (FakeFileSystem in-process, and the in-process CLI on real files for a fixed subset) is parsed (named path, `-->` line, gutter numbers, snippet text) and compared with the generator's numbers and with the original file's lines",
    rule: "case = (context, fault, location, fs). Context = 8 slots with a default each (leading blank lines 0-3; blank lines between preceding content and the bad entry 1/0/2/3; LF/CRLF; preceding content none/comment block/transaction/two transactions/directives/mix; multi-byte marker none/2-/3-/4-byte UTF-8 in preceding payees, comments, account names and inside the bad entry before the fault; following content none/transaction/transaction+comment; blank lines after the bad entry 1/0/2; final newline present/absent): all contexts with <= 2 non-default slots (thorough: ALL contexts, i.e. the full product of the 8 slots). Fault = every entry of the fault table (syntactic: bad date, bad effective date, unknown directive, malformed number / unclosed parenthesis / duplicated lot price / dangling @ / dangling = / bad lot date / trailing garbage on posting k=1..3, unindented posting, bare include, bad sub-line of account/commodity, malformed apply tag / end; semantic: unbalanced, false assertion on posting j, two omitted postings, zero rate, zero total, same-commodity cost/lot, zero lot, zero amount with cost, expression errors, `= 0` on a multi-commodity account, account/commodity alias conflicts). Location = root, or literal/glob include at depth 1/2 below a root with a short or long preamble (and, for faults needing an earlier declaration, that declaration in the bad file or in the root). Include-before-entry family: in the file of the bad entry (root or included) an `include` line precedes the entry, its target being an empty / newline-only / whitespace-only / comment-only / valid file or a glob matching blank files among valid ones (7 kinds) x all faults x contexts with <= 1 (thorough <= 2) non-default slots  x root + 4 include shapes (thorough: all locations). Binary family: the real hooks-off `okane` binary (stderr = the diagnostic) for balance, register, primitive eval (+ accounts, primitive flatten for syntax faults) x all faults x default context (thorough <= 1 non-default slot) x root + 4 include shapes (+ after an include of an empty file). Long-entry family: transactions of 2, 5, 10, 11, 12, 30 lines with the fault (false assertion, zero rate, same-commodity cost, second omitted posting, dangling @, unclosed parenthesis) on EVERY posting line incl. the last x contexts with <= 1 (thorough <= 2) non-default slots x root / literal depth 1 / glob depth 2 (thorough: all locations), plus the real binary for faults on entry line 11 and on the last line. Entry-end family (full product, no deviation bound): last line of the entry = posting / posting with inline note / `;` comment line / tag line / key-value line / comment or note line of a directive x followed by 0-3 empty lines or one whitespace-only line and then the next entry or the end of the file (also EOF without final newline) x all semantic faults and the syntactic ones not on the last line x LF/CRLF x root / literal depth 1 / glob depth 2 (thorough: all locations and markers). Scale family: the entry starts at line 255, 256, 257, 32767, 32768, 65535, 65536, 65537, 100000, 131073 of its file after that many blank lines / comment lines / valid transactions x {false assertion on posting 2, unbalanced, dangling @} x root and included file (LF), plus the real binary beyond line 65535. Adjacency family: the entry stands directly (0 blank lines) after / before each of 20 neighbour entries = every kind of top-level entry of doc/syntax.md (top comment with prefix ; # % | *, 3-line comment block with mixed prefixes, account bare / ending with alias / comment / note, commodity bare / ending with format / comment, apply tag, end apply tag, include of a valid file, transaction ending with a posting / comment line / inline note, header-only transaction): (a) neighbour after x every last-line kind of the entry (transactions: posting / inline note / comment / tag / key-value line; declarations: as generated / note / format / comment line with each of the 5 comment prefixes / two comment lines) x all semantic faults and the syntactic ones not on the last line, (b) neighbour before x all faults, (c, thorough) neighbour before x neighbour after; x LF/CRLF x root / literal depth 1 / glob depth 2 (thorough: all locations and markers), plus the real binary (unbalanced transaction x every neighbour; rejected declarations x every last-line kind x every top-comment kind). Per-posting syntax faults include unclosed `(` lot note, `{`, `{{`, `[` and stray closers, and all following content carries `( ) @ { } [ ] \"`. states = cases executed, transitions = line numbers + snippet lines compared",
    assumptions: &[
        "the generator's own line arithmetic (positions in a Vec of lines) is the reference; every line of a generated file is textually distinct from its neighbours, so a snippet line identifies its line number",
        "for a syntax error the allowed range is [first line of the entry, fault line]; a number after the fault line but inside the entry (or the blank line / end of file directly after it) is DON'T-CARE because the statement does not pin where a parser may stop; a number before the entry or inside another entry is a violation",
        "column numbers, message wording and the choice of annotated sub-spans are not judged",
        "the extent of an entry is that of doc/syntax.md: detail lines of an account / commodity declaration and metadata lines of a transaction are indented (`sp+`), so a comment line in column 0 directly after an entry is a top-level comment, i.e. another entry (also core/src/parse/metadata.rs test block_metadata_stops_at_top_level_comment), and no line of a neighbouring entry may be shown even when no blank line separates them",
        "title of the property (\"name the right file and line\"): a rejection whose diagnostic shows no line number at all (no gutter, no `-->`) is a violation; a binary that ends with a status other than 0/1 (panic, signal) while rendering is a crash violation",
        "every location header (` --> p:l:c`, `failed to parse file p`, any `p:<digit>` of a loaded file) must name the file holding the offending line, also when the right file is named elsewhere in the same diagnostic; a bare mention of another loaded file outside a location header is DON'T-CARE",
        "the binary's stderr cannot be classified by phase (parse / book-keeping) without trusting its text, so the phase cross-check is skipped there; exit status 1 = rejected, 0 = accepted, anything else is reported as a crash",
        "real-file-system subset: all faults x all locations (plus a depth-2 include through `../`) x contexts with <= 1 (thorough <= 2) non-default slots, through `okane balance` (and `register` / `accounts`, `primitive flatten`; in quick these only in the default context) run in-process exactly like cli/src/bin/okane.rs",
    ],
    shards: 64,
    hang_s: 20,
    single_worker: false,
};

// ------------------------------------------------------------------------------------------
// Context slots (value 0 = default)

const NSLOTS: usize = 8;
const S_LEAD: usize = 0;
const S_GAP: usize = 1;
const S_EOL: usize = 2;
const S_PREFIX: usize = 3;
const S_MB: usize = 4;
const S_SUFFIX: usize = 5;
const S_GAPAFTER: usize = 6;
const S_FINALNL: usize = 7;
/// number of values of each slot
const DOMS: [u8; NSLOTS] = [4, 4, 2, 6, 4, 3, 3, 2];
const SLOT_NAMES: [&str; NSLOTS] = ["lead-blank", "gap-before", "eol", "prefix", "multibyte", "suffix", "gap-after", "final-newline"];

type Slots = [u8; NSLOTS];

fn slot_value_name(slot: usize, v: u8) -> String {
    match slot {
        S_LEAD => format!("{}", v),
        S_GAP => format!("{}", [1, 0, 2, 3][v as usize]),
        S_EOL => ["LF", "CRLF"][v as usize].to_string(),
        S_PREFIX => ["none", "comment-block", "transaction", "two-transactions", "directives", "mix"][v as usize].to_string(),
        S_MB => ["none", "2-byte", "3-byte", "4-byte"][v as usize].to_string(),
        S_SUFFIX => ["none", "transaction", "transaction+comment"][v as usize].to_string(),
        S_GAPAFTER => format!("{}", [1, 0, 2][v as usize]),
        S_FINALNL => ["present", "absent"][v as usize].to_string(),
        _ => unreachable!(),
    }
}

fn deviations(s: &Slots) -> usize {
    s.iter().filter(|v| **v != 0).count()
}

/// All canonical contexts with at most `d` non-default slots, simplest first.
fn contexts(d: usize) -> Vec<Slots> {
    let mut out: Vec<Slots> = vec![];
    let total: usize = DOMS.iter().map(|x| *x as usize).product();
    for mut k in 0..total {
        let mut s: Slots = [0; NSLOTS];
        for i in (0..NSLOTS).rev() {
            s[i] = (k % DOMS[i] as usize) as u8;
            k /= DOMS[i] as usize;
        }
        // canonical form: a gap needs something on the other side of it
        if s[S_GAP] != 0 && s[S_PREFIX] == 0 {
            continue;
        }
        if s[S_GAPAFTER] != 0 && s[S_SUFFIX] == 0 {
            continue;
        }
        if deviations(&s) <= d {
            out.push(s);
        }
    }
    out.sort_by_key(|s| deviations(s)); // stable: lexicographic inside one deviation count
    out
}

fn marker(mb: u8) -> &'static str {
    match mb {
        0 => "",
        1 => "\u{e9}",     // 2 bytes
        2 => "\u{65e5}",   // 3 bytes
        _ => "\u{1F600}",  // 4 bytes
    }
}

fn v(xs: &[&str]) -> Vec<String> {
    xs.iter().map(|x| x.to_string()).collect()
}

fn prefix_lines(kind: u8, m: &str) -> Vec<String> {
    let comment = vec![format!("; ledger of {m} things"), format!("; second comment line {m}{m}")];
    let txn = vec![format!("2024/01/03 * Grocer {m}"), format!("  Pre:Food{m}    12.50 X"), format!("  Pre:Cash{m}")];
    let txn_b = vec![
        format!("2024/01/04 ! (c7) Rent {m} paid"),
        format!("  ; by transfer {m}"),
        format!("  Pre:Rent{m}    700 X"),
        "  Pre:Fee    1 X".to_string(),
        "  Pre:Bank  -701 X".to_string(),
    ];
    let directives = vec![
        format!("account Pre:Cash{m}"),
        format!("  note wallet {m}"),
        format!("  alias PreWallet{m}"),
        String::new(),
        "commodity CHF".to_string(),
        format!("  note franc {m}"),
        "  format 1,000.00 CHF".to_string(),
    ];
    let join = |parts: Vec<&Vec<String>>| -> Vec<String> {
        let mut o = vec![];
        for (i, p) in parts.iter().enumerate() {
            if i > 0 {
                o.push(String::new());
            }
            o.extend(p.iter().cloned());
        }
        o
    };
    match kind {
        0 => vec![],
        1 => comment,
        2 => txn,
        3 => join(vec![&txn, &txn_b]),
        4 => directives,
        _ => join(vec![&comment, &directives, &txn]),
    }
}

fn suffix_lines(kind: u8, m: &str) -> Vec<String> {
    // later content carries every kind of delimiter (matching and unrelated to an unclosed one in the bad entry)
    let txn = vec![
        format!("2024/03/01 Later {m}"),
        "  Post:A  (1 X + 2 X) @ 3 Y".to_string(),
        format!("  Post:D  2 X {{4 Y}} [2024/01/01] (lot {m} note)"),
        "  Post:Q  1 \"QR\"".to_string(),
        "  Post:B".to_string(),
    ];
    match kind {
        0 => vec![],
        1 => txn,
        _ => {
            let mut o = txn;
            o.push(String::new());
            o.push(format!("; trailing comment {m}"));
            o
        }
    }
}

// ------------------------------------------------------------------------------------------
// Faults

#[derive(Clone, Copy, PartialEq, Eq, Debug)]
enum Kind {
    Syntax,
    Semantic,
}

#[derive(Clone, Debug)]
struct Fault {
    name: String,
    /// coarse family for class / signature strings
    family: &'static str,
    kind: Kind,
    /// valid entries that must be seen earlier for the fault to exist (alias conflicts, `= 0`)
    setup: Vec<String>,
    lines: Vec<String>,
    /// index in `lines` of the line carrying the injected fault (syntax faults)
    fault: usize,
}

/// The transaction template: header, a memo line, posting 1, a posting comment, posting 2, posting 3.
/// Returns the lines and the line index of posting k (1-based) inside them.
fn txn_template(m: &str, header: Option<String>, amounts: [&str; 3]) -> Vec<String> {
    let accts = ["Bad:A", "Bad:B", "Bad:C"];
    let post = |i: usize| -> String {
        if amounts[i].is_empty() {
            format!("  {}{}", accts[i], m)
        } else {
            format!("  {}{}    {}", accts[i], m, amounts[i])
        }
    };
    vec![
        header.unwrap_or_else(|| format!("2024/02/02 * (b1) Bad {m} entry")),
        format!("  ; memo {m}"),
        post(0),
        format!("    ; about the first {m}"),
        post(1),
        post(2),
    ]
}
const POST_LINE: [usize; 4] = [usize::MAX, 2, 4, 5];

fn faults(m: &str) -> Vec<Fault> {
    let mut out: Vec<Fault> = vec![];
    let ok = ["1 X", "2 X", "-3 X"];
    let with = |k: usize, s: &str| -> [String; 3] {
        let mut a = [ok[0].to_string(), ok[1].to_string(), ok[2].to_string()];
        a[k - 1] = s.to_string();
        a
    };
    let tt = |h: Option<String>, a: &[String; 3]| txn_template(m, h, [a[0].as_str(), a[1].as_str(), a[2].as_str()]);
    let okv = [ok[0].to_string(), ok[1].to_string(), ok[2].to_string()];

    // ---- syntactic ----
    out.push(Fault { name: "bad-date".into(), family: "bad-date", kind: Kind::Syntax, setup: vec![], lines: tt(Some(format!("2024/13/02 Bad {m} entry")), &okv), fault: 0 });
    // a date that is syntactically a date but not a day of the calendar: the parse error carries an extra underlying cause
    out.push(Fault { name: "invalid-calendar-day".into(), family: "bad-date", kind: Kind::Syntax, setup: vec![], lines: tt(Some(format!("2024/02/30 Bad {m} entry")), &okv), fault: 0 });
    out.push(Fault { name: "invalid-calendar-day-dashes".into(), family: "bad-date", kind: Kind::Syntax, setup: vec![], lines: tt(Some(format!("2023-02-29 Bad {m} entry")), &okv), fault: 0 });
    out.push(Fault { name: "bad-effective-date".into(), family: "bad-effective-date", kind: Kind::Syntax, setup: vec![], lines: tt(Some(format!("2024/02/02=2024/13/01 Bad {m} entry")), &okv), fault: 0 });
    out.push(Fault { name: "unknown-directive".into(), family: "unknown-directive", kind: Kind::Syntax, setup: vec![], lines: vec![format!("bogus{m} directive here")], fault: 0 });
    out.push(Fault { name: "unknown-directive-with-sublines".into(), family: "unknown-directive", kind: Kind::Syntax, setup: vec![], lines: vec![format!("P 2024/02/02 {m} 5 X"), format!("  sub line {m}"), "  other sub line".into()], fault: 0 });
    let per_posting: [(&'static str, &str); 10] = [
        ("malformed-number", "1.2.3 X"),
        ("unclosed-paren", "(1 X + 1 X"),
        ("dup-lot-price", "2 X {1 Y} {2 Y}"),
        ("dangling-at", "2 X @"),
        ("dangling-eq", "2 X ="),
        ("bad-lot-date", "2 X [2024/13/01]"),
        ("trailing-garbage", "2 X garbage"),
        ("double-at", "2 X @ @ 1 Y"),
        ("number-out-of-range", "1000000000000000000000000000000000000000 X"),
        ("invalid-calendar-day-in-lot", "2 X [2024/02/30]"),
    ];
    for (fam, s) in per_posting {
        for k in 1..=3usize {
            out.push(Fault { name: format!("{}-on-posting-{}", fam, k), family: fam, kind: Kind::Syntax, setup: vec![], lines: tt(None, &with(k, s)), fault: POST_LINE[k] });
        }
    }
    // unclosed / stray delimiters of every kind okane knows (it has no string quoting: `2 "AB` is a commodity named `"AB`)
    let unclosed: [(&'static str, &str); 5] = [
        ("unclosed-lot-note", "2 X (second lot"),
        ("unclosed-lot-brace", "2 X {1 Y"),
        ("unclosed-lot-double-brace", "2 X {{1 Y"),
        ("unclosed-lot-bracket", "2 X [2024/01/01"),
        ("stray-closing-delimiters", "2 X )}]"),
    ];
    for (fam, s) in unclosed {
        for k in 2..=3usize {
            out.push(Fault { name: format!("{}-on-posting-{}", fam, k), family: fam, kind: Kind::Syntax, setup: vec![], lines: tt(None, &with(k, s)), fault: POST_LINE[k] });
        }
    }
    // an unindented posting: everything before it is a valid balanced transaction
    out.push(Fault {
        name: "unindented-posting".into(),
        family: "unindented-posting",
        kind: Kind::Syntax,
        setup: vec![],
        lines: vec![format!("2024/02/02 Bad {m} entry"), format!("  Bad:A{m}    1 X"), format!("  Bad:B{m}   -1 X"), format!("Bad:C{m}    0 X")],
        fault: 3,
    });
    out.push(Fault { name: "bare-include".into(), family: "bare-include", kind: Kind::Syntax, setup: vec![], lines: v(&["include"]), fault: 0 });
    out.push(Fault {
        name: "bad-account-subline".into(),
        family: "bad-directive-subline",
        kind: Kind::Syntax,
        setup: vec![],
        lines: vec![format!("account Bad:Z{m}"), format!("  note about {m}"), format!("  bogus{m} sub directive"), "  alias Bad:ZZ".into()],
        fault: 2,
    });
    out.push(Fault {
        name: "bad-commodity-format".into(),
        family: "bad-directive-subline",
        kind: Kind::Syntax,
        setup: vec![],
        lines: vec!["commodity BADC".into(), format!("  note about {m}"), "  format 1.2.3 BADC".into()],
        fault: 2,
    });
    out.push(Fault { name: "malformed-apply-tag".into(), family: "malformed-apply-end", kind: Kind::Syntax, setup: vec![], lines: vec![format!("apply tagg foo{m}")], fault: 0 });
    out.push(Fault { name: "malformed-end".into(), family: "malformed-apply-end", kind: Kind::Syntax, setup: vec![], lines: v(&["end apply tagx"]), fault: 0 });

    // ---- semantic ----
    let sem = |name: String, family: &'static str, setup: Vec<String>, lines: Vec<String>| Fault { name, family, kind: Kind::Semantic, setup, lines, fault: 0 };
    out.push(sem("unbalanced".into(), "unbalanced", vec![], tt(None, &with(3, "-4 X"))));
    out.push(sem("unbalanced-three-commodities".into(), "unbalanced", vec![], tt(None, &["1 X".into(), "2 Y".into(), "3 Z".into()])));
    for k in 1..=3usize {
        out.push(sem(format!("false-assertion-on-posting-{}", k), "false-assertion", vec![], tt(None, &with(k, &format!("{} = 100 X", ok[k - 1])))));
    }
    out.push(sem("assertion-other-commodity-on-posting-2".into(), "false-assertion", vec![], tt(None, &with(2, "2 X = 2 Y"))));
    for (i, j) in [(1usize, 2usize), (1, 3), (2, 3)] {
        let mut a = okv.clone();
        a[i - 1] = String::new();
        a[j - 1] = String::new();
        out.push(sem(format!("two-omitted-postings-{}-{}", i, j), "two-omitted", vec![], tt(None, &a)));
    }
    let per_posting_sem: [(&'static str, &str); 10] = [
        ("zero-rate", "2 X @ 0 Y"),
        ("zero-total", "2 X @@ 0 Y"),
        ("same-commodity-cost", "2 X @ 3 X"),
        ("zero-lot", "2 X {0 Y}"),
        ("same-commodity-lot", "2 X {3 X}"),
        ("zero-amount-with-cost", "0 @ 2 Y"),
        ("divide-by-zero", "(1 X / 0)"),
        ("unmatched-operands", "(1 X + 1)"),
        ("multi-commodity-amount", "(1 X + 1 Y)"),
        ("bare-number-rate", "2 X @ 0"),
    ];
    for (fam, s) in per_posting_sem {
        for k in [1usize, 3] {
            let mut a = with(k, s);
            // let the remaining postings be inferable: omit the amount of another posting
            let other = if k == 3 { 0 } else { 2 };
            a[other] = String::new();
            out.push(sem(format!("{}-on-posting-{}", fam, k), fam, vec![], tt(None, &a)));
        }
    }
    out.push(sem(
        "assign-zero-on-multi-commodity-account".into(),
        "assign-zero-multi",
        vec![format!("2024/02/01 Seed {m}"), format!("  Bad:Multi{m}    1 X"), format!("  Bad:Multi{m}    1 Y"), "  Bad:Seed".into()],
        vec![format!("2024/02/02 * (b1) Bad {m} entry"), format!("  ; memo {m}"), "  Bad:A    1 X".into(), format!("  Bad:Multi{m}    = 0"), "  Bad:C".into()],
    ));
    out.push(sem(
        "account-alias-already-canonical".into(),
        "alias-conflict",
        vec![format!("account Bad:P{m}"), "  note the first".into()],
        vec![format!("account Bad:Q{m}"), format!("  note the second {m}"), format!("  alias Bad:P{m}")],
    ));
    out.push(sem(
        "account-alias-already-used-in-transaction".into(),
        "alias-conflict",
        vec![format!("2024/02/01 Seed {m}"), format!("  Bad:P{m}    1 X"), "  Bad:Seed".into()],
        vec![format!("account Bad:Q{m}"), format!("  ; comment {m}"), format!("  alias Bad:P{m}")],
    ));
    out.push(sem(
        "account-canonical-already-alias".into(),
        "alias-conflict",
        vec!["account Bad:P".into(), format!("  alias BadAl{m}")],
        vec![format!("account BadAl{m}"), format!("  note clash {m}")],
    ));
    out.push(sem("commodity-alias-already-canonical".into(), "alias-conflict", v(&["commodity BADC"]), vec!["commodity BADD".into(), format!("  note second {m}"), "  alias BADC".into()]));
    out.push(sem("commodity-canonical-already-alias".into(), "alias-conflict", v(&["commodity BADC", "  alias BADE"]), vec!["commodity BADE".into(), format!("  note clash {m}")]));
    out
}

/// Long entries: a transaction of n lines in total (header, postings, and from 10 lines on a posting comment after
/// every fourth posting) with the fault on EVERY posting line, the last line included.
const LONG_SIZES: [usize; 6] = [2, 5, 10, 11, 12, 30];

fn long_faults(m: &str) -> Vec<Fault> {
    let mut out = vec![];
    for n in LONG_SIZES {
        // body layout: which of the n-1 body lines are postings
        let mut is_post: Vec<bool> = vec![];
        for b in 0..n - 1 {
            is_post.push(!(n >= 10 && b % 5 == 3 && b != n - 2));
        }
        let nposts = is_post.iter().filter(|x| **x).count();
        let amount_of = |pi: usize| -> String {
            if nposts == 1 {
                "0 X".to_string()
            } else if pi == nposts - 1 {
                format!("-{} X", nposts - 1)
            } else {
                "1 X".to_string()
            }
        };
        let kinds: [(&'static str, Kind); 6] = [
            ("long-false-assertion", Kind::Semantic),
            ("long-zero-rate", Kind::Semantic),
            ("long-same-commodity-cost", Kind::Semantic),
            ("long-two-omitted", Kind::Semantic),
            ("long-dangling-at", Kind::Syntax),
            ("long-unclosed-paren", Kind::Syntax),
        ];
        for (fam, kind) in kinds {
            for target in 0..nposts {
                if fam == "long-two-omitted" && nposts < 3 {
                    continue;
                }
                // the other omitted posting: the first one (the second one when the target is the first)
                let other = if target == 0 { 1 } else { 0 };
                let mut lines = vec![format!("2024/02/02 * (L{}) Long {m} entry", n)];
                let mut pi = 0usize;
                let mut fault_line = 0usize;
                for b in 0..n - 1 {
                    if !is_post[b] {
                        lines.push(format!("    ; remark {:02} {m}", b));
                        continue;
                    }
                    let acct = format!("  Long:P{:02}{m}", pi);
                    let a = amount_of(pi);
                    let line = if pi == target {
                        fault_line = lines.len();
                        match fam {
                            "long-false-assertion" => format!("{}    {} = 100 X", acct, a),
                            "long-zero-rate" => format!("{}    {} @ 0 Y", acct, a),
                            "long-same-commodity-cost" => format!("{}    {} @ 2 X", acct, a),
                            "long-two-omitted" => acct.clone(),
                            "long-dangling-at" => format!("{}    {} @", acct, a),
                            _ => format!("{}    ({} + 1 X", acct, a),
                        }
                    } else if fam == "long-two-omitted" && pi == other {
                        acct.clone()
                    } else {
                        format!("{}    {}", acct, a)
                    };
                    lines.push(line);
                    pi += 1;
                }
                out.push(Fault { name: format!("{}/entry-of-{}-lines/fault-on-entry-line-{}", fam, n, fault_line + 1), family: fam, kind, setup: vec![], lines, fault: fault_line });
            }
        }
    }
    out
}

// ------------------------------------------------------------------------------------------
// Bad file assembly

struct BadFile {
    lines: Vec<String>,
    text: String,
    /// 1-based, original-file numbering
    first: usize,
    last: usize,
    fault: usize,
    final_nl: bool,
    /// files included from the bad file BEFORE the bad entry: (path relative to the bad file's directory, content)
    extra: Vec<(String, String)>,
}

/// An `include` line placed in the bad file itself, before the bad entry (0 = none). The diagnostic must still name
/// the bad file, not the file(s) that were included and finished before the entry.
const NINCB: u8 = 8;
fn incb_name(k: u8) -> &'static str {
    ["none", "literal-empty-file", "literal-newlines-only-file", "literal-whitespace-only-file", "literal-comment-only-file", "literal-valid-file", "glob-valid+empty+blank+comment+valid", "glob-valid+empty-last"][k as usize]
}
/// (include target, files) of kind k; every kind has its own directory so that real-file runs never see stale files
fn incb_files(k: u8) -> (String, Vec<(String, String)>) {
    let d = format!("xinc{}", k);
    let valid = |tag: &str| format!("2024/01/08 Included {tag}\n  Inc:{tag}A  4 X\n  Inc:{tag}B\n");
    let f = |name: &str, c: String| (format!("{}/{}", d, name), c);
    match k {
        1 => (format!("{}/empty.ledger", d), vec![f("empty.ledger", String::new())]),
        2 => (format!("{}/blank.ledger", d), vec![f("blank.ledger", "\n\n\n".into())]),
        3 => (format!("{}/spaces.ledger", d), vec![f("spaces.ledger", "  \n\n \n".into())]),
        4 => (format!("{}/comment.ledger", d), vec![f("comment.ledger", "; only a comment\n; and a second line\n".into())]),
        5 => (format!("{}/valid.ledger", d), vec![f("valid.ledger", valid("v"))]),
        6 => (
            format!("{}/*.ledger", d),
            vec![f("a-valid.ledger", valid("a")), f("b-empty.ledger", String::new()), f("c-blank.ledger", "\n\n".into()), f("d-comment.ledger", "; comment only\n".into()), f("e-valid.ledger", valid("e"))],
        ),
        7 => (format!("{}/*.ledger", d), vec![f("a-valid.ledger", valid("a")), f("z-empty.ledger", String::new())]),
        _ => (String::new(), vec![]),
    }
}

/// What follows the bad entry (entry-end family): n empty lines or one whitespace-only line, then the next entry or
/// the end of the file.
#[derive(Clone, Copy, Debug)]
struct Trail {
    blanks: u8,
    ws_line: bool,
    next_entry: bool,
    final_nl: bool,
}

impl Trail {
    fn name(&self) -> String {
        format!(
            "{}, then {}",
            if self.ws_line { "one whitespace-only line".to_string() } else { format!("{} empty line(s)", self.blanks) },
            if self.next_entry { "the next entry".to_string() } else { format!("end of file ({} final newline)", if self.final_nl { "with" } else { "without" }) }
        )
    }
}

fn trails() -> Vec<Trail> {
    let mut out = vec![];
    for next_entry in [true, false] {
        for blanks in 0..=3u8 {
            out.push(Trail { blanks, ws_line: false, next_entry, final_nl: true });
        }
        out.push(Trail { blanks: 1, ws_line: true, next_entry, final_nl: true });
    }
    out.push(Trail { blanks: 0, ws_line: false, next_entry: false, final_nl: false });
    out
}

/// The same fault with another kind of LAST line of the entry (None where the kind does not apply).
const NTAILS: u8 = 12;
fn tail_name(t: u8) -> &'static str {
    [
        "as-generated",
        "inline-note-on-the-last-posting",
        "comment-line",
        "tag-line",
        "key-value-line",
        "note-line-of-a-directive",
        "hash-comment-line-of-a-directive",
        "percent-comment-line-of-a-directive",
        "bar-comment-line-of-a-directive",
        "star-comment-line-of-a-directive",
        "format-line-of-a-commodity-directive",
        "two-comment-lines-of-a-directive",
    ][t as usize]
}
fn tailed(f: &Fault, tail: u8, m: &str) -> Option<Fault> {
    let is_txn = f.lines[0].chars().next().map(|c| c.is_ascii_digit()).unwrap_or(false);
    let commodity = f.lines[0].strip_prefix("commodity ").map(|c| c.trim().to_string());
    let is_directive = f.lines[0].starts_with("account ") || commodity.is_some();
    let mut g = f.clone();
    match tail {
        0 => {}
        1 if is_txn && f.lines.len() > 1 => {
            let n = g.lines.len();
            g.lines[n - 1].push_str(&format!("  ; inline note {m}"));
        }
        2 if is_txn => g.lines.push(format!("    ; trailing remark {m}")),
        2 if is_directive => g.lines.push(format!("  ; trailing remark {m}")),
        3 if is_txn => g.lines.push("    ; :tagA:tagB:".to_string()),
        4 if is_txn => g.lines.push(format!("    ; Payee: Somebody {m}")),
        5 if is_directive => g.lines.push(format!("  note trailing {m}")),
        // every comment prefix of doc/syntax.md (`comment-prefix ::= [;#%|*]`) as the last detail line of a directive
        6 if is_directive => g.lines.push(format!("  # trailing remark {m}")),
        7 if is_directive => g.lines.push(format!("  % trailing remark {m}")),
        8 if is_directive => g.lines.push(format!("  | trailing remark {m}")),
        9 if is_directive => g.lines.push(format!("  * trailing remark {m}")),
        10 if commodity.is_some() => g.lines.push(format!("  format 1,000.00 {}", commodity.unwrap())),
        11 if is_directive => {
            g.lines.push(format!("  ; trailing remark one {m}"));
            g.lines.push(format!("    #% trailing remark two {m}"));
        }
        _ => return None,
    }
    g.name = format!("{}/last-line={}", f.name, tail_name(tail));
    Some(g)
}

/// Neighbour entries (adjacency family): every kind of top-level entry of doc/syntax.md (`directive ::= transaction |
/// top-comment | account-declaration | commodity-declaration | apply-tag | end-apply-tag | include`), each with every
/// kind of last line it can have, to stand DIRECTLY (no blank line) before or after the bad entry. `side` = "pv"
/// (before) / "nx" (after) keeps the texts of the two sides distinct.
struct Neighbour {
    name: &'static str,
    lines: Vec<String>,
    /// files it includes: (path relative to the directory of the bad file, content)
    extra: Vec<(String, String)>,
}

fn neighbours(side: &str, m: &str) -> Vec<Neighbour> {
    let cap = if side == "pv" { "Pv" } else { "Nx" };
    let up = if side == "pv" { "PV" } else { "NX" };
    let n = |name: &'static str, lines: Vec<String>| Neighbour { name, lines, extra: vec![] };
    let mut out = vec![
        n("top-comment-semicolon", vec![format!("; {side} semicolon comment {m}")]),
        n("top-comment-hash", vec![format!("# {side} hash comment {m}")]),
        n("top-comment-percent", vec![format!("% {side} percent comment {m}")]),
        n("top-comment-bar", vec![format!("| {side} bar comment {m}")]),
        n("top-comment-star", vec![format!("* {side} star comment {m}")]),
        n("top-comment-block-of-3-mixed-prefixes", vec![format!(";; {side} block one {m}"), format!("#% {side} block two {m}"), format!("*| {side} block three")]),
        n("account-bare", vec![format!("account {cap}:Bare{m}")]),
        n("account-ending-with-alias", vec![format!("account {cap}:Full{m}"), format!("  ; {side} detail comment {m}"), format!("  note {side} detail note"), format!("  alias {cap}Alias{m}")]),
        n("account-ending-with-comment", vec![format!("account {cap}:Cmt{m}"), format!("  alias {cap}CmtAlias"), format!("  # {side} last detail comment {m}")]),
        n("account-ending-with-note", vec![format!("account {cap}:Noted{m}"), format!("  note {side} last detail note {m}")]),
        n("commodity-bare", vec![format!("commodity {up}C")]),
        n("commodity-ending-with-format", vec![format!("commodity {up}D"), format!("  note {side} commodity note {m}"), format!("  alias {up}DA"), format!("  format 1,000.00 {up}D")]),
        n("commodity-ending-with-comment", vec![format!("commodity {up}E"), format!("  % {side} commodity comment {m}")]),
        n("apply-tag", vec![format!("apply tag {side}tag")]),
        n("end-apply-tag", vec!["end apply tag".to_string()]),
        n("transaction", vec![format!("2024/01/09 {cap} neighbour {m}"), format!("  {cap}:A{m}    3 X"), format!("  {cap}:B")]),
        n("transaction-ending-with-comment-line", vec![format!("2024/01/10 {cap} remarked {m}"), format!("  {cap}:C    3 X"), format!("  {cap}:D"), format!("    ; {side} last remark {m}")]),
        n("transaction-ending-with-inline-note", vec![format!("2024/01/11 {cap} noted {m}"), format!("  {cap}:E    3 X"), format!("  {cap}:F  ; {side} inline {m}")]),
        n("transaction-header-only", vec![format!("2024/01/12 {cap} header only {m}")]),
    ];
    out.push(Neighbour {
        name: "include-of-a-valid-file",
        lines: vec![format!("include {side}inc/valid.ledger")],
        extra: vec![(format!("{side}inc/valid.ledger"), format!("2024/01/08 Included {side}\n  Inc:{cap}A  4 X\n  Inc:{cap}B\n"))],
    });
    out
}

/// Adjacency family: [a valid transaction] [blank] [setup, blank] PREV? BAD NEXT? [blank] [the delimiter-rich later
/// transaction]; no blank line between PREV / BAD / NEXT.
fn build_neighbour_file(eol: u8, mb: u8, f: &Fault, setup_here: bool, prev: Option<&Neighbour>, next: Option<&Neighbour>) -> BadFile {
    let m = marker(mb);
    let mut lines: Vec<String> = prefix_lines(2, m);
    let mut extra = vec![];
    lines.push(String::new());
    if setup_here && !f.setup.is_empty() {
        lines.extend(f.setup.iter().cloned());
        lines.push(String::new());
    }
    if let Some(p) = prev {
        lines.extend(p.lines.iter().cloned());
        extra.extend(p.extra.iter().cloned());
    }
    let first = lines.len() + 1;
    lines.extend(f.lines.iter().cloned());
    let last = lines.len();
    if let Some(n) = next {
        lines.extend(n.lines.iter().cloned());
        extra.extend(n.extra.iter().cloned());
    }
    lines.push(String::new());
    lines.extend(suffix_lines(1, m));
    let eol = if eol == 0 { "\n" } else { "\r\n" };
    let mut text = lines.join(eol);
    text.push_str(eol);
    BadFile { lines, text, first, last, fault: first + f.fault, final_nl: true, extra }
}

fn build_bad_file(s: &Slots, f: &Fault, setup_here: bool, incb: u8) -> BadFile {
    build_bad_file_with(s, f, setup_here, incb, None)
}

fn build_bad_file_with(s: &Slots, f: &Fault, setup_here: bool, incb: u8, trail: Option<&Trail>) -> BadFile {
    let m = marker(s[S_MB]);
    let mut lines: Vec<String> = vec![];
    for _ in 0..s[S_LEAD] {
        lines.push(String::new());
    }
    let pre = prefix_lines(s[S_PREFIX], m);
    let has_pre = !pre.is_empty();
    let has_setup = setup_here && !f.setup.is_empty();
    lines.extend(pre);
    let (inc_target, extra) = incb_files(incb);
    let has_inc = incb != 0;
    if has_inc {
        if has_pre {
            lines.push(String::new());
        }
        lines.push(format!("include {}", inc_target));
    }
    if (has_pre || has_inc) && has_setup {
        lines.push(String::new());
    }
    if has_setup {
        lines.extend(f.setup.iter().cloned());
    }
    if has_pre || has_setup || has_inc {
        for _ in 0..[1, 0, 2, 3][s[S_GAP] as usize] {
            lines.push(String::new());
        }
    }
    let first = lines.len() + 1;
    lines.extend(f.lines.iter().cloned());
    let last = lines.len();
    let fault = first + f.fault;
    let mut suf = suffix_lines(s[S_SUFFIX], m);
    let mut final_nl = s[S_FINALNL] == 0;
    if let Some(t) = trail {
        if t.ws_line {
            lines.push("   ".to_string());
        } else {
            for _ in 0..t.blanks {
                lines.push(String::new());
            }
        }
        suf = vec![];
        if t.next_entry {
            lines.extend(suffix_lines(1, m));
        }
        final_nl = t.final_nl;
    }
    if !suf.is_empty() {
        for _ in 0..[1, 0, 2][s[S_GAPAFTER] as usize] {
            lines.push(String::new());
        }
        lines.extend(suf);
    }
    let eol = if s[S_EOL] == 0 { "\n" } else { "\r\n" };
    let mut text = lines.join(eol);
    if final_nl {
        text.push_str(eol);
    }
    BadFile { lines, text, first, last, fault, final_nl, extra }
}

// ------------------------------------------------------------------------------------------
// Locations

#[derive(Clone, Copy, PartialEq, Eq, Debug)]
enum LocKind {
    Root,
    Lit1,
    Glob1,
    Lit2,
    Glob2,
    /// real file system only: depth 2 through `../`
    Lit2DotDot,
}

#[derive(Clone, Copy, Debug)]
struct Loc {
    kind: LocKind,
    /// root preamble: 0 = short (5 lines), 1 = long (27 lines)
    pre: u8,
    /// put the fault's setup entries into the root (before the include) instead of the bad file
    setup_in_root: bool,
    /// include-before-entry kind inside the bad file (0 = none)
    incb: u8,
}

impl Loc {
    fn name(&self) -> String {
        let k = match self.kind {
            LocKind::Root => "root",
            LocKind::Lit1 => "include-literal-depth1",
            LocKind::Glob1 => "include-glob-depth1",
            LocKind::Lit2 => "include-literal-depth2",
            LocKind::Glob2 => "include-glob-depth2",
            LocKind::Lit2DotDot => "include-dotdot-depth2",
        };
        let base = if self.kind == LocKind::Root {
            k.to_string()
        } else {
            format!("{}/root-preamble-{}{}", k, if self.pre == 0 { "short" } else { "long" }, if self.setup_in_root { "/setup-in-root" } else { "" })
        };
        if self.incb == 0 {
            base
        } else {
            format!("{}/after-an-include-of-{}-in-the-same-file", base, incb_name(self.incb))
        }
    }
}

fn locations(f: &Fault, real_fs: bool) -> Vec<Loc> {
    let mut out = vec![Loc { kind: LocKind::Root, pre: 0, setup_in_root: false, incb: 0 }];
    let mut kinds = vec![LocKind::Lit1, LocKind::Glob1, LocKind::Lit2, LocKind::Glob2];
    if real_fs {
        kinds.push(LocKind::Lit2DotDot);
    }
    for kind in kinds {
        for pre in 0..2u8 {
            out.push(Loc { kind, pre, setup_in_root: false, incb: 0 });
            if !f.setup.is_empty() {
                out.push(Loc { kind, pre, setup_in_root: true, incb: 0 });
            }
        }
    }
    out
}

fn root_preamble(pre: u8) -> Vec<String> {
    let mut o = v(&["; root ledger", "2024/01/01 Root open", "  Root:A   5 X", "  Root:B", ""]);
    if pre == 1 {
        for i in 0..4 {
            o.push(format!("2024/01/02 Root filler {}", i));
            o.push(format!("  ; filler memo {}", i));
            o.push(format!("  Root:F{}   {} X", i, i + 1));
            o.push(format!("  Root:G{}", i));
            o.push(String::new());
        }
        o.push("; end of the long preamble".into());
        o.push(String::new());
    }
    o
}

struct Layout {
    /// (path, content)
    files: Vec<(String, String)>,
    root: String,
    bad_path: String,
}

fn build_layout(base: &str, loc: &Loc, f: &Fault, bf: &BadFile) -> Layout {
    let bad_text: &str = &bf.text;
    let extras = |bad_path: &str| -> Vec<(String, String)> {
        let dir = bad_path.rsplit_once('/').map(|x| x.0).unwrap_or("");
        bf.extra.iter().map(|(rel, c)| (format!("{}/{}", dir, rel), c.clone())).collect()
    };
    let p = |rel: &str| format!("{}/{}", base, rel);
    let root = p("main.ledger");
    if loc.kind == LocKind::Root {
        let mut files = vec![(root.clone(), bad_text.to_string())];
        files.extend(extras(&root));
        return Layout { files, root: root.clone(), bad_path: root };
    }
    let sib_a = "; sibling a\n2024/01/06 Sibling a\n  Sib:A  1 X\n  Sib:B\n".to_string();
    let sib_z = "; sibling z\n\n\n2024/01/07 Sibling z\n  Sib:Y  1 X\n  Sib:Z\n".to_string();
    let mut rootl = root_preamble(loc.pre);
    if loc.setup_in_root {
        rootl.extend(f.setup.iter().cloned());
        rootl.push(String::new());
    }
    let root_tail = v(&["", "2024/12/31 Root close", "  Root:A  1 X", "  Root:B"]);
    let mid_pre = v(&["; mid file", "", "2024/01/05 Mid entry", "  Mid:A  7 X", "  Mid:B", "", "account Mid:C", "  note m", ""]);
    let mid_tail = v(&["", "; end of mid"]);
    let mk = |mut a: Vec<String>, inc: &str, tail: &Vec<String>| -> String {
        a.push(format!("include {}", inc));
        a.extend(tail.iter().cloned());
        let mut t = a.join("\n");
        t.push('\n');
        t
    };
    let mut files: Vec<(String, String)> = vec![];
    let bad_path;
    match loc.kind {
        LocKind::Lit1 => {
            files.push((root.clone(), mk(rootl, "sub/bad.ledger", &root_tail)));
            bad_path = p("sub/bad.ledger");
        }
        LocKind::Glob1 => {
            files.push((root.clone(), mk(rootl, "sub/*.ledger", &root_tail)));
            files.push((p("sub/a-ok.ledger"), sib_a));
            files.push((p("sub/z-ok.ledger"), sib_z));
            bad_path = p("sub/m-bad.ledger");
        }
        LocKind::Lit2 => {
            files.push((root.clone(), mk(rootl, "mid/mid.ledger", &root_tail)));
            files.push((p("mid/mid.ledger"), mk(mid_pre, "deep/bad.ledger", &mid_tail)));
            bad_path = p("mid/deep/bad.ledger");
        }
        LocKind::Glob2 => {
            files.push((root.clone(), mk(rootl, "mid/*.ledger", &root_tail)));
            files.push((p("mid/a-ok.ledger"), sib_a.clone()));
            files.push((p("mid/mid.ledger"), mk(mid_pre, "deep/*.ledger", &mid_tail)));
            files.push((p("mid/deep/a-ok.ledger"), sib_a.replace("ibling a", "ibling deep a").replace("Sib:", "DeepSib:")));
            files.push((p("mid/deep/z-ok.ledger"), sib_z));
            bad_path = p("mid/deep/m-bad.ledger");
        }
        LocKind::Lit2DotDot => {
            files.push((root.clone(), mk(rootl, "mid/mid.ledger", &root_tail)));
            files.push((p("mid/mid.ledger"), mk(mid_pre, "../deep2/bad.ledger", &mid_tail)));
            bad_path = p("deep2/bad.ledger");
        }
        LocKind::Root => unreachable!(),
    }
    files.push((bad_path.clone(), bad_text.to_string()));
    files.extend(extras(&bad_path));
    Layout { files, root, bad_path }
}

// ------------------------------------------------------------------------------------------
// Diagnostic parsing

fn strip_ansi(s: &str) -> String {
    let mut out = String::with_capacity(s.len());
    let mut it = s.chars().peekable();
    while let Some(c) = it.next() {
        if c == '\u{1b}' && it.peek() == Some(&'[') {
            it.next();
            for d in it.by_ref() {
                if d.is_ascii_alphabetic() {
                    break;
                }
            }
        } else {
            out.push(c);
        }
    }
    out
}

/// Lexical normalisation (`.` and `..`), so that `/a/mid/../deep/x` and `/a/deep/x` compare equal.
fn norm_path(p: &str) -> String {
    let mut parts: Vec<&str> = vec![];
    for c in p.split('/') {
        match c {
            "" | "." => {}
            ".." => {
                parts.pop();
            }
            x => parts.push(x),
        }
    }
    format!("/{}", parts.join("/"))
}

#[derive(Debug, Default)]
struct Diag {
    /// every ` --> path:line:col`
    arrows: Vec<(String, usize)>,
    /// every `failed to parse file <path>`
    parse_files: Vec<String>,
    /// (number, text after "N |")
    gutters: Vec<(usize, String)>,
}

fn parse_diag(text: &str) -> Diag {
    let mut d = Diag::default();
    for l in text.lines() {
        if let Some(pos) = l.find("--> ") {
            let rest = l[pos + 4..].trim();
            let mut it = rest.rsplitn(3, ':');
            let col = it.next().and_then(|x| x.parse::<usize>().ok());
            let line = it.next().and_then(|x| x.parse::<usize>().ok());
            let path = it.next();
            if let (Some(_), Some(line), Some(path)) = (col, line, path) {
                d.arrows.push((path.to_string(), line));
                continue;
            }
        }
        if let Some(pos) = l.find("failed to parse file ") {
            d.parse_files.push(l[pos + "failed to parse file ".len()..].trim().to_string());
            continue;
        }
        let t = l.trim_start();
        let digits: String = t.chars().take_while(|c| c.is_ascii_digit()).collect();
        if !digits.is_empty() {
            if let Some(rest) = t[digits.len()..].strip_prefix(" |") {
                if let Ok(n) = digits.parse::<usize>() {
                    d.gutters.push((n, rest.to_string()));
                }
            }
        }
    }
    d
}

/// Does the text printed next to a gutter number equal the original line? The renderer puts one space and, for
/// multi-line annotations, a margin made of ' ', '|' and '/' before the source text.
fn gutter_text_matches(shown: &str, orig: &str) -> bool {
    let shown = shown.trim_end();
    let orig = orig.trim_end();
    match shown.strip_suffix(orig) {
        Some(margin) => margin.chars().count() <= 6 && margin.chars().all(|c| c == ' ' || c == '|' || c == '/'),
        None => false,
    }
}

// ------------------------------------------------------------------------------------------
// Oracle

struct Observed {
    accepted: bool,
    /// "parse" | "bookkeep" | other
    kind: String,
    variant: String,
    text: String,
}

fn judge(obs: &Observed, lay: &Layout, bf: &BadFile, f: &Fault, loc: &Loc, via: &str, compared: &mut u64) -> Outcome {
    let kname = if f.kind == Kind::Syntax { "syntax" } else { "semantic" };
    if obs.accepted {
        // "when a ledger is rejected ...": the statement is silent about accepted input
        return Outcome::dont_care(format!("{}/accepted/{}", via, f.family));
    }
    let want_kind = if f.kind == Kind::Syntax { "parse" } else { "bookkeep" };
    if obs.kind == "crashed" {
        // the binary panicked or was killed instead of printing a diagnostic (thread ids in the text are not stable: not in the signature)
        return Outcome::violation(
            format!("crash/okane-binary-{}/{}/{}", obs.variant, want_kind, if loc.kind == LocKind::Root { "root-file" } else { "included-file" }),
            format!("fault: {} ({})\nlocation: {}\nthe okane binary did not end with status 0 or 1; its stderr:\n{}", f.name, kname, loc.name(), strip_ansi(&obs.text)),
        );
    }
    if obs.kind != want_kind && obs.kind != "unknown" {
        return Outcome::dont_care(format!("{}/rejected-in-another-phase/{}/{}", via, f.family, obs.kind));
    }
    let text = strip_ansi(&obs.text);
    let d = parse_diag(&text);
    let locname = if loc.kind == LocKind::Root { "root-file" } else { "included-file" };
    let ctxt = |extra: String| -> String {
        format!(
            "fault: {} ({})\nlocation: {}\nbad file: {}\nentry lines (original numbering): first={} last={} fault={}\n{}\n--- diagnostic ---\n{}",
            f.name, kname, loc.name(), lay.bad_path, bf.first, bf.last, bf.fault, extra, text
        )
    };
    let bad = norm_path(&lay.bad_path);

    // signatures: clause / phase / where the bad file is / how it was run (details carry fault, variant, command)
    let fsname = if via == "fake-fs" {
        "fake-fs"
    } else if via.starts_with("bin-") {
        "okane-binary"
    } else {
        "cli-real-files"
    };
    let tail = format!("{}/{}/{}", want_kind, locname, fsname);
    let ctxt = |extra: String| -> String { ctxt(format!("okane error: {} (via {})\n{}", obs.variant, via, extra)) };

    // ---- F: the named file ----
    let mut loc_paths: Vec<String> = d.arrows.iter().map(|a| norm_path(&a.0)).collect();
    loc_paths.extend(d.parse_files.iter().map(|p| norm_path(p)));
    let who = |p: &str| -> &'static str {
        if p == norm_path(&lay.root) {
            "the-root-file"
        } else if lay.files.iter().any(|(q, _)| norm_path(q) == p) {
            "another-loaded-file"
        } else {
            "an-unknown-path"
        }
    };
    // every location header must name the file that holds the offending line: a second header blaming another
    // file contradicts the first one even when the right file is named as well
    if let Some(p) = loc_paths.iter().find(|p| **p != bad) {
        return Outcome::violation(format!("names-wrong-file/{}/{}", who(p), tail), ctxt(format!("the diagnostic locates the error in {} but the invalid entry is in {}", p, bad)));
    }
    if loc_paths.is_empty() && !text.contains(&lay.bad_path) && !text.contains(&bad) {
        return Outcome::violation(format!("names-no-file/{}", tail), ctxt("the diagnostic does not name the file containing the invalid entry".into()));
    }
    // any other loaded file shown anywhere: `path:<digit>` is a location claim (violation), a bare mention is not judged
    let mut mentions_other = false;
    for (q, _) in &lay.files {
        if norm_path(q) == bad {
            continue;
        }
        for (pos, _) in text.match_indices(q.as_str()) {
            let rest = &text[pos + q.len()..];
            let mut it = rest.chars();
            if it.next() == Some(':') && it.next().map(|c| c.is_ascii_digit()).unwrap_or(false) {
                return Outcome::violation(format!("names-wrong-file/{}/{}", who(&norm_path(q)), tail), ctxt(format!("the diagnostic attributes a line to {} but the invalid entry is in {}", q, bad)));
            }
            // (a longer path that merely starts with q, e.g. q = /v/main.ledger inside /v/main.ledger.bak, cannot occur: all names are generated)
            mentions_other = true;
        }
    }
    let mut shown: Vec<(usize, &'static str)> = d.gutters.iter().map(|g| (g.0, "gutter")).collect();
    shown.extend(d.arrows.iter().map(|a| (a.1, "`-->`")));
    if shown.is_empty() {
        // "diagnostics name the right file AND LINE": a rejection that shows no line number at all does not
        return Outcome::violation(format!("shows-no-line-number/{}", tail), ctxt("the diagnostic shows no line number at all (no gutter, no `-->`)".into()));
    }

    // ---- T: the text next to gutter number N is line N of the original file ----
    for (n, t) in &d.gutters {
        *compared += 1;
        let orig: Option<&str> = if *n >= 1 && *n <= bf.lines.len() {
            Some(&bf.lines[*n - 1])
        } else if *n == bf.lines.len() + 1 && bf.final_nl {
            Some("")
        } else {
            None
        };
        if !orig.map(|o| gutter_text_matches(t, o)).unwrap_or(false) {
            // which original line is it really? (for a stable, telling signature)
            let real = bf.lines.iter().position(|l| !l.is_empty() && gutter_text_matches(t, l)).map(|i| i + 1);
            let delta = match real {
                Some(r) if *n > r => "number-too-high",
                Some(_) => "number-too-low",
                None => "text-not-in-file",
            };
            return Outcome::violation(
                format!("snippet-line-number-mismatch/{}/{}", delta, tail),
                ctxt(format!(
                    "the snippet shows {:?} next to line number {}, but line {} of the original file is {}{}",
                    t.trim_end(),
                    n,
                    n,
                    orig.map(|o| format!("{:?}", o)).unwrap_or_else(|| format!("beyond its end ({} lines)", bf.lines.len())),
                    real.map(|r| format!(" (the shown text is line {})", r)).unwrap_or_default()
                )),
            );
        }
    }

    // ---- L: line numbers lie within the entry ----
    // the line directly after the entry may be named by a parser that stopped after the line end,
    // provided it is blank or the end of the file (never when it belongs to another entry)
    let after_is_blank_or_eof = match bf.lines.get(bf.last) {
        None => true,
        Some(l) => l.trim().is_empty(),
    };
    let hard_upper = if f.kind == Kind::Syntax && after_is_blank_or_eof { bf.last + 1 } else { bf.last };
    let soft_upper = if f.kind == Kind::Syntax { bf.fault } else { bf.last };
    let mut soft = false;
    for (n, what) in &shown {
        *compared += 1;
        if *n < bf.first {
            return Outcome::violation(format!("line-before-entry/{}", tail), ctxt(format!("{} line number {} is before the first line of the invalid entry ({})", what, n, bf.first)));
        }
        if *n > hard_upper {
            return Outcome::violation(format!("line-after-entry/{}", tail), ctxt(format!("{} line number {} is after the last line of the invalid entry ({})", what, n, bf.last)));
        }
        if *n > soft_upper {
            soft = true;
        }
    }

    if mentions_other {
        return Outcome::dont_care(format!("{}/mentions-another-file-outside-a-location-header/{}", via, f.family));
    }
    if soft {
        return Outcome::dont_care(format!("{}/{}/{}/stopped-after-the-fault-line-inside-entry", via, kname, f.family));
    }
    let rel = if f.kind == Kind::Syntax {
        if shown.iter().all(|(n, _)| *n == bf.fault) {
            "at-fault-line"
        } else {
            "between-entry-start-and-fault-line"
        }
    } else {
        let g: Vec<usize> = d.gutters.iter().map(|g| g.0).collect();
        if g == (bf.first..=bf.last).collect::<Vec<_>>() {
            "whole-entry-shown"
        } else {
            "part-of-entry-shown"
        }
    };
    Outcome::pass(format!("{}/{}/{}/{}", via, kname, f.family, rel))
}

fn observe_fake(lay: &Layout) -> Observed {
    let files: Vec<(&str, &str)> = lay.files.iter().map(|(p, t)| (p.as_str(), t.as_str())).collect();
    oka::with_ledger(&files, &lay.root, None, |r| match r {
        Ok(_) => Observed { accepted: true, kind: String::new(), variant: String::new(), text: String::new() },
        Err(e) => {
            let kind = if e.variant == "Load::Parse" {
                "parse".to_string()
            } else if e.kind == "bookkeep" {
                "bookkeep".to_string()
            } else {
                e.variant.clone()
            };
            let mut text = e.rendered.clone();
            for c in &e.chain {
                text.push_str("\nCaused by ");
                text.push_str(c);
            }
            Observed { accepted: false, kind, variant: e.variant.clone(), text }
        }
    })
}

/// Writes the layout (every location kind has its own directory with a fixed set of file names, so rewriting
/// the files of a case never leaves a stale file of another case behind) and runs the CLI in-process.
/// The real `okane` binary (built without the verification hooks from the same tree): the only observation point
/// that executes `main` of cli/src/bin/okane.rs, i.e. the code that decides which parts of the error chain reach
/// the user's terminal. `<out>/target/off/release/okane` = /verif/target/off/release/okane for registered runs.
fn okane_binary() -> PathBuf {
    let mut p = crate::fw::out_dir().join("target").join("off").join("release").join("okane");
    if !p.exists() {
        // output redirected (OKV_OUT_DIR): the binary `./okv` builds from the current tree
        p = PathBuf::from(super::c13::OFF_BINARY);
    }
    if !p.exists() {
        panic!("harness bug: okane binary {} is missing (./okv build creates it)", p.display());
    }
    p
}

fn write_layout(lay: &Layout, made: &mut std::collections::BTreeSet<PathBuf>) {
    for (p, t) in &lay.files {
        let pb = PathBuf::from(p);
        let parent = pb.parent().expect("parent").to_path_buf();
        if !made.contains(&parent) {
            std::fs::create_dir_all(&parent).expect("harness bug: mkdir scratch");
            made.insert(parent);
        }
        std::fs::write(&pb, t.as_bytes()).expect("harness bug: write scratch file");
    }
}

/// Runs the binary on the layout; the diagnostic is its stderr, byte for byte what the user sees.
fn observe_bin(bin: &std::path::Path, lay: &Layout, made: &mut std::collections::BTreeSet<PathBuf>, args: &[String]) -> Observed {
    write_layout(lay, made);
    let out = std::process::Command::new(bin).args(args).env_remove("RUST_LOG").env_remove("RUST_BACKTRACE").stdin(std::process::Stdio::null()).output().expect("harness bug: spawn okane");
    let stderr = String::from_utf8_lossy(&out.stderr).to_string();
    match out.status.code() {
        Some(0) => Observed { accepted: true, kind: String::new(), variant: String::new(), text: String::new() },
        Some(1) => Observed { accepted: false, kind: "unknown".into(), variant: "as printed by the binary".into(), text: stderr },
        // a panic (101) or a signal is a crash of okane on this input
        other => Observed { accepted: false, kind: "crashed".into(), variant: format!("exit-status-{}", other.map(|c| c.to_string()).unwrap_or_else(|| "signal".into())), text: stderr },
    }
}

fn bin_commands(f: &Fault, root: &str) -> Vec<(String, Vec<String>)> {
    let s = |v: &[&str]| -> Vec<String> { v.iter().map(|x| x.to_string()).collect() };
    let mut out = vec![("balance".to_string(), s(&["balance", root])), ("register".to_string(), s(&["register", root])), ("primitive-eval".to_string(), s(&["primitive", "eval", "--date", "2024-06-01", "-f", root, "1 X"]))];
    if f.kind == Kind::Syntax {
        // these two load without book-keeping: only syntax faults are rejected by them
        out.push(("accounts".to_string(), s(&["accounts", root])));
        out.push(("primitive-flatten".to_string(), s(&["primitive", "flatten", root])));
    }
    out
}

fn observe_cli(lay: &Layout, made: &mut std::collections::BTreeSet<PathBuf>, cmd: &[&str]) -> Observed {
    write_layout(lay, made);
    let mut args: Vec<String> = vec!["okane".into()];
    args.extend(cmd.iter().map(|x| x.to_string()));
    args.push(lay.root.clone());
    let out = super::c13::run_cli(&args);
    if out.starts_with("EXIT 0") {
        return Observed { accepted: true, kind: String::new(), variant: String::new(), text: String::new() };
    }
    let text = match out.split_once("--stderr--\n") {
        Some((_, e)) => e.to_string(),
        None => out.clone(),
    };
    let (kind, variant) = if text.contains("failed to parse file") {
        ("parse", "Load::Parse")
    } else if text.contains("failed to load") || text.contains("CLAP-ERROR") {
        ("load-other", "Load::other")
    } else {
        ("bookkeep", "BookKeep")
    };
    Observed { accepted: false, kind: kind.into(), variant: variant.into(), text }
}

fn describe(s: &Slots, f: &Fault, loc: &Loc, lay: &Layout, bf: &BadFile, via: &str) -> String {
    let mut o = String::new();
    o.push_str(&format!("via: {}\nfault: {} ({:?})\nlocation: {}\ncontext:", via, f.name, f.kind, loc.name()));
    for i in 0..NSLOTS {
        o.push_str(&format!(" {}={}", SLOT_NAMES[i], slot_value_name(i, s[i])));
    }
    o.push_str(&format!("\ninvalid entry: lines {}..={} of {}, fault on line {}\n", bf.first, bf.last, lay.bad_path, bf.fault));
    for (p, t) in &lay.files {
        o.push_str(&format!("=== {}{} ===\n", p, if *p == lay.bad_path { "  (contains the invalid entry; shown with line numbers, \\r made visible)" } else { "" }));
        if *p == lay.bad_path {
            let mut n = 0;
            // very long files (scale family): show the head, then from three lines before the entry on
            let elide = if bf.lines.len() > 300 && bf.first > 12 { Some((7usize, bf.first - 3)) } else { None };
            for l in t.split('\n') {
                n += 1;
                if let Some((a, b)) = elide {
                    if n == a {
                        o.push_str(&format!("     ... lines {}..={} elided (the padding continues in the same pattern) ...\n", a, b - 1));
                    }
                    if n >= a && n < b {
                        continue;
                    }
                }
                o.push_str(&format!("{:>3}: {}\n", n, l.replace('\r', "\\r")));
            }
        } else {
            o.push_str(t);
        }
    }
    o
}

/// The snippet-text clause identifies a line by its text: inside one generated bad file no non-blank line may be
/// a suffix of another one (checked once per process for every fault x marker over the union of all prefix and
/// suffix material).
fn self_check() {
    for mb in 0..DOMS[S_MB] {
        let m = marker(mb);
        let mut common: Vec<String> = vec![];
        for k in 0..DOMS[S_PREFIX] {
            common.extend(prefix_lines(k, m));
        }
        for k in 0..DOMS[S_SUFFIX] {
            common.extend(suffix_lines(k, m));
        }
        for k in 1..NINCB {
            common.push(format!("include {}", incb_files(k).0));
        }
        for side in ["pv", "nx"] {
            for n in neighbours(side, m) {
                common.extend(n.lines);
            }
        }
        common.retain(|l| !l.is_empty());
        common.sort();
        common.dedup();
        let clash = |a: &str, b: &str, what: &str| {
            if a.trim_end().ends_with(b.trim_end()) {
                panic!("harness bug: generated lines are not distinguishable: {:?} ends with {:?} ({})", a, b, what);
            }
        };
        for (i, a) in common.iter().enumerate() {
            for (j, b) in common.iter().enumerate() {
                if i != j {
                    clash(a, b, "shared material");
                }
            }
        }
        let mut tl: Vec<Fault> = vec![];
        for f in faults(m) {
            for t in 1..NTAILS {
                tl.extend(tailed(&f, t, m));
            }
        }
        for f in faults(m).into_iter().chain(long_faults(m)).chain(tl) {
            let mut own: Vec<String> = f.setup.clone();
            own.extend(f.lines.iter().cloned());
            for (i, a) in own.iter().enumerate() {
                for (j, b) in own.iter().enumerate() {
                    if i != j {
                        clash(a, b, &f.name);
                    }
                }
                for b in &common {
                    clash(a, b, &f.name);
                    clash(b, a, &f.name);
                }
            }
            if f.fault >= f.lines.len() {
                panic!("harness bug: fault line outside the entry ({})", f.name);
            }
        }
    }
}

fn run(ctx: &mut Ctx) {
    self_check();
    let maxdev = ctx.tier.pick(2usize, NSLOTS);
    let ctxs = contexts(maxdev);
    let nfaults = faults("").len();
    ctx.fact("max_nondefault_slots", maxdev as u64);
    ctx.fact("contexts", ctxs.len() as u64);
    ctx.fact("faults", nfaults as u64);
    ctx.fact("faults_syntactic", faults("").iter().filter(|f| f.kind == Kind::Syntax).count() as u64);
    ctx.fact("faults_semantic", faults("").iter().filter(|f| f.kind == Kind::Semantic).count() as u64);

    // ---- family 1: FakeFileSystem, report::process in-process ----
    let mut by_mb: BTreeMap<u8, Vec<Fault>> = BTreeMap::new();
    for mb in 0..DOMS[S_MB] {
        by_mb.insert(mb, faults(marker(mb)));
    }
    for s in &ctxs {
        let fs = &by_mb[&s[S_MB]];
        for f in fs {
            for loc in locations(f, false) {
                if !ctx.next_is_mine() {
                    ctx.skip_cases(1);
                    continue;
                }
                let bf = build_bad_file(s, f, !loc.setup_in_root, loc.incb);
                let lay = build_layout("/v", &loc, f, &bf);
                let mut compared = 0u64;
                ctx.case(
                    || describe(s, f, &loc, &lay, &bf, "fake-fs"),
                    || {
                        let obs = observe_fake(&lay);
                        judge(&obs, &lay, &bf, f, &loc, "fake-fs", &mut compared)
                    },
                );
                ctx.count("transitions", compared);
                ctx.count(&format!("cases/location/{}", loc.name().split('/').next().unwrap_or("")), 1);
            }
        }
    }

    // ---- family 2: real files, in-process CLI exactly as the binary prints errors ----
    let cli_ctxs = contexts(ctx.tier.pick(1usize, 2usize));
    ctx.fact("cli_contexts", cli_ctxs.len() as u64);
    let base_dir = oka::scratch_dir("c14");
    let base_dir = std::fs::canonicalize(&base_dir).unwrap_or(base_dir);
    let case_dir = base_dir.join(format!("shard-{}", ctx.shard));
    let base = case_dir.to_string_lossy().to_string();
    let mut made: std::collections::BTreeSet<PathBuf> = Default::default();
    for s in &cli_ctxs {
        let fs = &by_mb[&s[S_MB]];
        for f in fs {
            let mut cmds: Vec<Vec<&str>> = if f.kind == Kind::Syntax { vec![vec!["balance"], vec!["accounts"], vec!["primitive", "flatten"]] } else { vec![vec!["balance"], vec!["register"]] };
            // quick: the other commands (same loader, other entry points) only in the default context
            if ctx.tier == Tier::Quick && deviations(s) > 0 {
                cmds.truncate(1);
            }
            for loc in locations(f, true) {
                for cmd in &cmds {
                    if !ctx.next_is_mine() {
                        ctx.skip_cases(1);
                        continue;
                    }
                    let bf = build_bad_file(s, f, !loc.setup_in_root, loc.incb);
                    let lay = build_layout(&format!("{}/{:?}", base, loc.kind), &loc, f, &bf);
                    let via = format!("cli-{}", cmd.join("-"));
                    let mut compared = 0u64;
                    ctx.case(
                        || describe(s, f, &loc, &lay, &bf, &format!("real files, $ okane {} {}", cmd.join(" "), lay.root)).replace(&base, "<scratch>"),
                        || {
                            let obs = observe_cli(&lay, &mut made, cmd);
                            let mut o = judge(&obs, &lay, &bf, f, &loc, &via, &mut compared);
                            // the scratch path contains the worker's pid: keep details replay-stable
                            if let crate::fw::Verdict::Violation { sig, detail } = &o.verdict {
                                o = Outcome::violation(sig.clone(), detail.replace(&base, "<scratch>"));
                            }
                            o
                        },
                    );
                    ctx.count("transitions", compared);
                    ctx.count("cases/real-file-system", 1);
                }
            }
        }
    }

    // ---- family 3: the bad entry FOLLOWS an `include` line of its own file (root or included file) whose target is
    // an empty / newline-only / whitespace-only / comment-only / valid file, or a glob matching blank files among
    // valid ones: the diagnostic must name the file of the entry, not a file that was included and finished ----
    let f3_ctxs = contexts(ctx.tier.pick(1usize, 2usize));
    let f3_cli_ctxs = contexts(ctx.tier.pick(0usize, 1usize));
    ctx.fact("include_before_entry_kinds", (NINCB - 1) as u64);
    ctx.fact("include_before_entry_contexts", f3_ctxs.len() as u64);
    let thorough = ctx.tier == Tier::Thorough;
    let f3_locs = |f: &Fault, real_fs: bool| -> Vec<Loc> {
        let mut out = vec![];
        for l in locations(f, real_fs) {
            // quick: root + the four include shapes with the short root preamble, earlier declarations in the bad file
            if !thorough && (l.pre != 0 || l.setup_in_root || l.kind == LocKind::Lit2DotDot) {
                continue;
            }
            for incb in 1..NINCB {
                out.push(Loc { incb, ..l });
            }
        }
        out
    };
    for s in &f3_ctxs {
        let fs = &by_mb[&s[S_MB]];
        for f in fs {
            for loc in f3_locs(f, false) {
                if !ctx.next_is_mine() {
                    ctx.skip_cases(1);
                    continue;
                }
                let bf = build_bad_file(s, f, !loc.setup_in_root, loc.incb);
                let lay = build_layout("/v", &loc, f, &bf);
                let mut compared = 0u64;
                ctx.case(
                    || describe(s, f, &loc, &lay, &bf, "fake-fs"),
                    || {
                        let obs = observe_fake(&lay);
                        judge(&obs, &lay, &bf, f, &loc, "fake-fs", &mut compared)
                    },
                );
                ctx.count("transitions", compared);
                ctx.count(&format!("cases/include-before-entry/{}", incb_name(loc.incb)), 1);
            }
        }
    }
    for s in &f3_cli_ctxs {
        let fs = &by_mb[&s[S_MB]];
        for f in fs {
            for loc in f3_locs(f, true) {
                if !ctx.next_is_mine() {
                    ctx.skip_cases(1);
                    continue;
                }
                let cmd: &[&str] = &["balance"];
                let bf = build_bad_file(s, f, !loc.setup_in_root, loc.incb);
                let lay = build_layout(&format!("{}/{:?}", base, loc.kind), &loc, f, &bf);
                let mut compared = 0u64;
                ctx.case(
                    || describe(s, f, &loc, &lay, &bf, &format!("real files, $ okane balance {}", lay.root)).replace(&base, "<scratch>"),
                    || {
                        let obs = observe_cli(&lay, &mut made, cmd);
                        let mut o = judge(&obs, &lay, &bf, f, &loc, "cli-balance", &mut compared);
                        if let crate::fw::Verdict::Violation { sig, detail } = &o.verdict {
                            o = Outcome::violation(sig.clone(), detail.replace(&base, "<scratch>"));
                        }
                        o
                    },
                );
                ctx.count("transitions", compared);
                ctx.count("cases/real-file-system", 1);
            }
        }
    }

    // ---- family 5: long entries (2, 5, 10, 11, 12, 30 lines), the fault on every posting line incl. the last ----
    let f5_ctxs = contexts(ctx.tier.pick(1usize, 2usize));
    let mut long_by_mb: BTreeMap<u8, Vec<Fault>> = BTreeMap::new();
    for mb in 0..DOMS[S_MB] {
        long_by_mb.insert(mb, long_faults(marker(mb)));
    }
    ctx.fact("long_entry_faults", long_by_mb[&0].len() as u64);
    ctx.fact("long_entry_contexts", f5_ctxs.len() as u64);
    let f5_locs = |f: &Fault| -> Vec<Loc> { locations(f, false).into_iter().filter(|l| thorough || l.kind == LocKind::Root || (l.pre == 0 && (l.kind == LocKind::Lit1 || l.kind == LocKind::Glob2))).collect() };
    for s in &f5_ctxs {
        for f in &long_by_mb[&s[S_MB]] {
            for loc in f5_locs(f) {
                if !ctx.next_is_mine() {
                    ctx.skip_cases(1);
                    continue;
                }
                let bf = build_bad_file(s, f, true, 0);
                let lay = build_layout("/v", &loc, f, &bf);
                let mut compared = 0u64;
                ctx.case(
                    || describe(s, f, &loc, &lay, &bf, "fake-fs"),
                    || {
                        let obs = observe_fake(&lay);
                        judge(&obs, &lay, &bf, f, &loc, "fake-fs", &mut compared)
                    },
                );
                ctx.count("transitions", compared);
                ctx.count("cases/long-entry", 1);
            }
        }
    }
    // long entries through the real binary: default context, root and glob depth 2, fault on the last line and on line 11
    {
        let bin = okane_binary();
        let s: Slots = [0; NSLOTS];
        for f in &long_by_mb[&0] {
            let n = f.lines.len();
            if !(n >= 11 && (f.fault == n - 1 || f.fault == 10)) {
                continue;
            }
            for kind in [LocKind::Root, LocKind::Glob2] {
                if !ctx.next_is_mine() {
                    ctx.skip_cases(1);
                    continue;
                }
                let loc = Loc { kind, pre: 0, setup_in_root: false, incb: 0 };
                let bf = build_bad_file(&s, f, true, 0);
                let lay = build_layout(&format!("{}/binlong-{:?}", base, loc.kind), &loc, f, &bf);
                let args: Vec<String> = vec!["balance".into(), lay.root.clone()];
                let mut compared = 0u64;
                ctx.case(
                    || describe(&s, f, &loc, &lay, &bf, &format!("real files, real binary (stderr), $ okane {}", args.join(" "))).replace(&base, "<scratch>"),
                    || {
                        let obs = observe_bin(&bin, &lay, &mut made, &args);
                        let mut o = judge(&obs, &lay, &bf, f, &loc, "bin-balance", &mut compared);
                        if let crate::fw::Verdict::Violation { sig, detail } = &o.verdict {
                            o = Outcome::violation(sig.clone(), detail.replace(&base, "<scratch>"));
                        }
                        o
                    },
                );
                ctx.count("transitions", compared);
                ctx.count("cases/okane-binary", 1);
            }
        }
    }

    // ---- family 6: the END of the entry. Last line of the entry = posting / posting with inline note / `;` comment /
    // tag line / key-value line / note line of a directive, followed by 0-3 empty lines or a whitespace-only line and
    // then the next entry or the end of the file (and EOF without final newline): full product, no deviation bound ----
    {
        let all_trails = trails();
        ctx.fact("entry_end_trails", all_trails.len() as u64);
        ctx.fact("entry_end_last_line_kinds", NTAILS as u64);
        let mbs: Vec<u8> = if thorough { (0..DOMS[S_MB]).collect() } else { vec![0] };
        let bin = okane_binary();
        for mb in mbs {
            let m = marker(mb);
            for eol in 0..2u8 {
                let mut s: Slots = [0; NSLOTS];
                s[S_PREFIX] = 2;
                s[S_EOL] = eol;
                s[S_MB] = mb;
                for f0 in &by_mb[&mb] {
                    // every semantic fault; syntactic ones whose fault is not on the last line (the tail stays untouched text)
                    if f0.kind == Kind::Syntax && f0.fault + 1 >= f0.lines.len() {
                        continue;
                    }
                    for tail in 0..NTAILS {
                        let f = match tailed(f0, tail, m) {
                            Some(f) => f,
                            None => continue,
                        };
                        for trail in &all_trails {
                            let locs: Vec<Loc> = locations(&f, false).into_iter().filter(|l| thorough || l.kind == LocKind::Root || (l.pre == 0 && !l.setup_in_root && (l.kind == LocKind::Lit1 || l.kind == LocKind::Glob2))).collect();
                            for loc in locs {
                                if !ctx.next_is_mine() {
                                    ctx.skip_cases(1);
                                    continue;
                                }
                                let bf = build_bad_file_with(&s, &f, !loc.setup_in_root, 0, Some(trail));
                                let lay = build_layout("/v", &loc, &f, &bf);
                                let mut compared = 0u64;
                                ctx.case(
                                    || describe(&s, &f, &loc, &lay, &bf, &format!("fake-fs; after the entry: {} (suffix/gap-after/final-newline slots overridden)", trail.name())),
                                    || {
                                        let obs = observe_fake(&lay);
                                        judge(&obs, &lay, &bf, &f, &loc, "fake-fs", &mut compared)
                                    },
                                );
                                ctx.count("transitions", compared);
                                ctx.count("cases/entry-end", 1);
                            }
                            // the real binary: the unbalanced transaction, LF, root file
                            if mb == 0 && eol == 0 && f0.name == "unbalanced" {
                                if !ctx.next_is_mine() {
                                    ctx.skip_cases(1);
                                    continue;
                                }
                                let loc = Loc { kind: LocKind::Root, pre: 0, setup_in_root: false, incb: 0 };
                                let bf = build_bad_file_with(&s, &f, true, 0, Some(trail));
                                let lay = build_layout(&format!("{}/binend-{:?}", base, loc.kind), &loc, &f, &bf);
                                let args: Vec<String> = vec!["balance".into(), lay.root.clone()];
                                let mut compared = 0u64;
                                ctx.case(
                                    || describe(&s, &f, &loc, &lay, &bf, &format!("real files, real binary (stderr), $ okane {}; after the entry: {}", args.join(" "), trail.name())).replace(&base, "<scratch>"),
                                    || {
                                        let obs = observe_bin(&bin, &lay, &mut made, &args);
                                        let mut o = judge(&obs, &lay, &bf, &f, &loc, "bin-balance", &mut compared);
                                        if let crate::fw::Verdict::Violation { sig, detail } = &o.verdict {
                                            o = Outcome::violation(sig.clone(), detail.replace(&base, "<scratch>"));
                                        }
                                        o
                                    },
                                );
                                ctx.count("transitions", compared);
                                ctx.count("cases/okane-binary", 1);
                            }
                        }
                    }
                }
            }
        }
    }

    // ---- family 8: adjacency. The bad entry stands DIRECTLY (no blank line) before / after every kind of top-level
    // entry of the grammar (top comment with each of the 5 comment prefixes and a mixed block, account / commodity
    // declarations ending with each kind of detail line, apply tag, end apply tag, include, transactions ending with a
    // posting / comment line / inline note, header-only transaction), with every kind of last line of the bad entry
    // itself: the neighbour is another entry, none of its lines may be shown ----
    {
        let mbs: Vec<u8> = if thorough { (0..DOMS[S_MB]).collect() } else { vec![0] };
        let nneigh = neighbours("nx", "").len();
        ctx.fact("adjacency_neighbour_kinds", nneigh as u64);
        let bin = okane_binary();
        let quick_loc = |l: &Loc| l.kind == LocKind::Root || (l.pre == 0 && !l.setup_in_root && (l.kind == LocKind::Lit1 || l.kind == LocKind::Glob2));
        for mb in mbs {
            let m = marker(mb);
            let prevs = neighbours("pv", m);
            let nexts = neighbours("nx", m);
            for eol in 0..2u8 {
                let mut s: Slots = [0; NSLOTS];
                s[S_PREFIX] = 2;
                s[S_EOL] = eol;
                s[S_MB] = mb;
                for f0 in &by_mb[&mb] {
                    // (prev, next, tail): A = every next x every last-line kind; B = every prev; C (thorough, no marker) = prev x next
                    let mut combos: Vec<(Option<usize>, Option<usize>, u8)> = vec![];
                    let fault_on_last_line = f0.kind == Kind::Syntax && f0.fault + 1 >= f0.lines.len();
                    if !fault_on_last_line {
                        for tail in 0..NTAILS {
                            for nx in 0..nneigh {
                                combos.push((None, Some(nx), tail));
                            }
                        }
                    }
                    for pv in 0..nneigh {
                        combos.push((Some(pv), None, 0));
                    }
                    if thorough && mb == 0 && !fault_on_last_line {
                        for pv in 0..nneigh {
                            for nx in 0..nneigh {
                                combos.push((Some(pv), Some(nx), 0));
                            }
                        }
                    }
                    for (pv, nx, tail) in combos {
                        let f = match tailed(f0, tail, m) {
                            Some(f) => f,
                            None => continue,
                        };
                        let prev = pv.map(|i| &prevs[i]);
                        let next = nx.map(|i| &nexts[i]);
                        let what = format!(
                            "adjacency family: directly before the entry: {}; directly after it: {} (context slots other than eol / multibyte not used)",
                            prev.map(|p| p.name).unwrap_or("a blank line"),
                            next.map(|n| n.name).unwrap_or("a blank line")
                        );
                        let product = pv.is_some() && nx.is_some();
                        let locs: Vec<Loc> = locations(&f, false).into_iter().filter(|l| if thorough && !product { true } else { quick_loc(l) }).collect();
                        for loc in locs {
                            if !ctx.next_is_mine() {
                                ctx.skip_cases(1);
                                continue;
                            }
                            let bf = build_neighbour_file(eol, mb, &f, !loc.setup_in_root, prev, next);
                            let lay = build_layout("/v", &loc, &f, &bf);
                            let mut compared = 0u64;
                            ctx.case(
                                || describe(&s, &f, &loc, &lay, &bf, &format!("fake-fs; {}", what)),
                                || {
                                    let obs = observe_fake(&lay);
                                    judge(&obs, &lay, &bf, &f, &loc, "fake-fs", &mut compared)
                                },
                            );
                            ctx.count("transitions", compared);
                            ctx.count(if nx.is_some() && pv.is_none() { "cases/adjacency/entry-directly-after" } else if product { "cases/adjacency/entries-on-both-sides" } else { "cases/adjacency/entry-directly-before" }, 1);
                        }
                        // the real binary (LF, no marker, root file): the unbalanced transaction with every neighbour on either
                        // side, and the rejected account / commodity declarations followed by each top-comment kind
                        let is_directive = f0.lines[0].starts_with("account ") || f0.lines[0].starts_with("commodity ");
                        let comment_next = next.map(|n| n.name.starts_with("top-comment")).unwrap_or(false);
                        if mb == 0 && eol == 0 && !product && (f0.name == "unbalanced" || (is_directive && f0.kind == Kind::Semantic && comment_next)) {
                            if !ctx.next_is_mine() {
                                ctx.skip_cases(1);
                                continue;
                            }
                            let loc = Loc { kind: LocKind::Root, pre: 0, setup_in_root: false, incb: 0 };
                            let bf = build_neighbour_file(eol, mb, &f, true, prev, next);
                            let lay = build_layout(&format!("{}/binadj-{:?}", base, loc.kind), &loc, &f, &bf);
                            let args: Vec<String> = vec!["balance".into(), lay.root.clone()];
                            let mut compared = 0u64;
                            ctx.case(
                                || describe(&s, &f, &loc, &lay, &bf, &format!("real files, real binary (stderr), $ okane {}; {}", args.join(" "), what)).replace(&base, "<scratch>"),
                                || {
                                    let obs = observe_bin(&bin, &lay, &mut made, &args);
                                    let mut o = judge(&obs, &lay, &bf, &f, &loc, "bin-balance", &mut compared);
                                    if let crate::fw::Verdict::Violation { sig, detail } = &o.verdict {
                                        o = Outcome::violation(sig.clone(), detail.replace(&base, "<scratch>"));
                                    }
                                    o
                                },
                            );
                            ctx.count("transitions", compared);
                            ctx.count("cases/okane-binary", 1);
                            ctx.count("cases/adjacency/okane-binary", 1);
                        }
                    }
                }
            }
        }
    }

    // ---- family 7: scale. The entry starts at line 255..257, 32767/32768, 65535..65537, 100000, 131073 of its file,
    // after that many blank lines / comment lines / valid transactions (LF, root file and included file) ----
    {
        const STARTS: [usize; 10] = [255, 256, 257, 32767, 32768, 65535, 65536, 65537, 100000, 131073];
        const PADS: [&str; 3] = ["blank-lines", "comment-lines", "valid-transactions"];
        let pad_lines = |kind: usize, count: usize| -> Vec<String> {
            let mut o: Vec<String> = Vec::with_capacity(count);
            match kind {
                0 => o.resize(count, String::new()),
                1 => {
                    // one long comment block, then one blank line
                    for _ in 0..count - 1 {
                        o.push("; padding comment".to_string());
                    }
                    o.push(String::new());
                }
                _ => {
                    let k = count / 4;
                    for _ in 0..k {
                        o.push("2024/01/02 Pad".to_string());
                        o.push("  Pad:A  1 X".to_string());
                        o.push("  Pad:B".to_string());
                        o.push(String::new());
                    }
                    o.resize(count, String::new());
                }
            }
            o
        };
        let names = ["false-assertion-on-posting-2", "unbalanced", "dangling-at-on-posting-2"];
        let scale_faults: Vec<&Fault> = names.iter().map(|n| by_mb[&0].iter().find(|f| f.name == *n).expect("harness bug: scale fault missing")).collect();
        ctx.fact("scale_start_lines", STARTS.len() as u64);
        let s0: Slots = [0; NSLOTS];
        let bin = okane_binary();
        for start in STARTS {
            for (pk, pname) in PADS.iter().enumerate() {
                for f in &scale_faults {
                    // fake fs: root and literal include; real binary: root, for the starts beyond 65535 with transaction padding
                    let mut runs: Vec<(LocKind, bool)> = vec![(LocKind::Root, false), (LocKind::Lit1, false)];
                    if pk == 2 && (start == 65537 || start == 100000) {
                        runs.push((LocKind::Root, true));
                    }
                    for (kind, binary) in runs {
                        if !ctx.next_is_mine() {
                            ctx.skip_cases(1);
                            continue;
                        }
                        let mut lines = pad_lines(pk, start - 1);
                        let first = lines.len() + 1;
                        lines.extend(f.lines.iter().cloned());
                        let last = lines.len();
                        let mut text = lines.join("\n");
                        text.push('\n');
                        let bf = BadFile { lines, text, first, last, fault: first + f.fault, final_nl: true, extra: vec![] };
                        let loc = Loc { kind, pre: 0, setup_in_root: false, incb: 0 };
                        let mut compared = 0u64;
                        if !binary {
                            let lay = build_layout("/v", &loc, f, &bf);
                            ctx.case(
                                || describe(&s0, f, &loc, &lay, &bf, &format!("fake-fs; scale family: the entry starts at line {} after {} (context slots not used)", start, pname)),
                                || {
                                    let obs = observe_fake(&lay);
                                    judge(&obs, &lay, &bf, f, &loc, "fake-fs", &mut compared)
                                },
                            );
                        } else {
                            let lay = build_layout(&format!("{}/binscale-{:?}", base, loc.kind), &loc, f, &bf);
                            let args: Vec<String> = vec!["balance".into(), lay.root.clone()];
                            ctx.case(
                                || describe(&s0, f, &loc, &lay, &bf, &format!("real files, real binary (stderr), $ okane {}; scale family: the entry starts at line {} after {}", args.join(" "), start, pname)).replace(&base, "<scratch>"),
                                || {
                                    let obs = observe_bin(&bin, &lay, &mut made, &args);
                                    let mut o = judge(&obs, &lay, &bf, f, &loc, "bin-balance", &mut compared);
                                    if let crate::fw::Verdict::Violation { sig, detail } = &o.verdict {
                                        o = Outcome::violation(sig.clone(), detail.replace(&base, "<scratch>"));
                                    }
                                    o
                                },
                            );
                            ctx.count("cases/okane-binary", 1);
                        }
                        ctx.count("transitions", compared);
                        ctx.count("cases/scale", 1);
                    }
                }
            }
        }
    }

    // ---- family 4: the real binary, every sub-command that loads a ledger; the diagnostic is its stderr ----
    let bin = okane_binary();
    let f4_ctxs = contexts(ctx.tier.pick(0usize, 1usize));
    ctx.fact("binary_contexts", f4_ctxs.len() as u64);
    let f4_locs = |f: &Fault| -> Vec<Loc> {
        let mut out = vec![];
        for l in locations(f, true) {
            if !thorough && (l.pre != 0 || l.setup_in_root || l.kind == LocKind::Lit2DotDot) {
                continue;
            }
            out.push(l);
            // and once after an include of an empty file in the same file
            if l.kind == LocKind::Root || l.kind == LocKind::Glob1 || thorough {
                out.push(Loc { incb: 1, ..l });
            }
        }
        out
    };
    for s in &f4_ctxs {
        let fs = &by_mb[&s[S_MB]];
        for f in fs {
            for loc in f4_locs(f) {
                let ncmd = bin_commands(f, "x").len();
                for ci in 0..ncmd {
                    if !ctx.next_is_mine() {
                        ctx.skip_cases(1);
                        continue;
                    }
                    let bf = build_bad_file(s, f, !loc.setup_in_root, loc.incb);
                    let lay = build_layout(&format!("{}/bin-{:?}", base, loc.kind), &loc, f, &bf);
                    let (cname, args) = bin_commands(f, &lay.root)[ci].clone();
                    let via = format!("bin-{}", cname);
                    let mut compared = 0u64;
                    ctx.case(
                        || describe(s, f, &loc, &lay, &bf, &format!("real files, real binary (stderr), $ okane {}", args.join(" "))).replace(&base, "<scratch>"),
                        || {
                            let obs = observe_bin(&bin, &lay, &mut made, &args);
                            let mut o = judge(&obs, &lay, &bf, f, &loc, &via, &mut compared);
                            if let crate::fw::Verdict::Violation { sig, detail } = &o.verdict {
                                o = Outcome::violation(sig.clone(), detail.replace(&base, "<scratch>"));
                            }
                            o
                        },
                    );
                    ctx.count("transitions", compared);
                    ctx.count("cases/okane-binary", 1);
                }
            }
        }
    }
    let _ = std::fs::remove_dir_all(&case_dir);
}
