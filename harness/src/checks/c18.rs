//! C18 — Camt053 import conserves the statement.
//!
//! The generator renders camt.053 XML documents (same element skeleton as okane's sample
//! `cli/tests/testdata/import/iso_camt.xml`) for EVERY consistent single-currency statement inside the
//! bounds of the tier, the real importer is run on each one twice
//!   (a) `okane::import::import(.., Format::IsoCamt053, ..)` + `Txn::to_double_entry`  (the transactions),
//!   (b) `okane::cmd::ImportCmd::run` on real files                                      (the printed text),
//! and both observations are compared with a reference written from the property statement. Then
//! `funding transaction` + printed text goes through the real `report::process`; it must be accepted and
//! leave the account at the closing balance (exact rationals).
//!
//! Reference (RefImport), for a statement with opening O, closing C = O + credits - debits and entries
//! e1..en in chronological order (the FILE order is chronological for row_order=old_to_new and reversed for
//! new_to_old):
//!   T0            an opening-balance transaction whose account posting asserts "= O"
//!   per entry     one transaction (no TxDtls) or one per TxDtls (batched entry), in chronological/detail
//!                 order, account posting = +amount (CRDT) / -amount (DBIT) by the entry's indicator, resp.
//!                 by each detail's OWN indicator (a batch may contain a detail of the opposite side),
//!                 date = value date if given else booking date,
//!                 effective date = booking date iff a value date is given and differs, else none
//!   last          its account posting asserts "= C"
//! Silent (not judged directly): payee, counter-account, how charges are split into postings, date and
//! amount of T0, assertions on intermediate transactions. They are judged indirectly by the book-keeping
//! and final-balance clauses.

use std::path::PathBuf;

use chrono::{Duration, NaiveDate};
use okane_core::parse::{parse_ledger, ParseOptions};
use okane_core::syntax::{expr, plain};

use crate::fw::{CheckDef, Ctx, Outcome};
use crate::oka;
use crate::q::Q;

pub const DEF: CheckDef = CheckDef {
    id: "C18",
    run,
    technique: "bounded-exhaustive enumeration of consistent camt.053 statements rendered as XML by the generator; the real importer (library entry point and ImportCmd on real files) is compared with a reference import written from the statement, and funding + printed output is fed back through the real report::process (acceptance and exact final balance)",
    rule: "case = one statement + configuration = (currency unit, opening balance (3 per unit; CHF: 0, 100.00, -50.25), notation of the figures, configuration, sequence of entries). Entry alphabet E (2040) = side{CRDT,DBIT} x amount{0.05,10.10,1000} x 5 relative value/booking-date forms x 68 detail/charge shapes (see notes/C18/NOTES.md; 20 of them measure the included charges against the amount of the imported transaction that carries them: amount - 0.01, exactly the amount in 1/2/3 records, amount + 0.01; on an entry without details, a single detail, either or both details of a batch, a detail of the opposite side, entry-level on a batch, with and without TxAmt). Families, each a complete product x 3 openings: F0 no entry, F1 one entry over E, F1n same without operator, F2n pairs without operator over 24, Fb1 = F1 and Fb2 = quick F2 with the optional Btch header left out, quick F2 pairs over 108 / F2d date pairs over 20 / F3 triples over 12, thorough F2 pairs over 1140 / F3 triples over 72 / F4 quadruples over 12 (all x 2 row orders); configuration families over 18 letters: Fw imported-account width 34..48 x {ASCII, wide} x precision {2, none}, Fc same for the rewrite-assigned counter account, Fl 10 nested-fragment layouts x 2 row orders; value classes: Fd one entry x 20 absolute (value, booking) date pairs (month/year/leap-day/decade/millennium boundaries, > 1 year apart, both orders) x 2 row orders; Fp-<ccy> one entry over 48 letters (incl. charges = amount without TxAmt) in units of 0/1/2/3/4/8 decimals (JPY, XDC, CHF, KWD, CLF, BTC; amounts 5 units, all-decimals figure, >= 1 000 000, 1.1) x notation {full, minimal, zero-padded} x precision {unit, none}; Fq-<ccy> pairs over 8 letters; zero figures: Fz one zero-amount entry (CRDT, DBIT) x 2 date forms x 10 charge-free shapes, Fz2 pairs over side x {0, 10.10} x {k0,k1,k2}, Fz3 triples over side x {0, 0.05} x k0 (x 2 row orders); movements of charges only next to other entries: Fa2 pairs over side x {0.05, 10.10} x {k0, k0-entry-all, k1-det-all-noamtdtls, k2-det2-all-noamtdtls}, Fa3 triples over side x {0.05} x {k0, k0-entry-all} (x 2 row orders). states = statements executed, transitions = ledger transactions compared with the reference (both observations), validated = MUST statements",
    assumptions: &[
        "the generator's XML skeleton follows okane's own sample file (cli/tests/testdata/import/iso_camt.xml); elements okane does not model (GrpHdr, Acct, TxsSummry, RvslInd, Sts, Btch totals, RltdPties) are constant",
        "included charge: the entry/detail amount is the account movement; AmtDtls/TxAmt (when rendered) is the amount net of the included charges (debit: Amt - charges, credit: Amt + charges) as in the sample file; an entry-level charge on a two-detail batch is attributed to the first detail's TxAmt",
        "printed text is read back with okane's own parser; acceptance and balances come from report::process (the subject of C01-C04, trusted here)",
        "DON'T-CARE: statements without entries (no transaction can carry the two assertions) and statements containing a charge that is NOT included (outside the quantifier): they are executed, shape clauses are judged where applicable, acceptance/final balance are only recorded; a statement with a non-zero charge under a configuration without operator (okane needs the operator as payee of the commission): only recorded; a DEBIT said to include charges larger than itself (amount + one unit: a part larger than the whole): executed and recorded, never judged. Charges EQUAL to a debit (a movement of charges only) and any charge on a credit are consistent figures and fully judged",
        "silent and therefore not judged directly: payee, counter-account, charge postings, date and amount of the opening-balance transaction, assertions on intermediate transactions",
    ],
    shards: 64,
    hang_s: 30,
    single_worker: false,
};

const ACCOUNT: &str = "Assets:Bank";
const CCY: &str = "CHF";

/// A currency with its number of decimals. All figures of a statement are integers in units of 10^-scale.
#[derive(Debug)]
struct Unit {
    ccy: &'static str,
    scale: u32,
    /// opening balances
    openings: [i64; 3],
    /// entry amounts, and the first part when an entry is split into two details
    amounts: &'static [i64],
    first: &'static [i64],
}

/// the unit of all families but Fp: 0 / 100.00 / -50.25; 0.05, 10.10, 1000
static CHF: Unit = Unit { ccy: "CHF", scale: 2, openings: [0, 100_00, -50_25], amounts: &[5, 10_10, 1000_00, 0], first: &[3, 10_00, 999_95, 0] };
/// index of the ZERO amount of the unit CHF (families Fz*; every detail of a zero entry is zero as well)
const ZERO_AMT: usize = 3;

/// Units of the precision family Fp: 0, 1, 2, 3, 4 and 8 decimals. Amounts: 5 units (< 0.01 from 3 decimals on),
/// a figure using every decimal, one >= 1 000 000 (plus one unit), and 1.1 (trailing zeros when written in full).
static UNITS_P: [Unit; 6] = [
    Unit { ccy: "JPY", scale: 0, openings: [0, 100, -50], amounts: &[5, 1000, 1_000_001, 12_345_678], first: &[3, 998, 1_000_000, 12_345_670] },
    Unit { ccy: "XDC", scale: 1, openings: [0, 100_0, -50_2], amounts: &[5, 10_1, 1_000_000_5, 1_1], first: &[3, 10_0, 1_000_000_0, 9] },
    Unit { ccy: "CHF", scale: 2, openings: [0, 100_00, -50_25], amounts: &[5, 10_10, 1_000_000_01, 1_10], first: &[3, 10_00, 1_000_000_00, 1_00] },
    Unit { ccy: "KWD", scale: 3, openings: [0, 100_000, -50_255], amounts: &[5, 1_004, 1_000_000_001, 1_100], first: &[3, 1_000, 1_000_000_000, 1_000] },
    Unit { ccy: "CLF", scale: 4, openings: [0, 100_0000, -50_2555], amounts: &[5, 12_3456, 1_000_000_0001, 1_1000], first: &[3, 12_0000, 1_000_000_0000, 1_0000] },
    Unit { ccy: "BTC", scale: 8, openings: [0, 100_00000000, -50_25555555], amounts: &[5, 1_23456789, 1_000_000_00000001, 1_10000000], first: &[3, 1_00000000, 1_000_000_00000000, 1_00000000] },
];

/// How the statement writes its figures.
#[derive(Clone, Copy, PartialEq, Eq, Debug)]
enum Style {
    /// integer when whole, otherwise all decimals of the unit (`1000`, `10.10`): all families but Fp
    Hybrid,
    /// always all decimals of the unit (`1.100`, `1000000.001`; `1000` for JPY)
    Full,
    /// trailing zeros dropped (`1.1`, `1000`)
    Minimal,
    /// two more zeros than the unit has decimals (`1.10000`)
    Padded,
}

impl Unit {
    fn fmt(&self, c: i64, style: Style) -> String {
        let p = 10i64.pow(self.scale);
        let a = c.abs();
        let int = a / p;
        let mut frac = if self.scale == 0 { String::new() } else { format!("{:0width$}", a % p, width = self.scale as usize) };
        match style {
            Style::Hybrid => {
                if a % p == 0 {
                    frac.clear();
                }
            }
            Style::Full => {}
            Style::Minimal => frac = frac.trim_end_matches('0').to_string(),
            Style::Padded => frac.push_str("00"),
        }
        let s = if frac.is_empty() { format!("{}", int) } else { format!("{}.{}", int, frac) };
        if c < 0 {
            format!("-{}", s)
        } else {
            s
        }
    }
    fn q(&self, c: i64) -> Q {
        Q::new(c as i128, 10i128.pow(self.scale))
    }
}

/// (value date, booking date) pairs outside the small relative scheme: month / year / leap-day / decade / millennium
/// boundaries, many days and more than a year apart, the far past; each in both orders, plus equal special days.
const DATE_PAIRS: [((i32, u32, u32), (i32, u32, u32)); 20] = [
    ((2021, 10, 31), (2021, 11, 1)),
    ((2021, 11, 1), (2021, 10, 31)),
    ((2021, 12, 31), (2022, 1, 3)),
    ((2022, 1, 3), (2021, 12, 31)),
    ((2024, 2, 29), (2024, 3, 1)),
    ((2024, 3, 1), (2024, 2, 29)),
    ((2024, 2, 28), (2024, 2, 29)),
    ((2024, 2, 29), (2024, 2, 28)),
    ((2021, 1, 5), (2021, 12, 20)),
    ((2021, 12, 20), (2021, 1, 5)),
    ((2020, 12, 31), (2022, 1, 1)),
    ((2022, 1, 1), (2020, 12, 31)),
    ((1999, 12, 31), (2000, 1, 1)),
    ((2000, 1, 1), (1999, 12, 31)),
    ((2000, 2, 29), (2000, 3, 1)),
    ((2000, 3, 1), (2000, 2, 29)),
    ((2029, 12, 31), (2030, 1, 1)),
    ((2030, 1, 1), (2029, 12, 31)),
    ((2024, 2, 29), (2024, 2, 29)),
    ((1999, 12, 31), (1999, 12, 31)),
];
const ENTRY_CHARGE: i64 = 2;
const DETAIL_CHARGE: i64 = 1;

#[derive(Clone, Copy, PartialEq, Eq, Debug)]
enum Side {
    Credit,
    Debit,
}

#[derive(Clone, Copy, PartialEq, Eq, Debug)]
enum Dates {
    Same,
    BookLater,
    BookEarlier,
    ValueAbsent,
    /// no value date, booking date given as <DtTm> with an offset whose UTC calendar day differs (Wise style)
    BookDtTmOnly,
    /// an explicit (value, booking) pair of DATE_PAIRS
    Pair(usize),
}

#[derive(Clone, Copy, PartialEq, Eq, Debug)]
enum Chg {
    None,
    /// a record with amount 0 (as in the sample file): must change nothing
    Zero,
    /// a <Chrgs> element with a zero total and no record at all (Wise style): must change nothing
    Empty,
    /// one included record of the level's amount (entry 0.02, detail 0.01)
    Incl,
    /// one included record of 0.01 whatever the level
    InclSmall,
    /// two / three included records of 0.01 each inside ONE <Chrgs>
    Incl2,
    Incl3,
    NotIncl,
    /// two not-included records of 0.01 each
    NotIncl2,
    // --- included charges measured against the amount of the imported transaction that carries them (its CARRIER:
    //     the entry without details, the detail; entry-level charges of a batch are carried by the first detail)
    /// one included record of exactly the carrier's amount: the movement consists of charges only (account keeping fee)
    All,
    /// two / three included records summing to exactly the carrier's amount: (amount - 0.01, 0.01) / (0.01, amount - 0.02, 0.01)
    AllIn2,
    AllIn3,
    /// one included record of the carrier's amount minus one unit (0.01 is left for the counter posting)
    AllBut1,
    /// one included record of the carrier's amount PLUS one unit / two records (amount, 0.01): more than the amount
    Over,
    Over2,
}

/// carrier amount used where only the presence of records matters (every real carrier is >= 2 units)
const NOMINAL: i64 = 5;

impl Chg {
    /// the charge records of one <Chrgs> block: (amount in cents, ChrgInclInd)
    fn records(self, level_amount: i64, carrier: i64) -> Vec<(i64, Option<bool>)> {
        match self {
            Chg::All => vec![(carrier, Some(true))],
            Chg::AllIn2 => vec![(carrier - 1, Some(true)), (1, Some(true))],
            Chg::AllIn3 => vec![(1, Some(true)), (carrier - 2, Some(true)), (1, Some(true))],
            Chg::AllBut1 => vec![(carrier - 1, Some(true))],
            Chg::Over => vec![(carrier + 1, Some(true))],
            Chg::Over2 => vec![(carrier, Some(true)), (1, Some(true))],
            Chg::None | Chg::Empty => vec![],
            Chg::Zero => vec![(0, None)],
            Chg::Incl => vec![(level_amount, Some(true))],
            Chg::InclSmall => vec![(1, Some(true))],
            Chg::Incl2 => vec![(1, Some(true)); 2],
            Chg::Incl3 => vec![(1, Some(true)); 3],
            Chg::NotIncl => vec![(level_amount, Some(false))],
            Chg::NotIncl2 => vec![(1, Some(false)); 2],
        }
    }
    fn included(self, level_amount: i64, carrier: i64) -> i64 {
        self.records(level_amount, carrier).iter().filter(|r| r.1 == Some(true)).map(|r| r.0).sum()
    }
    fn not_included(self, level_amount: i64, carrier: i64) -> i64 {
        self.records(level_amount, carrier).iter().filter(|r| r.1 == Some(false)).map(|r| r.0).sum()
    }
    fn nonzero_records(self) -> usize {
        self.records(1, NOMINAL).iter().filter(|r| r.0 != 0).count()
    }
}

/// Where a zero figure sits inside a batch (details still sum, with signs, to the entry).
#[derive(Clone, Copy, PartialEq, Eq, Debug)]
enum Lay {
    Std,
    /// the j-th detail has amount 0 and the entry's indicator; the others carry the whole entry
    ZeroAt(usize),
    /// the j-th detail has amount 0 and the OPPOSITE indicator
    ZeroOppAt(usize),
    /// two details (amount - 0.01, 0.01): with an included charge of 0.01 on the last one its TxAmt is 0 for a debit
    TinyLast,
}

#[derive(Clone, Copy, Debug)]
struct Shape {
    name: &'static str,
    /// number of TxDtls
    k: usize,
    /// index of the one TxDtls whose CdtDbtInd is OPPOSITE to the entry's (signed details still sum to the entry)
    opp: Option<usize>,
    /// special amounts inside the batch
    lay: Lay,
    /// NtryDtls/Btch rendered (always when k > 0)
    btch: bool,
    entry_chg: Chg,
    det_chg: [Chg; 3],
    /// AmtDtls (InstdAmt, TxAmt) rendered in the j-th TxDtls
    amt: [bool; 3],
}

const fn sh(name: &'static str, k: usize, btch: bool, entry_chg: Chg, d0: Chg, d1: Chg, amt_dtls: bool) -> Shape {
    Shape { name, k, opp: None, lay: Lay::Std, btch, entry_chg, det_chg: [d0, d1, Chg::None], amt: [amt_dtls; 3] }
}

/// batch with one detail of the opposite indicator
const fn shm(name: &'static str, k: usize, opp: Option<usize>, d1: Chg, amt_dtls: bool) -> Shape {
    Shape { name, k, opp, lay: Lay::Std, btch: true, entry_chg: Chg::None, det_chg: [Chg::None, d1, Chg::None], amt: [amt_dtls; 3] }
}

/// heterogeneous batch: every detail carries one included detail-level charge; `t` = index of the only detail that
/// also has AmtDtls (TxAmt = amount net of the charge, i.e. TxAmt != Amt), the others have no AmtDtls at all
const fn shh(name: &'static str, k: usize, opp: Option<usize>, t: usize) -> Shape {
    Shape { name, k, opp, lay: Lay::Std, btch: true, entry_chg: Chg::None, det_chg: [Chg::Incl; 3], amt: [t == 0, t == 1, t == 2] }
}

/// batch with a zero figure
const fn shz(name: &'static str, k: usize, lay: Lay, d1: Chg, amt_dtls: bool) -> Shape {
    Shape { name, k, opp: None, lay, btch: true, entry_chg: Chg::None, det_chg: [Chg::None, d1, Chg::None], amt: [amt_dtls; 3] }
}

/// any combination (the charge-versus-amount shapes)
const fn sha(name: &'static str, k: usize, opp: Option<usize>, entry_chg: Chg, det_chg: [Chg; 3], amt: [bool; 3]) -> Shape {
    Shape { name, k, opp, lay: Lay::Std, btch: k > 0, entry_chg, det_chg, amt }
}

const NO3: [Chg; 3] = [Chg::None; 3];
const F3: [bool; 3] = [false; 3];

const SHAPES: [Shape; 68] = [
    sh("k0", 0, false, Chg::None, Chg::None, Chg::None, false),
    sh("k0-btch", 0, true, Chg::None, Chg::None, Chg::None, false),
    sh("k1", 1, true, Chg::None, Chg::None, Chg::None, false),
    sh("k1-amtdtls", 1, true, Chg::None, Chg::None, Chg::None, true),
    sh("k2", 2, true, Chg::None, Chg::None, Chg::None, false),
    sh("k2-amtdtls", 2, true, Chg::None, Chg::None, Chg::None, true),
    sh("k1-zero-chg", 1, true, Chg::None, Chg::Zero, Chg::None, true),
    sh("k1-entry-incl", 1, true, Chg::Incl, Chg::None, Chg::None, true),
    sh("k1-det-incl", 1, true, Chg::None, Chg::Incl, Chg::None, true),
    sh("k1-both-incl", 1, true, Chg::Incl, Chg::Incl, Chg::None, true),
    sh("k2-det-incl", 2, true, Chg::None, Chg::Incl, Chg::Incl, true),
    sh("k2-det2-incl", 2, true, Chg::None, Chg::None, Chg::Incl, true),
    sh("k0-entry-incl", 0, false, Chg::Incl, Chg::None, Chg::None, false),
    sh("k1-det-incl-noamtdtls", 1, true, Chg::None, Chg::Incl, Chg::None, false),
    sh("k0-entry-notincl", 0, false, Chg::NotIncl, Chg::None, Chg::None, false),
    sh("k1-det-notincl", 1, true, Chg::None, Chg::NotIncl, Chg::None, true),
    sh("k2-det-notincl", 2, true, Chg::None, Chg::NotIncl, Chg::None, true),
    sh("k2-entry-incl", 2, true, Chg::Incl, Chg::None, Chg::None, true),
    // mixed batches: e.g. DBIT 0.05 = DBIT 0.07 + CRDT 0.02, DBIT 0.05 = DBIT 0.03 + DBIT 0.04 + CRDT 0.02
    shm("k3", 3, None, Chg::None, false),
    shm("k2-mixed", 2, Some(1), Chg::None, false),
    shm("k2-mixed-first", 2, Some(0), Chg::None, false),
    shm("k2-mixed-amtdtls", 2, Some(1), Chg::None, true),
    shm("k2-mixed-det2-incl", 2, Some(1), Chg::Incl, true),
    shm("k3-mixed", 3, Some(2), Chg::None, false),
    shm("k3-mixed-amtdtls", 3, Some(2), Chg::None, true),
    // several non-zero charge records landing on ONE imported transaction
    sh("k0-entry-incl2", 0, false, Chg::Incl2, Chg::None, Chg::None, false),
    sh("k0-entry-incl3", 0, false, Chg::Incl3, Chg::None, Chg::None, false),
    sh("k1-det-incl2-noamtdtls", 1, true, Chg::None, Chg::Incl2, Chg::None, false),
    sh("k1-both-incl-noamtdtls", 1, true, Chg::Incl, Chg::Incl, Chg::None, false),
    sh("k2-entry-incl2-noamtdtls", 2, true, Chg::Incl2, Chg::None, Chg::None, false),
    sh("k2-both-incl-noamtdtls", 2, true, Chg::InclSmall, Chg::Incl, Chg::None, false),
    sh("k1-det-incl2", 1, true, Chg::None, Chg::Incl2, Chg::None, true),
    sh("k0-entry-notincl2", 0, false, Chg::NotIncl2, Chg::None, Chg::None, false),
    // details of one batch that differ in whether they carry AmtDtls/TxAmt (T) or not (N); all with an included charge
    shh("k2-TN", 2, None, 0),
    shh("k2-NT", 2, None, 1),
    // three details 0.03, 0.04 and (opposite side) 0.02 so that no counter posting becomes zero
    shh("k3-TNN", 3, Some(2), 0),
    shh("k3-NTN", 3, Some(2), 1),
    shh("k3-NNT", 3, Some(2), 2),
    // <Chrgs> elements that carry no non-zero charge (a configuration without `operator` must still import them)
    sh("k0-entry-zero-chg", 0, false, Chg::Zero, Chg::None, Chg::None, false),
    sh("k0-entry-empty-chrgs", 0, false, Chg::Empty, Chg::None, Chg::None, false),
    sh("k1-det-empty-chrgs", 1, true, Chg::None, Chg::Empty, Chg::None, false),
    sh("k2-entry-zero-chg", 2, true, Chg::Zero, Chg::None, Chg::None, false),
    // zero figures inside a batch of a non-zero entry
    shz("k2-zero-last", 2, Lay::ZeroAt(1), Chg::None, false),
    shz("k2-zero-first", 2, Lay::ZeroAt(0), Chg::None, false),
    shz("k2-zero-opp", 2, Lay::ZeroOppAt(1), Chg::None, false),
    shz("k3-zero-mid", 3, Lay::ZeroAt(1), Chg::None, false),
    shz("k2-zero-amtdtls", 2, Lay::ZeroAt(1), Chg::None, true),
    shz("k2-txamt-zero", 2, Lay::TinyLast, Chg::Incl, true),
    // included charges measured against the amount that carries them, and NO TxAmt unless said otherwise:
    // exactly the amount (a movement that consists of charges only), in 1 / 2 / 3 records, one unit less, ...
    sha("k0-entry-all", 0, None, Chg::All, NO3, F3),
    sha("k0-entry-all-in2", 0, None, Chg::AllIn2, NO3, F3),
    sha("k0-entry-all-in3", 0, None, Chg::AllIn3, NO3, F3),
    sha("k0-entry-allbut1", 0, None, Chg::AllBut1, NO3, F3),
    sha("k1-det-all-noamtdtls", 1, None, Chg::None, [Chg::All, Chg::None, Chg::None], F3),
    sha("k1-det-all-in2-noamtdtls", 1, None, Chg::None, [Chg::AllIn2, Chg::None, Chg::None], F3),
    sha("k1-entry-all-noamtdtls", 1, None, Chg::All, NO3, F3),
    // entry-level record (amount - 0.01) + detail-level record 0.01 on the same transaction
    sha("k1-both-all-noamtdtls", 1, None, Chg::AllBut1, [Chg::InclSmall, Chg::None, Chg::None], F3),
    sha("k1-det-allbut1-noamtdtls", 1, None, Chg::None, [Chg::AllBut1, Chg::None, Chg::None], F3),
    // with AmtDtls: TxAmt = 0 for a debit (twice the amount for a credit)
    sha("k1-det-all", 1, None, Chg::None, [Chg::All, Chg::None, Chg::None], [true; 3]),
    sha("k2-det-all-noamtdtls", 2, None, Chg::None, [Chg::All, Chg::All, Chg::None], F3),
    sha("k2-det2-all-noamtdtls", 2, None, Chg::None, [Chg::None, Chg::All, Chg::None], F3),
    // entry-level charge of a batch = the amount of the first detail, which carries it
    sha("k2-entry-all-noamtdtls", 2, None, Chg::All, NO3, F3),
    // the detail of the OPPOSITE side consists of charges only (a debit inside a credit entry and vice versa)
    sha("k2-mixed-det2-all-noamtdtls", 2, Some(1), Chg::None, [Chg::None, Chg::All, Chg::None], F3),
    // first detail with TxAmt (net of a 0.01 charge), second without TxAmt and all charges
    sha("k2-TN-all", 2, None, Chg::None, [Chg::Incl, Chg::All, Chg::None], [true, false, false]),
    // ... and one unit MORE than the amount (DON'T-CARE for a debit, see judge())
    sha("k0-entry-over", 0, None, Chg::Over, NO3, F3),
    sha("k0-entry-over2", 0, None, Chg::Over2, NO3, F3),
    sha("k1-det-over-noamtdtls", 1, None, Chg::None, [Chg::Over, Chg::None, Chg::None], F3),
    sha("k2-det2-over-noamtdtls", 2, None, Chg::None, [Chg::None, Chg::Over, Chg::None], F3),
    sha("k2-mixed-det2-over-noamtdtls", 2, Some(1), Chg::None, [Chg::None, Chg::Over, Chg::None], F3),
];

/// the shapes up to here form the pair alphabet of the thorough tier (the later ones are in F1 only)
const PAIR_SHAPES: usize = 38;

impl Shape {
    fn chg(&self, j: usize) -> Chg {
        if j < self.k {
            self.det_chg[j]
        } else {
            Chg::None
        }
    }
    /// some charge record with a non-zero amount (okane needs the `operator` of the configuration as its payee)
    fn has_nonzero_charge(&self) -> bool {
        self.entry_chg.nonzero_records() > 0 || (0..self.k).any(|j| self.chg(j).nonzero_records() > 0)
    }
    /// details differ in whether they carry AmtDtls
    fn heterogeneous(&self) -> bool {
        (1..self.k).any(|j| self.amt[j] != self.amt[0])
    }
    fn has_not_included(&self) -> bool {
        self.entry_chg.not_included(ENTRY_CHARGE, NOMINAL) > 0 || (0..self.k).any(|j| self.chg(j).not_included(DETAIL_CHARGE, NOMINAL) > 0)
    }
    /// one entry-level charge record on an entry with two details
    fn entry_charge_on_batch(&self) -> bool {
        self.k >= 2 && self.entry_chg.included(ENTRY_CHARGE, NOMINAL) > 0
    }
    fn has_included(&self) -> bool {
        self.entry_chg.included(ENTRY_CHARGE, NOMINAL) > 0 || (0..self.k).any(|j| self.chg(j).included(DETAIL_CHARGE, NOMINAL) > 0)
    }
    /// largest number of non-zero charge records that land on one imported transaction
    /// (entry-level records go to the entry's transaction, resp. to the first detail's)
    fn records_on_one_txn(&self) -> usize {
        let mut best = 0;
        for j in 0..self.k.max(1) {
            let n = if j == 0 { self.entry_chg.nonzero_records() } else { 0 } + if self.k > 0 { self.chg(j).nonzero_records() } else { 0 };
            best = best.max(n);
        }
        best
    }
    /// an included charge but no TxAmt from which the net amount could be read
    fn included_without_txamt(&self) -> bool {
        if self.k == 0 {
            return self.has_included();
        }
        (0..self.k).any(|j| !self.amt[j] && (self.chg(j).included(DETAIL_CHARGE, NOMINAL) > 0 || (j == 0 && self.entry_chg.included(ENTRY_CHARGE, NOMINAL) > 0)))
    }
}

#[derive(Clone, Copy, Debug)]
struct EntrySpec {
    side: Side,
    amt: usize,
    dates: Dates,
    shape: usize,
    unit: &'static Unit,
}

impl EntrySpec {
    fn amount(&self) -> i64 {
        self.unit.amounts[self.amt]
    }
    /// the entry, one of its details or a TxAmt is zero
    fn has_zero_figure(&self) -> bool {
        self.amount() == 0 || self.shape().lay != Lay::Std
    }
    fn shape(&self) -> &'static Shape {
        &SHAPES[self.shape]
    }
    fn signed(&self, cents: i64) -> i64 {
        match self.side {
            Side::Credit => cents,
            Side::Debit => -cents,
        }
    }
    /// (amount, own side) of the details (k = 0: none); signed by their own side they sum to the signed entry
    fn details(&self) -> Vec<(i64, Side)> {
        let s = self.shape();
        let a = self.amount();
        let f = self.unit.first[self.amt];
        let x = a - f;
        let own = self.side;
        let other = if own == Side::Credit { Side::Debit } else { Side::Credit };
        match (s.k, s.lay) {
            (_, Lay::Std) => {}
            (2, Lay::ZeroAt(1)) => return vec![(a, own), (0, own)],
            (2, Lay::ZeroAt(0)) => return vec![(0, own), (a, own)],
            (2, Lay::ZeroOppAt(1)) => return vec![(a, own), (0, other)],
            (3, Lay::ZeroAt(1)) => return vec![(f, own), (0, own), (x, own)],
            (2, Lay::TinyLast) => return vec![(a - DETAIL_CHARGE, own), (DETAIL_CHARGE, own)],
            _ => panic!("harness bug: unsupported zero layout"),
        }
        match (s.k, s.opp) {
            (0, _) => vec![],
            (1, None) => vec![(a, own)],
            (2, None) => vec![(f, own), (x, own)],
            (2, Some(1)) => vec![(a + x, own), (x, other)],
            (2, Some(0)) => vec![(x, other), (a + x, own)],
            (3, None) => vec![(f, own), (x / 2, own), (x - x / 2, own)],
            (3, Some(2)) => vec![(f, own), (2 * x, own), (x, other)],
            _ => panic!("harness bug: unsupported detail layout"),
        }
    }
    /// amount of the imported transaction that carries the entry-level charges: the entry itself, or its first detail
    fn entry_carrier(&self) -> i64 {
        self.details().first().map(|d| d.0).unwrap_or(self.amount())
    }
    /// per imported transaction of the entry: (amount, own side, sum of the included charge records it carries)
    fn carried_charges(&self) -> Vec<(i64, Side, i64)> {
        let s = self.shape();
        let ds = self.details();
        if ds.is_empty() {
            return vec![(self.amount(), self.side, s.entry_chg.included(ENTRY_CHARGE, self.amount()))];
        }
        ds.iter()
            .enumerate()
            .map(|(j, (da, side))| (*da, *side, s.chg(j).included(DETAIL_CHARGE, *da) + if j == 0 { s.entry_chg.included(ENTRY_CHARGE, *da) } else { 0 }))
            .collect()
    }
    /// a DEBIT movement that consists of included charges only (charges = amount: nothing is left for the counter party)
    fn debit_is_all_charges(&self) -> bool {
        self.carried_charges().iter().any(|(a, side, c)| *side == Side::Debit && *c > 0 && c == a)
    }
    /// a DEBIT movement said to INCLUDE charges larger than itself. (A credit can carry any charge: gross = amount + charge.)
    fn debit_smaller_than_its_charges(&self) -> bool {
        self.carried_charges().iter().any(|(a, side, c)| *side == Side::Debit && c > a)
    }
    fn name(&self) -> String {
        format!("{}{}/{}/{}", if self.side == Side::Credit { "+" } else { "-" }, self.unit.fmt(self.amount(), Style::Full), self.shape().name, match self.dates {
            Dates::Same => "val=book".to_string(),
            Dates::BookLater => "book=val+1".to_string(),
            Dates::BookEarlier => "book=val-1".to_string(),
            Dates::ValueAbsent => "no-val".to_string(),
            Dates::BookDtTmOnly => "no-val,book=DtTm".to_string(),
            Dates::Pair(k) => format!("val={:?},book={:?}", DATE_PAIRS[k].0, DATE_PAIRS[k].1),
        })
    }
}

/// A consistent statement; `entries` in chronological order.
#[derive(Clone, Debug)]
struct Stmt {
    opening: i64,
    unit: &'static Unit,
    /// how the figures are written in the XML
    style: Style,
    /// the import configuration the statement is imported with
    cfg: CfgSpec,
    entries: Vec<EntrySpec>,
    /// the optional `<Btch>` header of NtryDtls is left out everywhere (camt.053: Btch [0..1]); the details are unchanged
    no_btch_header: bool,
}

impl Stmt {
    fn closing(&self) -> i64 {
        self.opening + self.entries.iter().map(|e| e.signed(e.amount())).sum::<i64>()
    }
    /// a figure as the statement writes it
    fn m(&self, c: i64) -> String {
        self.unit.fmt(c, self.style)
    }
    fn q(&self, c: i64) -> Q {
        self.unit.q(c)
    }
    fn ccy(&self) -> &'static str {
        self.unit.ccy
    }
    /// (value date, booking date) of the i-th entry in chronological order
    fn dates(&self, i: usize) -> (Option<NaiveDate>, NaiveDate) {
        let v = oka::date(2021, 10, 2) + Duration::days(3 * i as i64);
        match self.entries[i].dates {
            Dates::Same => (Some(v), v),
            Dates::BookLater => (Some(v), v + Duration::days(1)),
            Dates::BookEarlier => (Some(v), v - Duration::days(1)),
            Dates::ValueAbsent | Dates::BookDtTmOnly => (None, v),
            Dates::Pair(k) => {
                let ((vy, vm, vd), (by, bm, bd)) = DATE_PAIRS[k];
                (Some(oka::date(vy, vm, vd)), oka::date(by, bm, bd))
            }
        }
    }
    fn summary(&self) -> String {
        format!(
            "{} opening {} closing {} figures written {:?}; {} entries(chronological) [{}]",
            self.ccy(),
            self.m(self.opening),
            self.m(self.closing()),
            self.style,
            self.cfg.summary(),
            self.entries.iter().map(|e| e.name()).collect::<Vec<_>>().join(", ")
        )
    }
}

fn ind(c: i64) -> &'static str {
    if c < 0 {
        "DBIT"
    } else {
        "CRDT"
    }
}

// ------------------------------------------------------------------------------------------
// XML rendering (skeleton of cli/tests/testdata/import/iso_camt.xml)

fn render_charges(out: &mut String, stmt: &Stmt, indent: &str, chg: Chg, level_amount: i64, carrier: i64) {
    let recs = chg.records(level_amount, carrier);
    if chg == Chg::None {
        return;
    }
    out.push_str(&format!("{i}<Chrgs>\n", i = indent));
    let total: i64 = recs.iter().map(|r| r.0).sum();
    if chg == Chg::Empty {
        out.push_str(&format!("{i}  <TtlChrgsAndTaxAmt Ccy=\"{c}\">0.00</TtlChrgsAndTaxAmt>\n", i = indent, c = stmt.ccy()));
    } else if total != 0 {
        out.push_str(&format!("{i}  <TtlChrgsAndTaxAmt Ccy=\"{c}\">{a}</TtlChrgsAndTaxAmt>\n", i = indent, c = stmt.ccy(), a = stmt.m(total)));
    }
    for (amt, incl) in recs {
        out.push_str(&format!("{i}  <Rcrd>\n{i}    <Amt Ccy=\"{c}\">{a}</Amt>\n", i = indent, c = stmt.ccy(), a = stmt.m(amt)));
        out.push_str(&format!("{i}    <CdtDbtInd>{d}</CdtDbtInd>\n", i = indent, d = if amt == 0 { "CRDT" } else { "DBIT" }));
        if let Some(b) = incl {
            out.push_str(&format!("{i}    <ChrgInclInd>{b}</ChrgInclInd>\n", i = indent, b = b));
        }
        out.push_str(&format!("{i}    <Tp>\n{i}      <Prtry>\n{i}        <Id>SHAR</Id>\n{i}      </Prtry>\n{i}    </Tp>\n{i}  </Rcrd>\n", i = indent));
    }
    out.push_str(&format!("{i}</Chrgs>\n", i = indent));
}

fn render_entry(out: &mut String, stmt: &Stmt, i: usize) {
    let e = &stmt.entries[i];
    let s = e.shape();
    let (val, book) = stmt.dates(i);
    let a = e.amount();
    let cd = ind(e.signed(1));
    out.push_str("      <Ntry>\n");
    out.push_str(&format!("        <Amt Ccy=\"{}\">{}</Amt>\n        <CdtDbtInd>{}</CdtDbtInd>\n", stmt.ccy(), stmt.m(a), cd));
    out.push_str("        <RvslInd>false</RvslInd>\n        <Sts>BOOK</Sts>\n");
    if e.dates == Dates::BookDtTmOnly {
        // 00:30 local time at +02:00 is still the previous day in UTC: the booking DATE is the local one
        out.push_str(&format!("        <BookgDt>\n          <DtTm>{}T00:30:00+02:00</DtTm>\n        </BookgDt>\n", book.format("%Y-%m-%d")));
    } else {
        out.push_str(&format!("        <BookgDt>\n          <Dt>{}</Dt>\n        </BookgDt>\n", book.format("%Y-%m-%d")));
    }
    if let Some(v) = val {
        out.push_str(&format!("        <ValDt>\n          <Dt>{}</Dt>\n        </ValDt>\n", v.format("%Y-%m-%d")));
    }
    let fam = if e.side == Side::Credit { "RCDT" } else { "ICDT" };
    out.push_str(&format!("        <BkTxCd>\n          <Domn>\n            <Cd>PMNT</Cd>\n            <Fmly>\n              <Cd>{}</Cd>\n              <SubFmlyCd>OTHR</SubFmlyCd>\n            </Fmly>\n          </Domn>\n        </BkTxCd>\n", fam));
    render_charges(out, stmt, "        ", s.entry_chg, ENTRY_CHARGE, e.entry_carrier());
    if (s.btch && !stmt.no_btch_header) || s.k > 0 {
        out.push_str("        <NtryDtls>\n");
        if !stmt.no_btch_header {
        out.push_str(&format!("          <Btch>\n            <NbOfTxs>{}</NbOfTxs>\n            <TtlAmt Ccy=\"{}\">{}</TtlAmt>\n            <CdtDbtInd>{}</CdtDbtInd>\n          </Btch>\n", s.k.max(1), stmt.ccy(), stmt.m(a), cd));
        }
        for (j, (da, dside)) in e.details().iter().enumerate() {
            let dcd = if *dside == Side::Credit { "CRDT" } else { "DBIT" };
            out.push_str("          <TxDtls>\n");
            out.push_str(&format!("            <Refs>\n              <AcctSvcrRef>REF/{}/{}</AcctSvcrRef>\n              <EndToEndId>NOTPROVIDED</EndToEndId>\n            </Refs>\n", i + 1, j + 1));
            out.push_str(&format!("            <Amt Ccy=\"{}\">{}</Amt>\n            <CdtDbtInd>{}</CdtDbtInd>\n", stmt.ccy(), stmt.m(*da), dcd));
            if s.amt[j] {
                // charges carried by this detail
                let mut incl = s.chg(j).included(DETAIL_CHARGE, *da);
                let mut not_incl = s.chg(j).not_included(DETAIL_CHARGE, *da);
                if j == 0 {
                    incl += s.entry_chg.included(ENTRY_CHARGE, *da);
                    not_incl += s.entry_chg.not_included(ENTRY_CHARGE, *da);
                }
                // net amount of the underlying transaction: debit: the account paid amount = net + charge;
                // credit: the account received amount = net - charge
                let tx_amt = if *dside == Side::Debit { da - incl } else { da + incl };
                let instd = if *dside == Side::Debit { tx_amt - not_incl } else { tx_amt + not_incl };
                out.push_str(&format!("            <AmtDtls>\n              <InstdAmt>\n                <Amt Ccy=\"{c}\">{i}</Amt>\n              </InstdAmt>\n              <TxAmt>\n                <Amt Ccy=\"{c}\">{t}</Amt>\n              </TxAmt>\n            </AmtDtls>\n", c = stmt.ccy(), i = stmt.m(instd), t = stmt.m(tx_amt)));
            }
            render_charges(out, stmt, "            ", s.chg(j), DETAIL_CHARGE, *da);
            let (me, other) = if *dside == Side::Credit { ("Cdtr", "Dbtr") } else { ("Dbtr", "Cdtr") };
            out.push_str(&format!("            <RltdPties>\n              <{o}>\n                <Nm>Party {i}.{j}</Nm>\n              </{o}>\n              <{m}>\n                <Nm>Taro Yamada</Nm>\n              </{m}>\n            </RltdPties>\n", o = other, m = me, i = i + 1, j = j + 1));
            out.push_str(&format!("            <AddtlTxInf>detail {}.{}</AddtlTxInf>\n          </TxDtls>\n", i + 1, j + 1));
        }
        out.push_str("        </NtryDtls>\n");
    }
    out.push_str(&format!("        <AddtlNtryInf>entry {}</AddtlNtryInf>\n      </Ntry>\n", i + 1));
}

fn render_balance(out: &mut String, stmt: &Stmt, code: &str, v: i64, date: &str) {
    out.push_str(&format!("      <Bal>\n        <Tp>\n          <CdOrPrtry>\n            <Cd>{}</Cd>\n          </CdOrPrtry>\n        </Tp>\n        <Amt Ccy=\"{}\">{}</Amt>\n        <CdtDbtInd>{}</CdtDbtInd>\n        <Dt>\n          <Dt>{}</Dt>\n        </Dt>\n      </Bal>\n", code, stmt.ccy(), stmt.m(v.abs()), ind(v), date));
}

fn render_xml(stmt: &Stmt) -> String {
    let mut o = String::with_capacity(4096);
    o.push_str("<?xml version=\"1.0\" encoding=\"UTF-8\"?>\n<Document xmlns=\"urn:iso:std:iso:20022:tech:xsd:camt.053.001.04\">\n  <BkToCstmrStmt>\n");
    o.push_str("    <GrpHdr>\n      <MsgId>2021103100000000</MsgId>\n      <CreDtTm>2021-10-31T00:00:00</CreDtTm>\n      <MsgPgntn>\n        <PgNb>1</PgNb>\n        <LastPgInd>true</LastPgInd>\n      </MsgPgntn>\n    </GrpHdr>\n");
    o.push_str("    <Stmt>\n      <Id>2021103100000000</Id>\n      <ElctrncSeqNb>2</ElctrncSeqNb>\n      <CreDtTm>2021-10-31T00:00:00</CreDtTm>\n      <FrToDt>\n        <FrDtTm>2021-10-01T00:00:00</FrDtTm>\n        <ToDtTm>2021-10-30T23:59:59</ToDtTm>\n      </FrToDt>\n");
    o.push_str(&format!("      <Acct>\n        <Id>\n          <IBAN>CH3689144511369184655</IBAN>\n        </Id>\n        <Ccy>{}</Ccy>\n        <Ownr>\n          <Nm>Taro Yamada</Nm>\n        </Ownr>\n      </Acct>\n", stmt.ccy()));
    render_balance(&mut o, stmt, "OPBD", stmt.opening, "2021-10-01");
    render_balance(&mut o, stmt, "CLBD", stmt.closing(), "2021-10-31");
    let credits: i64 = stmt.entries.iter().filter(|e| e.side == Side::Credit).map(|e| e.amount()).sum();
    let debits: i64 = stmt.entries.iter().filter(|e| e.side == Side::Debit).map(|e| e.amount()).sum();
    o.push_str(&format!(
        "      <TxsSummry>\n        <TtlNtries>\n          <NbOfNtries>{}</NbOfNtries>\n          <Sum>{}</Sum>\n          <TtlNetNtry>\n            <Amt>{}</Amt>\n            <CdtDbtInd>{}</CdtDbtInd>\n          </TtlNetNtry>\n        </TtlNtries>\n      </TxsSummry>\n",
        stmt.entries.len(),
        stmt.m(credits + debits),
        stmt.m((credits - debits).abs()),
        ind(credits - debits)
    ));
    let n = stmt.entries.len();
    for pos in 0..n {
        let i = if stmt.cfg.new_to_old { n - 1 - pos } else { pos };
        render_entry(&mut o, stmt, i);
    }
    o.push_str("    </Stmt>\n  </BkToCstmrStmt>\n</Document>\n");
    o
}

/// Which of two nested configuration fragments (outer `bank/`, inner `bank/savings/`) sets a field.
#[derive(Clone, Copy, Debug, PartialEq, Eq, Hash)]
enum Where {
    Outer,
    Inner,
    /// both, with different values: the more specific (inner) one must win
    Both,
}

#[derive(Clone, Copy, Debug, PartialEq, Eq, Hash)]
enum Layout {
    /// one document whose path is the file name
    Single,
    /// two nested fragments (+ a non-matching decoy `otherbank/`); inner listed first in the file
    Nested { account: Where, commodity: Where },
    /// three nested fragments all setting the account
    Three,
}

/// One import configuration. What the statement is silent about is fixed; what the property speaks about
/// (the account, row order) and what decides how the ledger is printed (account widths, precision) varies.
#[derive(Clone, Debug, PartialEq, Eq, Hash)]
struct CfgSpec {
    new_to_old: bool,
    /// the configuration names an `operator` (payee of charges)
    operator: bool,
    /// the account the statement is imported into = what the most specific matching fragment says
    account: String,
    /// counter account assigned to every entry by the rewrite rule (None: okane's Income/Expenses:Unknown)
    counter: Option<String>,
    /// currency of the statement (configured as `commodity`)
    ccy: &'static str,
    /// format.commodity.<ccy>.precision (None: no precision configured, numbers print as in the statement)
    precision: Option<u32>,
    layout: Layout,
}

const OUTER_DECOY: &str = "Assets:Outer Decoy";
const MIDDLE_DECOY: &str = "Assets:Middle Decoy";

impl CfgSpec {
    fn plain(new_to_old: bool, operator: bool) -> CfgSpec {
        CfgSpec { new_to_old, operator, account: ACCOUNT.to_string(), counter: None, ccy: CCY, precision: Some(2), layout: Layout::Single }
    }
    fn is_plain(&self) -> bool {
        self.account == ACCOUNT && self.counter.is_none() && self.ccy == CCY && self.precision == Some(2) && self.layout == Layout::Single
    }
    /// path of the statement file below the per-configuration scratch directory
    fn source(&self) -> &'static str {
        match self.layout {
            Layout::Single => "stmt.xml",
            _ => "bank/savings/stmt.xml",
        }
    }
    fn summary(&self) -> String {
        format!(
            "row_order {} operator {} account {:?} counter {:?} precision {} config {:?}",
            if self.new_to_old { "new_to_old" } else { "old_to_new" },
            if self.operator { "present" } else { "absent" },
            self.account,
            self.counter,
            self.precision.map(|p| p.to_string()).unwrap_or("none".into()),
            self.layout
        )
    }
    fn yaml(&self) -> String {
        let q = |v: &str| format!("\"{}\"", v);
        let base = format!("encoding: UTF-8\naccount_type: asset\n{}", if self.operator { "operator: Okane Bank (fee)\n" } else { "" });
        let format = format!("format:\n{}  row_order: {}\n", self.precision.map(|p| format!("  commodity:\n    {}:\n      precision: {}\n", self.ccy, p)).unwrap_or_default(), if self.new_to_old { "new_to_old" } else { "old_to_new" });
        let rewrite = format!("rewrite:\n  - matcher:\n      additional_entry_info: \"(?P<payee>.+)\"\n{}", self.counter.as_ref().map(|c| format!("    account: {}\n", q(c))).unwrap_or_default());
        let acct = |v: &str| format!("account: {}\n", q(v));
        let comm = |v: &str| format!("commodity: {}\n", v);
        match self.layout {
            Layout::Single => format!("path: stmt.xml\n{}{}{}{}{}", base, acct(&self.account), comm(self.ccy), format, rewrite),
            Layout::Nested { account, commodity } => {
                let mut outer = format!("path: bank/\n{}", base);
                let mut inner = "path: bank/savings/\n".to_string();
                match account {
                    Where::Outer => outer.push_str(&acct(&self.account)),
                    Where::Inner => inner.push_str(&acct(&self.account)),
                    Where::Both => {
                        outer.push_str(&acct(OUTER_DECOY));
                        inner.push_str(&acct(&self.account));
                    }
                }
                match commodity {
                    Where::Outer => outer.push_str(&comm(self.ccy)),
                    Where::Inner => inner.push_str(&comm(self.ccy)),
                    Where::Both => {
                        outer.push_str(&comm("EUR"));
                        inner.push_str(&comm(self.ccy));
                    }
                }
                outer.push_str(&format);
                outer.push_str(&rewrite);
                let decoy = format!("path: otherbank/\n{}{}", acct("Assets:Wrong Bank"), comm("JPY"));
                format!("{}---\n{}---\n{}", inner, decoy, outer)
            }
            Layout::Three => {
                let outer = format!("path: bank/\n{}{}{}{}", base, acct(OUTER_DECOY), comm("EUR"), rewrite);
                let middle = format!("path: bank/savings/\n{}", acct(MIDDLE_DECOY));
                let inner = format!("path: bank/savings/stmt\n{}{}{}", acct(&self.account), comm(self.ccy), format);
                format!("{}---\n{}---\n{}", middle, inner, outer)
            }
        }
    }
}

// ------------------------------------------------------------------------------------------
// Reference import

#[derive(Clone, Debug, PartialEq)]
struct ExpTxn {
    date: NaiveDate,
    eff: Option<NaiveDate>,
    amt: i64,
}

/// The entry transactions the statement promises, in ledger order.
fn expected(stmt: &Stmt) -> Vec<ExpTxn> {
    let mut v = vec![];
    for (i, e) in stmt.entries.iter().enumerate() {
        let (val, book) = stmt.dates(i);
        let date = val.unwrap_or(book);
        let eff = match val {
            Some(vd) if vd != book => Some(book),
            _ => None,
        };
        let ds = e.details();
        if ds.is_empty() {
            v.push(ExpTxn { date, eff, amt: e.signed(e.amount()) });
        } else {
            // each detail by its OWN credit/debit indicator
            for (d, side) in ds {
                v.push(ExpTxn { date, eff, amt: if side == Side::Credit { d } else { -d } });
            }
        }
    }
    v
}

// ------------------------------------------------------------------------------------------
// Observation

#[derive(Clone, Debug, PartialEq)]
struct ObsPost {
    amount: Option<(Q, String)>,
    balance: Option<(Q, String)>,
    literal: bool,
}

#[derive(Clone, Debug, PartialEq)]
struct ObsTxn {
    date: NaiveDate,
    eff: Option<NaiveDate>,
    /// postings on the imported account
    acct: Vec<ObsPost>,
    /// every posting: account name, amount, balance assertion (for comparing the two observations)
    all: Vec<(String, Option<(Q, String)>, Option<(Q, String)>)>,
}

fn lit(v: &expr::ValueExpr<'_>) -> Option<(Q, String)> {
    match v {
        expr::ValueExpr::Amount(a) => Some((Q::from_decimal(a.value.value), a.commodity.to_string())),
        _ => None,
    }
}

fn observe(t: &plain::Transaction<'_>, account: &str) -> ObsTxn {
    let mut acct = vec![];
    let mut all = vec![];
    for p in &t.posts {
        all.push((p.account.to_string(), p.amount.as_ref().and_then(|a| lit(&a.amount)), p.balance.as_ref().and_then(lit)));
        if p.account.as_ref() == account {
            let amount = p.amount.as_ref().and_then(|a| lit(&a.amount));
            let balance = p.balance.as_ref().and_then(lit);
            let literal = p.amount.as_ref().map(|a| lit(&a.amount).is_some()).unwrap_or(false) && p.balance.as_ref().map(|b| lit(b).is_some()).unwrap_or(true);
            acct.push(ObsPost { amount, balance, literal });
        }
    }
    ObsTxn { date: t.date, eff: t.effective_date, acct, all }
}

/// Files of one configuration: written once per process.
struct CfgFiles {
    config_path: PathBuf,
    source: PathBuf,
    /// what `ConfigSet::select` makes of the configuration for the statement file
    entry: Result<okane::import::config::ConfigEntry, String>,
}

struct Scratch {
    dir: PathBuf,
    cache: std::cell::RefCell<std::collections::HashMap<CfgSpec, std::rc::Rc<CfgFiles>>>,
}

fn scratch() -> Scratch {
    Scratch { dir: oka::scratch_dir("c18"), cache: Default::default() }
}

impl Scratch {
    fn files(&self, cfg: &CfgSpec) -> std::rc::Rc<CfgFiles> {
        if let Some(f) = self.cache.borrow().get(cfg) {
            return f.clone();
        }
        let n = self.cache.borrow().len();
        let dir = self.dir.join(format!("cfg{}", n));
        let source = dir.join(cfg.source());
        std::fs::create_dir_all(source.parent().unwrap()).expect("harness bug: cannot create the configuration directory");
        let config_path = dir.join("config.yml");
        std::fs::write(&config_path, cfg.yaml()).expect("harness bug: cannot write config");
        let entry = match okane::import::config::load_from_yaml(cfg.yaml().as_bytes()) {
            Err(e) => panic!("harness bug: generated configuration does not load: {}\n{}", e, cfg.yaml()),
            Ok(set) => match set.select(&source) {
                Ok(Some(e)) => Ok(e),
                Ok(None) => Err("no fragment matches the statement file".to_string()),
                Err(e) => Err(e.to_string()),
            },
        };
        let f = std::rc::Rc::new(CfgFiles { config_path, source, entry });
        self.cache.borrow_mut().insert(cfg.clone(), f.clone());
        f
    }
}

/// (a) library entry point (with the account of the selected configuration entry, like ImportCmd does)
fn run_lib(cfg: &okane::import::config::ConfigEntry, account: &str, xml: &str) -> Result<Vec<ObsTxn>, String> {
    let txns = okane::import::import(xml.as_bytes(), okane::import::Format::IsoCamt053, cfg).map_err(|e| format!("import(): {}", e))?;
    let mut out = vec![];
    for t in &txns {
        let d = t.to_double_entry(&cfg.account).map_err(|e| format!("to_double_entry(): {}", e))?;
        out.push(observe(&d, account));
    }
    Ok(out)
}

/// Overwrite without O_TRUNC: ext4 flushes synchronously on close after a truncate-to-zero (2.6 ms per case).
fn write_in_place(path: &std::path::Path, data: &[u8]) {
    use std::io::Write;
    let mut f = std::fs::OpenOptions::new().write(true).create(true).truncate(false).open(path).expect("harness bug: cannot open statement file");
    f.write_all(data).expect("harness bug: cannot write statement");
    f.set_len(data.len() as u64).expect("harness bug: cannot size statement file");
}

/// (b) the command, on real files
fn run_cmd(files: &CfgFiles, xml: &str) -> Result<String, String> {
    write_in_place(&files.source, xml.as_bytes());
    let mut out: Vec<u8> = vec![];
    okane::cmd::ImportCmd { config: files.config_path.clone(), source: files.source.clone() }.run(&mut out).map_err(|e| format!("ImportCmd::run: {}", e))?;
    String::from_utf8(out).map_err(|_| "ImportCmd::run: output is not UTF-8".to_string())
}

fn parse_text(text: &str, account: &str) -> Result<Vec<ObsTxn>, String> {
    let mut v = vec![];
    for r in parse_ledger::<plain::Ident>(&ParseOptions::default(), text) {
        match r {
            Ok((_, okane_core::syntax::LedgerEntry::Txn(t))) => v.push(observe(&t, account)),
            Ok(_) => {}
            Err(e) => return Err(e.to_string()),
        }
    }
    Ok(v)
}

fn show_obs(v: &[ObsTxn]) -> String {
    v.iter()
        .map(|t| {
            format!(
                "{}{} [{}]",
                t.date,
                t.eff.map(|e| format!("={}", e)).unwrap_or_default(),
                t.acct.iter().map(|p| format!("{}{}", p.amount.as_ref().map(|a| a.0.to_string()).unwrap_or("?".into()), p.balance.as_ref().map(|b| format!(" = {}", b.0)).unwrap_or_default())).collect::<Vec<_>>().join("; ")
            )
        })
        .collect::<Vec<_>>()
        .join(" | ")
}

/// Shape clauses of the statement on one observation. `who` = "txns" | "text".
fn judge_shape(who: &str, stmt: &Stmt, exp: &[ExpTxn], obs: &[ObsTxn]) -> Option<Outcome> {
    let viol = |sig: &str, detail: String| Some(Outcome::violation(format!("{}@{}", sig, who), format!("{}\nexpected entry transactions: {:?}\nobserved: {}", detail, exp, show_obs(obs))));
    if stmt.entries.is_empty() {
        return None;
    }
    // one opening-balance transaction + one per entry / detail
    if obs.len() != exp.len() + 1 {
        let kind = if obs.len() == exp.len() { "no-opening-transaction-or-one-missing" } else if obs.len() > exp.len() + 1 { "too-many" } else { "too-few" };
        return viol(&format!("shape/count/{}", kind), format!("{} transactions imported, the statement promises 1 + {}", obs.len(), exp.len()));
    }
    // every transaction has exactly one literal posting on the account in the statement's currency
    for (i, t) in obs.iter().enumerate() {
        if t.acct.len() != 1 || !t.acct[0].literal || t.acct[0].amount.as_ref().map(|a| a.1.as_str()) != Some(stmt.ccy()) {
            return viol("shape/account-posting/not-exactly-one", format!("transaction #{} has {} postings on {:?} (or not a plain {} amount); its postings: {:?}", i, t.acct.len(), stmt.cfg.account, stmt.ccy(), t.all.iter().map(|p| p.0.as_str()).collect::<Vec<_>>()));
        }
    }
    let amt = |t: &ObsTxn| t.acct[0].amount.as_ref().unwrap().0;
    // T0 asserts the opening balance
    match &obs[0].acct[0].balance {
        None => return viol("shape/opening-assertion/missing", "the first transaction does not assert the opening balance".into()),
        Some((v, c)) => {
            if *v != stmt.q(stmt.opening) || c != stmt.ccy() {
                return viol("shape/opening-assertion/wrong", format!("the first transaction asserts {} {} instead of the opening balance {}", v, c, stmt.m(stmt.opening)));
            }
        }
    }
    // account postings: sign and amount, in order
    let got: Vec<Q> = obs[1..].iter().map(amt).collect();
    let want: Vec<Q> = exp.iter().map(|e| stmt.q(e.amt)).collect();
    if got != want {
        let neg: Vec<Q> = want.iter().map(|q| q.neg()).collect();
        let mut gs = got.clone();
        let mut ws = want.clone();
        gs.sort();
        ws.sort();
        let kind = if got == neg {
            "sign-flipped"
        } else if gs == ws {
            "order"
        } else if got.iter().zip(&want).all(|(g, w)| g.abs() == w.abs()) {
            "sign"
        } else {
            "amount"
        };
        return viol(&format!("shape/account-posting/{}", kind), format!("account postings {:?} but the statement says {:?}", got.iter().map(|q| q.to_string()).collect::<Vec<_>>(), want.iter().map(|q| q.to_string()).collect::<Vec<_>>()));
    }
    // dates
    for (i, (t, e)) in obs[1..].iter().zip(exp).enumerate() {
        if t.date != e.date {
            return viol("shape/date", format!("entry transaction #{} dated {} instead of {}", i + 1, t.date, e.date));
        }
        match (t.eff, e.eff) {
            (a, b) if a == b => {}
            (Some(a), None) => {
                let kind = if a == t.date { "set-although-equal" } else { "unexpected" };
                return viol(&format!("shape/effective-date/{}", kind), format!("entry transaction #{} has effective date {} but booking date and value date do not differ", i + 1, a));
            }
            (None, Some(b)) => return viol("shape/effective-date/missing", format!("entry transaction #{} lacks the effective date {} (booking date differs from value date)", i + 1, b)),
            (Some(a), Some(b)) => return viol("shape/effective-date/wrong", format!("entry transaction #{} has effective date {} instead of the booking date {}", i + 1, a, b)),
            _ => unreachable!(),
        }
    }
    // closing balance on the last transaction
    let last = obs.last().unwrap();
    match &last.acct[0].balance {
        None => {
            let elsewhere = obs[1..obs.len() - 1].iter().position(|t| t.acct[0].balance.as_ref().map(|b| b.0) == Some(stmt.q(stmt.closing())));
            let kind = if elsewhere.is_some() { "not-on-last" } else { "missing" };
            return viol(&format!("shape/closing-assertion/{}", kind), format!("the last transaction does not assert the closing balance {}", stmt.m(stmt.closing())));
        }
        Some((v, c)) => {
            if *v != stmt.q(stmt.closing()) || c != stmt.ccy() {
                return viol("shape/closing-assertion/wrong", format!("the last transaction asserts {} {} instead of the closing balance {}", v, c, stmt.m(stmt.closing())));
            }
        }
    }
    None
}

fn funding(stmt: &Stmt, account: &str) -> String {
    format!("1990/01/01 * funding\n    {}    {} {}\n    Equity:Opening    {} {}\n\n", account, stmt.m(stmt.opening), stmt.ccy(), stmt.m(-stmt.opening), stmt.ccy())
}

/// A DEBIT movement that is said to include charges LARGER than itself contradicts "charges included in the amount"
/// (a part larger than the whole; the amount before charges would have to change sides): the property is silent.
/// Such statements are executed and what happens is recorded, never judged. Charges EQUAL to the debit (an account
/// keeping fee: the movement consists of charges only) and any charge on a credit (gross = amount + charge) are
/// consistent figures and fully judged.
fn judge(sc: &Scratch, stmt: &Stmt, xml: &str, txns_compared: &mut u64) -> Outcome {
    let out = judge_consistent(sc, stmt, xml, txns_compared);
    if !stmt.entries.iter().any(|e| e.debit_smaller_than_its_charges()) {
        return out;
    }
    let reason = "included-charges-exceed-the-debit";
    match out.verdict {
        crate::fw::Verdict::Pass => Outcome::dont_care(format!("dc/{}/imported-accepted-and-conserved", reason)),
        crate::fw::Verdict::DontCare => Outcome::dont_care(format!("dc/{}/{}", reason, out.class.trim_start_matches("dc/"))),
        crate::fw::Verdict::Violation { sig, .. } => Outcome::dont_care(format!("dc/{}/{}", reason, sig.split('@').next().unwrap_or(""))),
    }
}

fn judge_consistent(sc: &Scratch, stmt: &Stmt, xml: &str, txns_compared: &mut u64) -> Outcome {
    let exp = expected(stmt);
    let account = stmt.cfg.account.as_str();
    // --- the configuration as okane resolves it for the statement file (layered fragments: the most specific wins)
    let files = sc.files(&stmt.cfg);
    let entry = match &files.entry {
        Ok(e) => e,
        Err(e) => return Outcome::violation("config-layering/select-fails", format!("ConfigSet::select fails on a well-formed configuration: {}", e)),
    };
    {
        use okane::import::config::RowOrder;
        let bad = if entry.account != account {
            Some(("account", entry.account.clone(), account.to_string()))
        } else if entry.commodity.primary != stmt.ccy() {
            Some(("commodity", entry.commodity.primary.clone(), stmt.ccy().to_string()))
        } else if entry.operator.is_some() != stmt.cfg.operator {
            Some(("operator", format!("{:?}", entry.operator), format!("present={}", stmt.cfg.operator)))
        } else if (entry.format.row_order == RowOrder::NewToOld) != stmt.cfg.new_to_old {
            Some(("row_order", format!("{:?}", entry.format.row_order), format!("new_to_old={}", stmt.cfg.new_to_old)))
        } else {
            None
        };
        if let Some((field, got, want)) = bad {
            return Outcome::violation(format!("config-layering/{}", field), format!("the configuration selected for {} has {} = {} but the most specific fragment that sets it says {}", stmt.cfg.source(), field, got, want));
        }
    }
    // --- run the real importer, both ways
    let lib = run_lib(entry, account, xml);
    let cmd = run_cmd(&files, xml);
    if stmt.entries.is_empty() {
        // no transaction can carry the two assertions: the statement is silent. Only record what happens.
        return match (&lib, &cmd) {
            (Err(_), Err(_)) => Outcome::dont_care("dc/no-entries/import-fails"),
            (Ok(v), Ok(t)) if v.is_empty() && t.trim().is_empty() => Outcome::dont_care("dc/no-entries/empty-ledger"),
            (Ok(_), Ok(_)) => Outcome::dont_care("dc/no-entries/some-ledger"),
            _ => Outcome::violation("library-and-command-disagree/no-entries", format!("import(): {:?}\nImportCmd: {:?}", lib.as_ref().map(|v| show_obs(v)), cmd)),
        };
    }
    if !stmt.cfg.operator && stmt.entries.iter().any(|e| e.shape().has_nonzero_charge()) {
        // okane legitimately needs the operator as the payee of the commission posting: only record what happens
        return match (&lib, &cmd) {
            (Err(_), Err(_)) => Outcome::dont_care("dc/no-operator-with-charge/import-fails"),
            (Ok(_), Ok(_)) => Outcome::dont_care("dc/no-operator-with-charge/imported"),
            _ => Outcome::violation("library-and-command-disagree/no-operator-with-charge", format!("import(): {:?}\nImportCmd: {:?}", lib.as_ref().map(|v| show_obs(v)), cmd)),
        };
    }
    let lib = match lib {
        Ok(v) => v,
        Err(e) => {
            // input-shape part of the signature (only for the shape added last, so that older signatures stay as they were)
            let shape = if stmt.entries.iter().any(|e| e.debit_is_all_charges()) { "/debit-of-included-charges-only" } else { "" };
            return Outcome::violation(format!("import-fails/{}{}", e.split(':').next().unwrap_or(""), shape), format!("the importer rejected a consistent statement: {}", e));
        }
    };
    let text = match cmd {
        Ok(t) => t,
        Err(e) => return Outcome::violation("import-fails/ImportCmd", format!("the import command rejected a consistent statement although import() succeeded: {}", e)),
    };
    let parsed = match parse_text(&text, account) {
        Ok(v) => v,
        Err(e) => return Outcome::violation("printed-text-does-not-parse", format!("okane cannot read its own import output: {}\n{}", e, text)),
    };
    *txns_compared += (lib.len() + parsed.len()) as u64;
    // --- shape clauses, on both observations
    if let Some(v) = judge_shape("txns", stmt, &exp, &lib) {
        return v;
    }
    if let Some(v) = judge_shape("text", stmt, &exp, &parsed) {
        return v;
    }
    if lib != parsed {
        let names = |v: &[ObsTxn]| v.iter().map(|t| t.all.iter().map(|p| p.0.clone()).collect::<Vec<_>>()).collect::<Vec<_>>();
        if names(&lib) != names(&parsed) {
            return Outcome::violation("text-differs-from-transactions/posting-accounts", format!("the printed text does not read back with the accounts of the imported transactions: import() has {:?}, the text reads {:?}\n{}", names(&lib), names(&parsed), text));
        }
        return Outcome::violation("text-differs-from-transactions", format!("import() gives {} but the printed text reads {}\n{}", show_obs(&lib), show_obs(&parsed), text));
    }
    // --- conservation on the postings themselves
    let sum = parsed.iter().flat_map(|t| t.acct.iter()).filter_map(|p| p.amount.as_ref().map(|a| a.0)).fold(Q::ZERO, |a, b| a.add(b));
    let delta = stmt.q(stmt.closing() - stmt.opening);
    if sum != delta {
        return Outcome::violation("sum-of-account-postings-differs", format!("account postings sum to {} but closing - opening = {}", sum, delta));
    }
    // --- feed back through okane's own book-keeping
    // outside the quantifier ("charges included in the amount"): executed and recorded, not judged
    let dc_reason = if stmt.entries.iter().any(|e| e.shape().has_not_included()) { Some("charge-not-included") } else { None };
    let ledger = format!("{}{}", funding(stmt, account), text);
    // input-shape part of the signatures of the book-keeping clauses
    let ctxt = if stmt.entries.iter().any(|e| e.shape().included_without_txamt()) {
        "included-charge-without-TxAmt"
    } else if stmt.entries.iter().any(|e| e.shape().entry_charge_on_batch()) {
        "entry-charge-on-batch"
    } else if stmt.entries.iter().any(|e| e.shape().has_included()) {
        "included-charge-with-TxAmt"
    } else {
        "no-charge"
    };
    let res = oka::process_text(&ledger);
    match (&res, dc_reason) {
        (Err(_), Some(r)) => return Outcome::dont_care(format!("dc/{}/{}/rejected", r, ctxt)),
        (Err(e), None) => {
            return Outcome::violation(format!("bookkeeping-rejects/{}/{}", e.variant, ctxt), format!("okane's book-keeping rejects the ledger made of the funding transaction and its own import output:\n{}\n--- ledger ---\n{}", e.rendered, ledger));
        }
        _ => {}
    }
    let (bal, _) = res.unwrap();
    let fin = bal.get(account).and_then(|m| m.get(stmt.ccy())).copied().unwrap_or(Q::ZERO);
    let extra = bal.get(account).map(|m| m.keys().any(|k| k != stmt.ccy())).unwrap_or(false);
    if fin != stmt.q(stmt.closing()) || extra {
        if let Some(r) = dc_reason {
            return Outcome::dont_care(format!("dc/{}/{}/final-balance-differs", r, ctxt));
        }
        return Outcome::violation(format!("final-balance-differs/{}", ctxt), format!("the account ends at {} but the closing balance is {}\n--- ledger ---\n{}", fin, stmt.m(stmt.closing()), ledger));
    }
    if let Some(r) = dc_reason {
        return Outcome::dont_care(format!("dc/{}/{}/accepted", r, ctxt));
    }
    // class: what the statement exercised
    let n = stmt.entries.len();
    let batch = stmt.entries.iter().any(|e| e.shape().k >= 2);
    let mixed = stmt.entries.iter().any(|e| e.shape().opp.is_some());
    let chg = stmt.entries.iter().any(|e| e.shape().has_included());
    let eff = exp.iter().any(|e| e.eff.is_some());
    let noval = stmt.entries.iter().any(|e| matches!(e.dates, Dates::ValueAbsent | Dates::BookDtTmOnly));
    let kind = if stmt.entries.iter().any(|e| e.debit_is_all_charges()) {
        "-allchg"
    } else if stmt.entries.iter().any(|e| e.has_zero_figure()) {
        "-zero"
    } else if stmt.style != Style::Hybrid {
        "-precision"
    } else if stmt.entries.iter().any(|e| matches!(e.dates, Dates::Pair(_))) {
        "-dates"
    } else if stmt.cfg.layout != Layout::Single {
        "-layered"
    } else if !stmt.cfg.is_plain() {
        "-widths"
    } else if !stmt.cfg.operator {
        "-noop"
    } else {
        ""
    };
    Outcome::pass(format!("n{}{}/{}{}{}{}", n, kind, if mixed { "M" } else if batch { "B" } else { "-" }, if chg { "C" } else { "-" }, if eff { "E" } else { "-" }, if noval { "V" } else { "-" }))
}

// ------------------------------------------------------------------------------------------
// Enumeration

fn alphabet(sides: &[Side], amts: &[usize], dates: &[Dates], shapes: &[usize]) -> Vec<EntrySpec> {
    alphabet_of(&CHF, sides, amts, dates, shapes)
}

fn alphabet_of(unit: &'static Unit, sides: &[Side], amts: &[usize], dates: &[Dates], shapes: &[usize]) -> Vec<EntrySpec> {
    // simplest first: shape is the slowest digit, then dates, amount, side
    let mut v = vec![];
    for &shape in shapes {
        for &d in dates {
            for &amt in amts {
                for &side in sides {
                    v.push(EntrySpec { side, amt, dates: d, shape, unit });
                }
            }
        }
    }
    v
}

fn shape_idx(name: &str) -> usize {
    SHAPES.iter().position(|s| s.name == name).expect("harness bug: unknown shape")
}

struct Family {
    name: &'static str,
    n: usize,
    /// configurations the family is multiplied with (besides the 3 opening balances)
    cfgs: Vec<CfgSpec>,
    /// ways of writing the figures the family is multiplied with
    styles: Vec<Style>,
    unit: &'static Unit,
    alpha: Vec<EntrySpec>,
}

/// account name of display width `w` (>= 19): ASCII with an inner blank, or with two wide (CJK) characters
fn account_of_width(w: usize, cjk: bool) -> String {
    let head = if cjk { "Assets:\u{9280}\u{884c} Okane:" } else { "Assets:Okane Bank:" }; // both 18 columns wide
    assert!(w >= 19, "harness bug: account width");
    format!("{}{}", head, "x".repeat(w - 18))
}

fn families(thorough: bool) -> Vec<Family> {
    let both = [Side::Credit, Side::Debit];
    let all_amts = [0usize, 1, 2];
    let all_dates = [Dates::Same, Dates::BookLater, Dates::BookEarlier, Dates::ValueAbsent, Dates::BookDtTmOnly];
    let all_shapes: Vec<usize> = (0..SHAPES.len()).collect();
    let idx = |names: &[&str]| -> Vec<usize> { names.iter().map(|n| shape_idx(n)).collect() };
    // E: 2 x 3 x 5 x 68 = 2040
    let full = alphabet(&both, &all_amts, &all_dates, &all_shapes);
    // Ep: 2 x 3 x 5 x 38 = 1140 (E without the four zero/empty-<Chrgs> shapes)
    let pairs = alphabet(&both, &all_amts, &all_dates, &all_shapes[..PAIR_SHAPES]);
    // E2: 2 x 3 x 2 x 9 = 108
    let e2 = alphabet(&both, &all_amts, &[Dates::Same, Dates::BookLater], &idx(&["k0", "k1", "k2", "k1-entry-incl", "k2-det-incl", "k0-entry-incl2", "k2-entry-incl", "k1-det-notincl", "k3-mixed"]));
    // Ed: 2 x 1 x 5 x 2 = 20 (all date combinations of two entries)
    let ed = alphabet(&both, &[1], &all_dates, &idx(&["k0", "k2"]));
    // E3: 2 x 3 x 1 x 2 = 12
    let e3 = alphabet(&both, &all_amts, &[Dates::Same], &idx(&["k0", "k2-det-incl"]));
    // En: 2 x 3 x 1 x 4 = 24 (no non-zero charge; pairs without operator)
    let en = alphabet(&both, &all_amts, &[Dates::Same], &idx(&["k0", "k1-zero-chg", "k0-entry-empty-chrgs", "k2-entry-zero-chg"]));
    let orders = |operator: bool| vec![CfgSpec::plain(false, operator), CfgSpec::plain(true, operator)];
    let fam = |name, n, operator: bool, alpha| Family { name, n, cfgs: orders(operator), styles: vec![Style::Hybrid], unit: &CHF, alpha };
    let mut f = vec![fam("F0", 0, true, vec![]), fam("F1", 1, true, full.clone()), fam("F1n", 1, false, full)];
    if !thorough {
        f.push(fam("F2", 2, true, e2));
        f.push(fam("F2d", 2, true, ed));
        f.push(fam("F3", 3, true, e3));
    } else {
        f.push(fam("F2", 2, true, pairs));
        // E3t: 2 x 3 x 2 x 6 = 72
        let e3t = alphabet(&both, &all_amts, &[Dates::Same, Dates::BookLater], &idx(&["k0", "k2", "k1-entry-incl", "k2-det-incl", "k0-entry-incl", "k2-entry-incl"]));
        f.push(fam("F3", 3, true, e3t));
        f.push(fam("F4", 4, true, e3));
    }
    f.push(fam("F2n", 2, false, en));
    // Fb1 / Fb2: the same statements with the optional <Btch> header of every NtryDtls left out (the details still sum to
    // the entry): one entry over the whole alphabet, pairs over E2
    f.push(fam("Fb1", 1, true, alphabet(&both, &all_amts, &all_dates, &all_shapes)));
    f.push(fam("Fb2", 2, true, alphabet(&both, &all_amts, &[Dates::Same, Dates::BookLater], &idx(&["k0", "k1", "k2", "k1-entry-incl", "k2-det-incl", "k0-entry-incl2", "k2-entry-incl", "k1-det-notincl", "k3-mixed"]))));
    // --- configuration families over Ec: 2 x 3 x 1 x 3 = 18 (one entry)
    let ec = alphabet(&both, &all_amts, &[Dates::Same], &idx(&["k0", "k1-entry-incl", "k2"]));
    // Fw: account name of EVERY display width 34..=48 (the amount column of the printer is 48: account width + number
    // length runs from 35 to 56 across it) x {ASCII, with wide characters} x precision {2, none}
    let mut widths = vec![];
    let mut counters = vec![];
    for w in 34..=48usize {
        for cjk in [false, true] {
            for precision in [Some(2), None] {
                widths.push(CfgSpec { account: account_of_width(w, cjk), precision, ..CfgSpec::plain(false, true) });
                counters.push(CfgSpec { counter: Some(account_of_width(w, cjk).replacen("Assets", "Income", 1)), precision, ..CfgSpec::plain(false, true) });
            }
        }
    }
    f.push(Family { name: "Fw", n: 1, cfgs: widths, styles: vec![Style::Hybrid], unit: &CHF, alpha: ec.clone() });
    // Fc: the same sweep for the counter account assigned by a rewrite rule
    f.push(Family { name: "Fc", n: 1, cfgs: counters, styles: vec![Style::Hybrid], unit: &CHF, alpha: ec.clone() });
    // Fl: nested configuration fragments: account x commodity set {outer, inner, both} + three levels, both row orders
    let mut layered = vec![];
    for new_to_old in [false, true] {
        for account in [Where::Outer, Where::Inner, Where::Both] {
            for commodity in [Where::Outer, Where::Inner, Where::Both] {
                layered.push(CfgSpec { account: "Assets:Bank:Savings".to_string(), layout: Layout::Nested { account, commodity }, ..CfgSpec::plain(new_to_old, true) });
            }
        }
        layered.push(CfgSpec { account: "Assets:Bank:Savings".to_string(), layout: Layout::Three, ..CfgSpec::plain(new_to_old, true) });
    }
    f.push(Family { name: "Fl", n: 1, cfgs: layered, styles: vec![Style::Hybrid], unit: &CHF, alpha: ec });
    // --- zero figures: Fz one ZERO entry (CRDT and DBIT) x {value=booking, booking=value+1} x 10 charge-free shapes
    //     (all details of a zero entry are zero, AmtDtls: TxAmt 0 = Amt 0); Fz2 pairs over side x {0, 10.10} x {k0,k1,k2};
    //     Fz3 triples over side x {0, 0.05} x k0 (zero entry first / middle / last: carries the closing assertion)
    f.push(fam("Fz", 1, true, alphabet(&both, &[ZERO_AMT], &[Dates::Same, Dates::BookLater], &idx(&["k0", "k0-btch", "k1", "k1-amtdtls", "k2", "k2-amtdtls", "k2-mixed", "k3", "k0-entry-zero-chg", "k1-zero-chg"]))));
    f.push(fam("Fz2", 2, true, alphabet(&both, &[ZERO_AMT, 1], &[Dates::Same], &idx(&["k0", "k1", "k2"]))));
    f.push(fam("Fz3", 3, true, alphabet(&both, &[ZERO_AMT, 0], &[Dates::Same], &idx(&["k0"]))));
    // --- movements that consist of charges only (included charges = amount, no TxAmt) next to other entries:
    //     Fa2 pairs over side x {0.05, 10.10} x {k0, k0-entry-all, k1-det-all-noamtdtls, k2-det2-all-noamtdtls} = 16 letters,
    //     Fa3 triples over side x {0.05} x {k0, k0-entry-all} = 4 letters (first / middle / last: carries the closing assertion)
    f.push(fam("Fa2", 2, true, alphabet(&both, &[0, 1], &[Dates::Same], &idx(&["k0", "k0-entry-all", "k1-det-all-noamtdtls", "k2-det2-all-noamtdtls"]))));
    f.push(fam("Fa3", 3, true, alphabet(&both, &[0], &[Dates::Same], &idx(&["k0", "k0-entry-all"]))));
    // --- value classes outside the small scope
    // Fd: one entry, every (value date, booking date) pair of DATE_PAIRS: 2 x 3 x 20 x 3 = 360 letters, both row orders
    let pair_dates: Vec<Dates> = (0..DATE_PAIRS.len()).map(Dates::Pair).collect();
    f.push(fam("Fd", 1, true, alphabet(&both, &all_amts, &pair_dates, &idx(&["k0", "k1", "k2"]))));
    // Fp-<ccy>: one entry in a unit of 0/1/2/3/4/8 decimals: 2 x 4 amounts x 6 shapes = 48 letters
    //           x figures written {in full, minimal, zero-padded} x precision {decimals of the unit, none}
    // Fq-<ccy>: two entries without details: (2 x 4)^2 = 64 sequences, written in full, precision of the unit
    const FP: [&str; 6] = ["Fp-JPY", "Fp-XDC", "Fp-CHF", "Fp-KWD", "Fp-CLF", "Fp-BTC"];
    const FQ: [&str; 6] = ["Fq-JPY", "Fq-XDC", "Fq-CHF", "Fq-KWD", "Fq-CLF", "Fq-BTC"];
    for (u, unit) in UNITS_P.iter().enumerate() {
        let cfg = |precision| CfgSpec { ccy: unit.ccy, precision, ..CfgSpec::plain(false, true) };
        let ep = alphabet_of(unit, &both, &[0, 1, 2, 3], &[Dates::Same], &idx(&["k0", "k1-amtdtls", "k2", "k1-entry-incl", "k0-entry-all", "k1-det-all-noamtdtls"]));
        f.push(Family { name: FP[u], n: 1, cfgs: vec![cfg(Some(unit.scale)), cfg(None)], styles: vec![Style::Full, Style::Minimal, Style::Padded], unit, alpha: ep });
        let eq = alphabet_of(unit, &both, &[0, 1, 2, 3], &[Dates::Same], &idx(&["k0"]));
        f.push(Family { name: FQ[u], n: 2, cfgs: vec![cfg(Some(unit.scale))], styles: vec![Style::Full], unit, alpha: eq });
    }
    f
}

fn run(ctx: &mut Ctx) {
    let thorough = ctx.tier.pick(false, true);
    let fams = families(thorough);
    let sc = scratch();
    let mut total: u64 = 0;
    for fam in &fams {
        let a = fam.alpha.len() as u64;
        let seqs = a.pow(fam.n as u32);
        let ncfg = fam.cfgs.len() as u64;
        let nsty = fam.styles.len() as u64;
        let count = seqs * ncfg * nsty * 3;
        total += count;
        ctx.fact(&format!("statements_{}", fam.name), count);
        ctx.fact(&format!("alphabet_{}", fam.name), a);
        for idx in 0..count {
            if !ctx.next_is_mine() {
                ctx.skip_cases(1);
                continue;
            }
            // digits: entries (last entry fastest), then configuration, then opening (slowest)
            let mut r = idx;
            let mut entries: Vec<EntrySpec> = Vec::with_capacity(fam.n);
            for _ in 0..fam.n {
                entries.push(fam.alpha[(r % a) as usize]);
                r /= a;
            }
            entries.reverse();
            let cfg = fam.cfgs[(r % ncfg) as usize].clone();
            r /= ncfg;
            let style = fam.styles[(r % nsty) as usize];
            r /= nsty;
            let opening = fam.unit.openings[(r % 3) as usize];
            let stmt = Stmt { opening, unit: fam.unit, style, cfg, entries, no_btch_header: fam.name.starts_with("Fb") };
            let xml = render_xml(&stmt);
            let mut compared = 0u64;
            ctx.case(|| format!("{}\n--- config ---\n{}--- statement ({}) ---\n{}", stmt.summary(), stmt.cfg.yaml(), stmt.cfg.source(), xml), || judge(&sc, &stmt, &xml, &mut compared));
            ctx.count("transitions", compared);
            ctx.count("states", 1);
            ctx.count("entries", stmt.entries.len() as u64);
            ctx.count("statements_new_to_old", stmt.cfg.new_to_old as u64);
            ctx.count("statements_without_operator", !stmt.cfg.operator as u64);
            ctx.count("entries_with_a_zero_amount_detail_or_txamt", stmt.entries.iter().filter(|e| e.has_zero_figure()).count() as u64);
            ctx.count("statements_layered_config", (stmt.cfg.layout != Layout::Single) as u64);
            ctx.count("statements_date_pairs_outside_small_scope", stmt.entries.iter().any(|e| matches!(e.dates, Dates::Pair(_))) as u64);
            ctx.count("statements_other_precision_or_notation", (stmt.style != Style::Hybrid) as u64);
            ctx.count("statements_account_width_sweep", (stmt.cfg.account != ACCOUNT && stmt.cfg.layout == Layout::Single || stmt.cfg.counter.is_some()) as u64);
            ctx.count("batches_with_and_without_amtdtls", stmt.entries.iter().filter(|e| e.shape().heterogeneous()).count() as u64);
            ctx.count("entries_with_several_charge_records_on_one_transaction", stmt.entries.iter().filter(|e| e.shape().records_on_one_txn() >= 2).count() as u64);
            ctx.count("details_with_opposite_indicator", stmt.entries.iter().filter(|e| e.shape().opp.is_some()).count() as u64);
            ctx.count("details", stmt.entries.iter().map(|e| e.shape().k as u64).sum());
            ctx.count("statements_without_btch_header", stmt.no_btch_header as u64);
            ctx.count("entries_with_a_debit_that_is_all_included_charges", stmt.entries.iter().filter(|e| e.debit_is_all_charges()).count() as u64);
            ctx.count("entries_with_a_debit_smaller_than_its_included_charges", stmt.entries.iter().filter(|e| e.debit_smaller_than_its_charges()).count() as u64);
        }
    }
    ctx.fact("statements_total", total);
}
